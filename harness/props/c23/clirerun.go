package c23

import (
	"bytes"
	"encoding/json"
	"fmt"
	"sort"
	"strconv"
	"strings"
	"sync"
	"time"

	"github.com/cube2222/octosql/plugins/verifharness/cli"
	"github.com/cube2222/octosql/plugins/verifharness/core"
)

// CLI shapes that run the same file source once per outer row: a scalar subquery with LIMIT 1
// (each run is cut short by the LIMIT) and a LOOKUP JOIN whose joined side carries a LIMIT.
// Ground truth: tables a(k, v) and b(k, y) the generator keeps. b is grouped by ascending key, so
// the rows a later outer row needs lie BEYOND what an earlier, cut-short run of b has read.
// LIMIT without ORDER BY is judged by count and membership only (DESIGN §3.4).

type rerunTables struct {
	aK  []int
	aV  []string
	bK  []int
	bY  []int
	ext string
	a   []byte
	b   []byte
}

func genRerunTables(c *core.Ctx, id, ext string) rerunTables {
	rng := c.Rng("clir/" + id)
	t := rerunTables{ext: ext}
	nKeys := 3 + rng.Intn(8)
	for k := 1; k <= nKeys; k++ {
		for j := 0; j < 1+rng.Intn(3); j++ {
			t.bK = append(t.bK, k)
			t.bY = append(t.bY, k*100+j)
		}
	}
	nA := 4 + rng.Intn(20)
	for i := 0; i < nA; i++ {
		t.aK = append(t.aK, 1+rng.Intn(nKeys+1)) // nKeys+1 has no match
		t.aV = append(t.aV, "v"+strconv.Itoa(i))
	}
	// the first outer row asks for the smallest key: its run of b is the shortest
	t.aK[0] = 1
	var a, b bytes.Buffer
	switch ext {
	case "json":
		for i := range t.aK {
			fmt.Fprintf(&a, "{\"k\":%d,\"v\":%q}\n", t.aK[i], t.aV[i])
		}
		for i := range t.bK {
			fmt.Fprintf(&b, "{\"k\":%d,\"y\":%d}\n", t.bK[i], t.bY[i])
		}
	default:
		sep := ","
		if ext == "tsv" {
			sep = "\t"
		}
		a.WriteString("k" + sep + "v\n")
		b.WriteString("k" + sep + "y\n")
		for i := range t.aK {
			fmt.Fprintf(&a, "%d%s%s\n", t.aK[i], sep, t.aV[i])
		}
		for i := range t.bK {
			fmt.Fprintf(&b, "%d%s%d\n", t.bK[i], sep, t.bY[i])
		}
	}
	t.a, t.b = a.Bytes(), b.Bytes()
	return t
}

func (t rerunTables) matches(k int) []int {
	var ys []int
	for i := range t.bK {
		if t.bK[i] == k {
			ys = append(ys, t.bY[i])
		}
	}
	return ys
}

func numInt(v interface{}) (int, bool) {
	n, ok := v.(json.Number)
	if !ok {
		return 0, false
	}
	f, err := strconv.ParseFloat(string(n), 64)
	if err != nil || f != float64(int(f)) {
		return 0, false
	}
	return int(f), true
}

func runCLIRerun(c *core.Ctx) {
	runner := cli.NewRunner(c.BinDir, c.Scratch)
	n := c.Pick(18, 600)
	var mu sync.Mutex
	results := make([]*Result, n)
	core.Parallel(n, 16, func(i int) {
		id := fmt.Sprintf("clir-%d", i)
		if c.Only != "" && c.Only != id {
			return
		}
		r := runCLIRerunCase(c, runner, id, i)
		mu.Lock()
		results[i] = r
		mu.Unlock()
	})
	for _, r := range results {
		if r != nil {
			apply(c, r, "cli-rerun")
		}
	}
}

func runCLIRerunCase(c *core.Ctx, runner *cli.Runner, id string, i int) *Result {
	r := &Result{ID: id, Evals: 1}
	ext := []string{"csv", "tsv", "json"}[i%3]
	shape := []string{"subquery-limit", "lookup-join-limit"}[(i/3)%2]
	t := genRerunTables(c, id, ext)
	var sql string
	limit := 0
	switch shape {
	case "subquery-limit":
		sql = fmt.Sprintf("SELECT a.k, a.v, (SELECT b.y FROM b.%s b WHERE b.k = a.k LIMIT 1) AS ys FROM a.%s a", ext, ext)
	default:
		// limit at least the size of b (nothing may be cut), or smaller (count/membership only)
		limit = len(t.bK) + (i/6)%3
		if (i/6)%2 == 1 {
			limit = 1 + len(t.bK)/2
		}
		sql = fmt.Sprintf("SELECT a.k, a.v, b.y FROM a.%s a LOOKUP JOIN (SELECT * FROM b.%s b LIMIT %d) b ON a.k = b.k", ext, ext, limit)
	}
	replay := map[string]interface{}{"id": id, "sql": sql, "a." + ext: string(t.a), "b." + ext: string(t.b), "rerun": "./check C23 <tier> --only " + id}
	res := runner.Exec(cli.Run{Args: []string{sql, "-o", "json"}, Files: map[string][]byte{"a." + ext: t.a, "b." + ext: t.b}, Timeout: 90 * time.Second})
	r.count("cli-rerun/"+shape+"/"+ext, 1)
	switch {
	case res.TimedOut:
		r.Inconclusive = append(r.Inconclusive, "watchdog")
		return r
	case res.Panicked():
		site, msg := res.PanicSite()
		replay["stderr"] = tail(res.Stderr, 3000)
		r.viol("panic:"+site, "octosql crashed: "+msg, replay)
		return r
	case res.Exit != 0:
		replay["stderr"] = tail(res.Stderr, 2000)
		r.viol("rerun:cli-error", fmt.Sprintf("octosql exited %d: %s", res.Exit, trunc(strings.TrimSpace(string(res.Stderr)), 300)), replay)
		return r
	}
	rows, err := cli.DecodeJSONLines(res.Stdout)
	if err != nil {
		r.viol("cli:invalid-json-output", "output of -o json does not decode: "+err.Error(), replay)
		return r
	}
	replay["output"] = trunc(string(res.Stdout), 4000)
	var bad []string
	addBad := func(s string) {
		if len(bad) < 5 {
			bad = append(bad, s)
		}
	}
	// outer row by v (unique)
	idx := map[string]int{}
	for j, v := range t.aV {
		idx[v] = j
	}
	switch shape {
	case "subquery-limit":
		if len(rows) != len(t.aK) {
			addBad(fmt.Sprintf("%d outer rows, %d lines", len(t.aK), len(rows)))
		}
		seen := map[string]bool{}
		for _, row := range rows {
			v, _ := row.Values["v"].(string)
			j, ok := idx[v]
			k, okk := numInt(row.Values["k"])
			if !ok || !okk || k != t.aK[j] || seen[v] {
				addBad(fmt.Sprintf("line %v is not an outer row (or repeats one)", row.Values))
				continue
			}
			seen[v] = true
			want := t.matches(k)
			var got []interface{}
			switch ys := row.Values["ys"].(type) {
			case []interface{}:
				got = ys
			case nil:
			default:
				got = []interface{}{ys}
			}
			wantLen := 0
			if len(want) > 0 {
				wantLen = 1
			}
			if selftestOn() && j%3 == 1 {
				wantLen = 1 - wantLen
			}
			if len(got) != wantLen {
				addBad(fmt.Sprintf("outer row k=%d v=%s: b has %d rows with that key, LIMIT 1 must give %d, got %v", k, v, len(want), wantLen, row.Values["ys"]))
				continue
			}
			for _, g := range got {
				y, ok := numInt(g)
				found := false
				for _, w := range want {
					if ok && w == y {
						found = true
					}
				}
				if !found {
					addBad(fmt.Sprintf("outer row k=%d v=%s: y=%v is not a y of b for that key %v", k, v, g, want))
				}
			}
		}
	default:
		type pair struct {
			v string
			y int
		}
		got := map[pair]int{}
		perOuter := map[string]int{}
		for _, row := range rows {
			v, _ := row.Values["v"].(string)
			j, ok := idx[v]
			k, okk := numInt(row.Values["k"])
			y, oky := numInt(row.Values["y"])
			if !ok || !okk || !oky || k != t.aK[j] {
				addBad(fmt.Sprintf("line %v is not a joined row", row.Values))
				continue
			}
			member := false
			for _, w := range t.matches(k) {
				if w == y {
					member = true
				}
			}
			if !member {
				addBad(fmt.Sprintf("outer row k=%d v=%s joined with y=%d which b does not hold for that key", k, v, y))
			}
			got[pair{v, y}]++
			perOuter[v]++
			if got[pair{v, y}] > 1 {
				addBad(fmt.Sprintf("joined row (v=%s, y=%d) appears more than once", v, y))
			}
		}
		if limit >= len(t.bK) {
			// nothing is cut: exactly the lookup join
			for j, v := range t.aV {
				want := len(t.matches(t.aK[j]))
				if selftestOn() && j%3 == 1 {
					want++
				}
				if perOuter[v] != want {
					addBad(fmt.Sprintf("outer row k=%d v=%s: b has %d rows with that key (LIMIT %d >= |b| = %d), %d joined rows printed", t.aK[j], v, want, limit, len(t.bK), perOuter[v]))
				}
			}
		} else {
			// some LIMIT rows of b: every outer row sees the same `limit` rows; judged by count bounds only
			for j, v := range t.aV {
				if perOuter[v] > len(t.matches(t.aK[j])) {
					addBad(fmt.Sprintf("outer row v=%s: more joined rows than b holds for its key", v))
				}
			}
		}
	}
	if len(bad) > 0 {
		sort.Strings(bad)
		r.viol("rerun:"+shape, "a file source that is run once per outer row does not return the file's rows: "+strings.Join(bad, "; "), replay)
		return r
	}
	r.Nontrivial = append(r.Nontrivial, "rerun|"+sql+"|"+hashBytes(t.a)+hashBytes(t.b))
	r.Sample = map[string]interface{}{"id": id, "sql": sql, "outer_rows": len(t.aK), "b_rows": len(t.bK)}
	return r
}

package c23

import (
	"bytes"
	"fmt"
	"math"
	"math/rand"
	"sort"
	"strconv"

	"github.com/segmentio/parquet-go"

	"github.com/cube2222/octosql/octosql"

	"github.com/cube2222/octosql/plugins/verifharness/props/fileh"
)

// Parquet fixtures are written row by row as hand-built parquet.Row values (explicit repetition
// and definition levels): the struct-reflecting writer of the pinned fork writes zero rows under
// this toolchain. The reader side (what octosql uses) is the code under test.

type pqLeaf struct {
	Name string
	Kind string // int64 | int32 | double | float | bool | string
	Opt  bool
}

type pqCol struct {
	Name   string
	Rep    string // req | opt | rep | list | optlist | listopt | grp | optgrp
	Leaf   pqLeaf // for non-group columns
	Leaves []pqLeaf
}

type pqFile struct {
	Cols    []pqCol
	Rows    [][]interface{} // per row, per column (in schema = sorted-name order): model value
	Content []byte
}

func leafNode(k string) parquet.Node {
	switch k {
	case "int64", "rowindex":
		return parquet.Int(64)
	case "int32":
		return parquet.Leaf(parquet.Int32Type)
	case "double":
		return parquet.Leaf(parquet.DoubleType)
	case "float":
		return parquet.Leaf(parquet.FloatType)
	case "bool":
		return parquet.Leaf(parquet.BooleanType)
	default:
		return parquet.String()
	}
}

var pqKinds = []string{"int64", "int32", "double", "float", "bool", "string"}

func randLeafValue(rng *rand.Rand, k string, plain bool) interface{} {
	switch k {
	case "int64":
		if rng.Intn(3) == 0 {
			return []int64{0, -1, math.MinInt64, math.MaxInt64, 1<<53 + 1}[rng.Intn(5)]
		}
		return rng.Int63n(2001) - 1000
	case "int32":
		if rng.Intn(3) == 0 {
			return []int32{0, -1, math.MinInt32, math.MaxInt32}[rng.Intn(4)]
		}
		return int32(rng.Intn(2001) - 1000)
	case "double":
		if !plain && rng.Intn(10) == 0 {
			return []float64{math.NaN(), math.Inf(1), math.Inf(-1), math.Copysign(0, -1)}[rng.Intn(4)]
		}
		return fileh.RandFloat(rng)
	case "float":
		f := float32(fileh.RandFloat(rng))
		if plain && math.IsInf(float64(f), 0) {
			f = 1.5
		}
		return f
	case "bool":
		return rng.Intn(2) == 0
	default:
		return fileh.RandStr(rng, fileh.StrOpts{Plain: plain})
	}
}

// modelOf converts a written Go value to the model value octosql must produce
// (int32 -> int64, float32 -> float64).
func modelOf(v interface{}) interface{} {
	switch x := v.(type) {
	case int32:
		return int64(x)
	case float32:
		return float64(x)
	}
	return v
}

func genParquet(rng *rand.Rand, nRows int, plain bool) (*pqFile, error) {
	nCols := 1 + rng.Intn(6)
	names := []string{"a", "b", "c", "d", "e", "f", "g", "h", "id", "val"}
	perm := rng.Perm(len(names))
	f := &pqFile{}
	reps := []string{"req", "req", "opt", "opt", "rep", "list", "optlist", "listopt", "grp", "optgrp"}
	for i := 0; i < nCols; i++ {
		c := pqCol{Name: names[perm[i]], Rep: reps[rng.Intn(len(reps))]}
		if c.Rep == "grp" || c.Rep == "optgrp" {
			ln := []string{"p", "q", "r", "s"}
			n := 1 + rng.Intn(3)
			for j := 0; j < n; j++ {
				c.Leaves = append(c.Leaves, pqLeaf{Name: ln[j], Kind: pqKinds[rng.Intn(len(pqKinds))], Opt: rng.Intn(2) == 0})
			}
		} else {
			c.Leaf = pqLeaf{Kind: pqKinds[rng.Intn(len(pqKinds))]}
		}
		f.Cols = append(f.Cols, c)
	}
	// The fork's writer derives a row group's NumRows from its FIRST column, and counts values
	// there when that column is repeated; octosql's zero-column path (count(*)) trusts NumRows. So
	// that the fixture's metadata is right, the first column (names sort; "A0" sorts first) is
	// always a required scalar: the row index.
	f.Cols = append(f.Cols, pqCol{Name: "A0", Rep: "req", Leaf: pqLeaf{Kind: "rowindex"}})
	sort.Slice(f.Cols, func(i, j int) bool { return f.Cols[i].Name < f.Cols[j].Name })

	group := parquet.Group{}
	for _, c := range f.Cols {
		switch c.Rep {
		case "req":
			group[c.Name] = leafNode(c.Leaf.Kind)
		case "opt":
			group[c.Name] = parquet.Optional(leafNode(c.Leaf.Kind))
		case "rep":
			group[c.Name] = parquet.Repeated(leafNode(c.Leaf.Kind))
		case "list":
			group[c.Name] = parquet.List(leafNode(c.Leaf.Kind))
		case "optlist":
			group[c.Name] = parquet.Optional(parquet.List(leafNode(c.Leaf.Kind)))
		case "listopt":
			group[c.Name] = parquet.List(parquet.Optional(leafNode(c.Leaf.Kind)))
		case "grp", "optgrp":
			g := parquet.Group{}
			for _, l := range c.Leaves {
				if l.Opt {
					g[l.Name] = parquet.Optional(leafNode(l.Kind))
				} else {
					g[l.Name] = leafNode(l.Kind)
				}
			}
			if c.Rep == "optgrp" {
				group[c.Name] = parquet.Optional(g)
			} else {
				group[c.Name] = g
			}
		}
	}
	schema := parquet.NewSchema("verif", group)
	var buf bytes.Buffer
	w := parquet.NewWriter(&buf, schema)
	for r := 0; r < nRows; r++ {
		var row parquet.Row
		model := make([]interface{}, len(f.Cols))
		col := 0
		for ci, c := range f.Cols {
			switch c.Rep {
			case "req":
				v := randLeafValue(rng, c.Leaf.Kind, plain)
				if c.Leaf.Kind == "rowindex" {
					v = int64(r)
				}
				row = append(row, parquet.ValueOf(v).Level(0, 0, col))
				model[ci] = modelOf(v)
				col++
			case "opt":
				if rng.Intn(3) == 0 {
					row = append(row, parquet.ValueOf(nil).Level(0, 0, col))
					model[ci] = nil
				} else {
					v := randLeafValue(rng, c.Leaf.Kind, plain)
					row = append(row, parquet.ValueOf(v).Level(0, 1, col))
					model[ci] = modelOf(v)
				}
				col++
			case "rep", "list":
				n := rng.Intn(4)
				if rng.Intn(20) == 0 {
					n = 10 + rng.Intn(30) // beyond the reconstructor's initial capacity of 10
				}
				l := make([]interface{}, 0, n)
				if n == 0 {
					row = append(row, parquet.ValueOf(nil).Level(0, 0, col))
				}
				for i := 0; i < n; i++ {
					v := randLeafValue(rng, c.Leaf.Kind, plain)
					rep := 1
					if i == 0 {
						rep = 0
					}
					row = append(row, parquet.ValueOf(v).Level(rep, 1, col))
					l = append(l, modelOf(v))
				}
				model[ci] = l
				col++
			case "optlist":
				switch k := rng.Intn(4); {
				case k == 0:
					row = append(row, parquet.ValueOf(nil).Level(0, 0, col))
					model[ci] = nil
				case k == 1:
					row = append(row, parquet.ValueOf(nil).Level(0, 1, col))
					model[ci] = []interface{}{}
				default:
					n := 1 + rng.Intn(3)
					l := make([]interface{}, 0, n)
					for i := 0; i < n; i++ {
						v := randLeafValue(rng, c.Leaf.Kind, plain)
						rep := 1
						if i == 0 {
							rep = 0
						}
						row = append(row, parquet.ValueOf(v).Level(rep, 2, col))
						l = append(l, modelOf(v))
					}
					model[ci] = l
				}
				col++
			case "listopt":
				n := rng.Intn(4)
				l := make([]interface{}, 0, n)
				if n == 0 {
					row = append(row, parquet.ValueOf(nil).Level(0, 0, col))
				}
				for i := 0; i < n; i++ {
					rep := 1
					if i == 0 {
						rep = 0
					}
					if rng.Intn(3) == 0 {
						row = append(row, parquet.ValueOf(nil).Level(rep, 1, col))
						l = append(l, nil)
					} else {
						v := randLeafValue(rng, c.Leaf.Kind, plain)
						row = append(row, parquet.ValueOf(v).Level(rep, 2, col))
						l = append(l, modelOf(v))
					}
				}
				model[ci] = l
				col++
			case "grp", "optgrp":
				base := 0
				null := false
				if c.Rep == "optgrp" {
					base = 1
					null = rng.Intn(3) == 0
				}
				obj := &fileh.Obj{}
				for _, l := range c.Leaves {
					switch {
					case null:
						row = append(row, parquet.ValueOf(nil).Level(0, 0, col))
					case l.Opt && rng.Intn(3) == 0:
						row = append(row, parquet.ValueOf(nil).Level(0, base, col))
						obj.Set(l.Name, nil)
					default:
						v := randLeafValue(rng, l.Kind, plain)
						d := base
						if l.Opt {
							d++
						}
						row = append(row, parquet.ValueOf(v).Level(0, d, col))
						obj.Set(l.Name, modelOf(v))
					}
					col++
				}
				if null {
					model[ci] = nil
				} else {
					model[ci] = obj
				}
			}
		}
		if err := w.WriteRow(row); err != nil {
			return nil, fmt.Errorf("parquet WriteRow: %w", err)
		}
		f.Rows = append(f.Rows, model)
	}
	if err := w.Close(); err != nil {
		return nil, fmt.Errorf("parquet Close: %w", err)
	}
	f.Content = buf.Bytes()
	return f, nil
}

// comparePq: produced value vs parquet model value. Struct positions are found through the
// reported type's field names.
func comparePq(path *fileh.Path, t octosql.Type, v octosql.Value, m interface{}, out *fileh.DiffSet) {
	add := func(class, what string) { out.Add(fileh.Diff{Path: path.String(), Class: class, What: what}) }
	if m == nil {
		if v.TypeID != octosql.TypeIDNull {
			add("value", "parquet NULL produced "+fileh.ShowVal(v))
		}
		return
	}
	if v.TypeID == octosql.TypeIDNull {
		add("null-for-value", fmt.Sprintf("parquet value %v produced NULL", showPq(m)))
		return
	}
	switch x := m.(type) {
	case int64:
		if v.TypeID != octosql.TypeIDInt || v.Int != x {
			add("value", fmt.Sprintf("parquet int %d produced %s", x, fileh.ShowVal(v)))
		}
	case float64:
		if v.TypeID != octosql.TypeIDFloat || !fileh.FloatEq(v.Float, x) {
			add("value", fmt.Sprintf("parquet float %s produced %s", strconv.FormatFloat(x, 'g', -1, 64), fileh.ShowVal(v)))
		}
	case bool:
		if v.TypeID != octosql.TypeIDBoolean || v.Boolean != x {
			add("value", fmt.Sprintf("parquet bool %v produced %s", x, fileh.ShowVal(v)))
		}
	case string:
		if v.TypeID != octosql.TypeIDString || v.Str != x {
			add("value", fmt.Sprintf("parquet string %q produced %s", x, fileh.ShowVal(v)))
		}
	case []interface{}:
		if st := structTypeOf(t); st != nil && v.TypeID == octosql.TypeIDStruct && len(st.Struct.Fields) == 1 && st.Struct.Fields[0].Name == "list" {
			// The pinned parquet-go reader drops the LIST annotation of groups, so a LIST column is
			// reported (and produced) as {list: [{element: T}]}: the same values, one level more
			// nesting. Accepted as a representation; the values inside are compared.
			comparePq(path, t, v, wrapList(x), out)
			return
		}
		if v.TypeID != octosql.TypeIDList {
			add("kind", "parquet list produced "+fileh.ShowVal(v))
			return
		}
		if len(v.List) != len(x) {
			add("structure", fmt.Sprintf("parquet list of %d elements produced %d: %s", len(x), len(v.List), fileh.ShowVal(v)))
			return
		}
		var et octosql.Type
		if lt := listTypeOf(t); lt != nil && lt.List.Element != nil {
			et = *lt.List.Element
		}
		for i := range x {
			comparePq(path.Index(i), et, v.List[i], x[i], out)
			path.Pop()
		}
	case *fileh.Obj:
		if v.TypeID != octosql.TypeIDStruct {
			add("kind", "parquet group produced "+fileh.ShowVal(v))
			return
		}
		st := structTypeOf(t)
		if st == nil || len(st.Struct.Fields) != len(v.Struct) || len(v.Struct) != len(x.Keys) {
			add("structure", fmt.Sprintf("parquet group of %d fields produced %s under type %s", len(x.Keys), fileh.ShowVal(v), t.String()))
			return
		}
		for i, fld := range st.Struct.Fields {
			mv, ok := x.Get(fld.Name)
			if !ok {
				add("structure", "type has a field the group does not: "+fld.Name)
				continue
			}
			comparePq(path.Field(fld.Name), fld.Type, v.Struct[i], mv, out)
			path.Pop()
		}
	}
}

func wrapList(x []interface{}) *fileh.Obj {
	l := make([]interface{}, len(x))
	for i := range x {
		l[i] = &fileh.Obj{Keys: []string{"element"}, Vals: []interface{}{x[i]}}
	}
	return &fileh.Obj{Keys: []string{"list"}, Vals: []interface{}{l}}
}

func showPq(m interface{}) string {
	switch x := m.(type) {
	case *fileh.Obj:
		s := "{"
		for i := range x.Keys {
			s += x.Keys[i] + ":" + showPq(x.Vals[i]) + " "
		}
		return s + "}"
	case []interface{}:
		s := "["
		for i := range x {
			s += showPq(x[i]) + " "
		}
		return s + "]"
	case nil:
		return "NULL"
	case string:
		return strconv.Quote(x)
	case float64:
		return strconv.FormatFloat(x, 'g', -1, 64)
	}
	return fmt.Sprint(m)
}

func structTypeOf(t octosql.Type) *octosql.Type {
	if t.TypeID == octosql.TypeIDStruct {
		return &t
	}
	if t.TypeID == octosql.TypeIDUnion {
		for i := range t.Union.Alternatives {
			if t.Union.Alternatives[i].TypeID == octosql.TypeIDStruct {
				return &t.Union.Alternatives[i]
			}
		}
	}
	return nil
}

func listTypeOf(t octosql.Type) *octosql.Type {
	if t.TypeID == octosql.TypeIDList {
		return &t
	}
	if t.TypeID == octosql.TypeIDUnion {
		for i := range t.Union.Alternatives {
			if t.Union.Alternatives[i].TypeID == octosql.TypeIDList {
				return &t.Union.Alternatives[i]
			}
		}
	}
	return nil
}

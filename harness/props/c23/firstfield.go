package c23

import (
	"bytes"
	"math/rand"
	"strconv"
	"strings"

	"github.com/cube2222/octosql/plugins/verifharness/props/fileh"
)

// First-field files: data rows whose FIRST field, written unquoted, starts with a character that
// some CSV dialects treat as a remark or otherwise specially (#, ;, //, --, %, a BOM, a leading
// space or tab), is empty, or is a lone special character - within the preview and beyond it, as
// first, middle and last data row. RFC 4180 knows no comments: every line is a record.

var firstFields = []string{"#golang", "#42", "#", "# remark, not", ";x", ";", "//c", "--d", "-", "%e", "%", "\ufeffbom", " lead", "\tlead", "", "'", "=1+1", "@a", "*", "\\N", "~"}

func genFirstFieldCSV(rng *rand.Rand, sep byte, header bool, variant int) *fileh.CSVFile {
	f := &fileh.CSVFile{Sep: sep}
	if header {
		f.Header = []string{"tag", "n", "note"}
	}
	n := 131 + variant%7
	special := map[int]string{}
	k := variant
	for _, pos := range []int{0, 1, 10, 50, 98, 99, 100, 101, 115, n - 2, n - 1} {
		for {
			s := firstFields[k%len(firstFields)]
			k++
			if strings.IndexByte(s, sep) < 0 {
				special[pos] = s
				break
			}
		}
	}
	special[7] = "" // an empty first field inside the preview: the column is nullable
	for i := 0; i < n; i++ {
		first, ok := special[i]
		if !ok {
			if i%3 == 0 {
				first = firstFields[(i+variant)%len(firstFields)]
				if strings.IndexByte(first, sep) >= 0 {
					first = "#t" + strconv.Itoa(i)
				}
			} else {
				first = "t" + strconv.Itoa(i)
			}
		}
		f.Rows = append(f.Rows, []string{first, strconv.Itoa(i), "note " + strconv.Itoa(rng.Intn(1000))})
	}
	// written by hand: every field UNQUOTED (none holds the separator, a quote or a line break)
	var b bytes.Buffer
	eol := "\n"
	if variant%2 == 1 {
		eol = "\r\n"
		f.CRLF = true
	}
	write := func(rec []string) {
		for i, c := range rec {
			if i > 0 {
				b.WriteByte(sep)
			}
			b.WriteString(c)
		}
		b.WriteString(eol)
	}
	if header {
		write(f.Header)
	}
	for _, r := range f.Rows {
		write(r)
	}
	f.Content = b.Bytes()
	return f
}

package c23

import (
	"bytes"
	"context"
	"crypto/sha256"
	"encoding/hex"
	"fmt"
	"math/rand"
	"os"
	"path/filepath"
	"runtime/debug"
	"strconv"
	"strings"
	"time"

	"github.com/cube2222/octosql/execution"

	"github.com/cube2222/octosql/datasources/csv"
	"github.com/cube2222/octosql/datasources/json"
	"github.com/cube2222/octosql/datasources/lines"
	"github.com/cube2222/octosql/datasources/parquet"
	"github.com/cube2222/octosql/octosql"
	"github.com/cube2222/octosql/physical"

	"github.com/cube2222/octosql/plugins/verifharness/core"
	"github.com/cube2222/octosql/plugins/verifharness/nodeh"
	"github.com/cube2222/octosql/plugins/verifharness/props/fileh"
)

// Case is a pure function of (seed, ID): the generator stream is c.Rng("case/"+ID), so a child
// process regenerates exactly the file (and ground truth) its parent means.
type Case struct {
	ID   string `json:"id"`
	Kind string `json:"kind"` // json | csv | tsv | lines | parquet
	N    int    `json:"n"`
	Var  string `json:"var,omitempty"`
}

type Viol struct {
	Key    string                 `json:"key"`
	What   string                 `json:"what"`
	Replay map[string]interface{} `json:"replay"`
}

// Result is what judging one case yields; it travels from child processes to the parent as JSON.
type Result struct {
	ID           string                 `json:"id"`
	Evals        int                    `json:"evals"`
	Nontrivial   []string               `json:"nontrivial,omitempty"`
	Counts       map[string]int         `json:"counts,omitempty"`
	Viols        []Viol                 `json:"viols,omitempty"`
	Inconclusive []string               `json:"inconclusive,omitempty"`
	Sample       map[string]interface{} `json:"sample,omitempty"`
}

func (r *Result) count(k string, n int) {
	if r.Counts == nil {
		r.Counts = map[string]int{}
	}
	r.Counts[k] += n
}

func (r *Result) viol(key, what string, replay map[string]interface{}) {
	r.Viols = append(r.Viols, Viol{Key: key, What: what, Replay: replay})
}

func apply(c *core.Ctx, r *Result, leg string) {
	c.Eval(r.Evals)
	for _, k := range r.Nontrivial {
		c.Nontrivial(leg + "|" + k)
	}
	for k, n := range r.Counts {
		c.Count(k, n)
	}
	for _, v := range r.Viols {
		if v.Replay == nil {
			v.Replay = map[string]interface{}{}
		}
		v.Replay["leg"] = leg
		c.Violation(v.Key, "["+leg+"] "+v.What, v.Replay)
	}
	for _, s := range r.Inconclusive {
		c.Inconclusive(s)
	}
	if r.Sample != nil {
		r.Sample["leg"] = leg
		c.Sample(r.Sample)
	}
}

func hashBytes(b []byte) string {
	h := sha256.Sum256(b)
	return hex.EncodeToString(h[:8])
}

// ---------------------------------------------------------------------------------------------
// execution of a datasource

type creatorFn func(ctx context.Context, name string, options map[string]string) (physical.DatasourceImplementation, physical.Schema, error)

func creatorOf(kind string) creatorFn {
	switch kind {
	case "json":
		return json.Creator
	case "csv":
		return csv.Creator(',')
	case "tsv":
		return csv.Creator('\t')
	case "lines":
		return lines.Creator
	case "parquet":
		return parquet.Creator
	}
	panic("c23: bad kind " + kind)
}

type execOut struct {
	schema   physical.Schema
	used     []physical.SchemaField
	usedIdx  []int
	outs     []nodeh.Out
	stage    string // "" | creator | materialize | run
	err      error
	panicked bool
	msg      string
	stack    string
	timedOut bool
	// re-running the same node (see execute)
	rerun     string // history of runs
	rerunDiff string // a full run that differs from the first full run
}

func tryCall(fn func()) (panicked bool, msg, stack string) {
	defer func() {
		if r := recover(); r != nil {
			panicked = true
			msg = fmt.Sprint(r)
			stack = string(debug.Stack())
		}
	}()
	fn()
	return
}

// execute runs Creator → Materialize(subset of fields) → Run. pick chooses the fields to
// materialise (nil: all); the optimizer only ever removes fields, keeping their order.
func execute(kind, path string, options map[string]string, pick func(n int) []int, rerun *rand.Rand) execOut {
	var ex execOut
	ctx := nodeh.Ctx()
	var impl physical.DatasourceImplementation
	p, msg, stack := tryCall(func() {
		impl, ex.schema, ex.err = creatorOf(kind)(ctx, path, options)
	})
	if p {
		ex.stage, ex.panicked, ex.msg, ex.stack = "creator", true, msg, stack
		return ex
	}
	if ex.err != nil {
		ex.stage = "creator"
		return ex
	}
	n := len(ex.schema.Fields)
	if pick != nil {
		ex.usedIdx = pick(n)
	} else {
		for i := 0; i < n; i++ {
			ex.usedIdx = append(ex.usedIdx, i)
		}
	}
	for _, i := range ex.usedIdx {
		ex.used = append(ex.used, ex.schema.Fields[i])
	}
	sub := physical.NewSchema(ex.used, -1, physical.WithNoRetractions(true))
	node, err := impl.Materialize(ctx, nodeh.Env(nil), sub, nil)
	if err != nil {
		ex.stage, ex.err = "materialize", err
		return ex
	}
	runFull := func(n execution.Node) ([]nodeh.Out, nodeh.RunResult) {
		col := &nodeh.Collector{}
		// hostile consumer: appends to / overwrites every record it was handed (after the collector copied it)
		res := nodeh.RunNodeCtx(ctx, fileh.Hostile(n), col, nil, 120*time.Second)
		return col.Snapshot(), res
	}
	setRes := func(res nodeh.RunResult) {
		switch {
		case res.TimedOut:
			ex.stage, ex.timedOut = "run", true
		case res.Panicked:
			ex.stage, ex.panicked, ex.msg, ex.stack = "run", true, res.PanicMsg, res.Stack
		case res.Err != nil:
			ex.stage, ex.err = "run", res.Err
		}
	}
	var res nodeh.RunResult
	ex.outs, res = runFull(node)
	setRes(res)
	if ex.stage != "" || rerun == nil {
		return ex
	}
	// Re-running: the same execution node is run again (lookup joins and subquery expressions do
	// that once per input record), also after runs that were cut short because the consumer
	// returned an error from produce (which is how LIMIT stops its source). Two nodes from the same
	// implementation are interleaved. Every full run must return what the first full run returned
	// (which the caller compares with the ground truth); the LAST full run is what is handed back.
	first := keysOf(ex.outs)
	nRec := len(first)
	ks := []int{0, 1, 64, nRec - 1, nRec / 2}
	k1, k2 := ks[rerun.Intn(len(ks))], ks[rerun.Intn(len(ks))]
	node2, err := impl.Materialize(ctx, nodeh.Env(nil), sub, nil)
	if err != nil {
		ex.stage, ex.err = "materialize", err
		return ex
	}
	type step struct {
		node execution.Node
		name string
		stop int // -1: full run
	}
	steps := []step{{node2, "B", k2}, {node, "A", k1}, {node2, "B", -1}, {node, "A", -1}, {node2, "B", k1}, {node2, "B", -1}, {node, "A", -1}}
	history := "A:full"
	for _, st := range steps {
		if st.stop >= 0 {
			k := st.stop
			if k < 0 || k > nRec {
				k = 0
			}
			history += fmt.Sprintf(" %s:stop-after-%d", st.name, k)
			col := &nodeh.Collector{}
			r := nodeh.RunNodeCtx(ctx, &stopNode{src: st.node, k: k}, col, nil, 120*time.Second)
			if r.TimedOut || r.Panicked {
				setRes(r)
				ex.rerun = history
				return ex
			}
			if got := keysOf(col.Snapshot()); len(got) != minInt(k, nRec) || !equalKeys(got, first[:len(got)]) {
				ex.rerunDiff = fmt.Sprintf("a run stopped after %d records delivered %d records that are not the first %d of a full run (history: %s)", k, len(got), minInt(k, nRec), history)
				ex.rerun = history
				return ex
			}
			continue
		}
		history += " " + st.name + ":full"
		outs, r := runFull(st.node)
		ex.rerun = history
		if r.TimedOut || r.Panicked || r.Err != nil {
			setRes(r)
			if r.Err != nil {
				ex.rerunDiff = "a later full run of the node failed although the first succeeded: " + r.Err.Error() + " (history: " + history + ")"
			}
			return ex
		}
		ex.outs = outs
		if got := keysOf(outs); !equalKeys(got, first) {
			ex.rerunDiff = fmt.Sprintf("full run #%s returned %d records, the first full run returned %d (or other values); history: %s", st.name, len(got), nRec, history)
			return ex
		}
	}
	return ex
}

// stopNode's consumer returns an error once it has been handed k records (the k+1-th call fails).
type stopNode struct {
	src execution.Node
	k   int
}

var errStopConsumer = fmt.Errorf("consumer stops here")

func (s *stopNode) Run(ctx execution.ExecutionContext, produce execution.ProduceFn, metaSend execution.MetaSendFn) error {
	seen := 0
	_ = s.src.Run(ctx, func(pctx execution.ProduceContext, record execution.Record) error {
		if seen >= s.k {
			return errStopConsumer
		}
		seen++
		return produce(pctx, record)
	}, metaSend)
	return nil
}

func minInt(a, b int) int {
	if a < b {
		return a
	}
	return b
}

// rerunRng: nil (no re-running) in child processes, which exist for worker schedules, and for very
// large files; otherwise a stream derived from the case's generator stream.
func rerunRng(rng *rand.Rand, rows int) *rand.Rand {
	seed := rng.Int63()
	if os.Getenv(childEnv) != "" || rows > 6000 {
		return nil
	}
	return rand.New(rand.NewSource(seed))
}

func keysOf(outs []nodeh.Out) []string {
	var ks []string
	for _, o := range outs {
		if !o.IsWatermark {
			ks = append(ks, nodeh.RowKey(o.Record.Values))
		}
	}
	return ks
}

func equalKeys(a, b []string) bool {
	if len(a) != len(b) {
		return false
	}
	for i := range a {
		if a[i] != b[i] {
			return false
		}
	}
	return true
}

func subsetPicker(rng *rand.Rand) func(n int) []int {
	mode := rng.Intn(10)
	return func(n int) []int {
		var idx []int
		switch {
		case mode < 6 || n == 0: // all
			for i := 0; i < n; i++ {
				idx = append(idx, i)
			}
		case mode == 6: // none (count(*) style)
		default:
			for i := 0; i < n; i++ {
				if rng.Intn(2) == 0 {
					idx = append(idx, i)
				}
			}
			if len(idx) == 0 {
				idx = append(idx, rng.Intn(n))
			}
		}
		return idx
	}
}

// failed reports creator/materialize/run failures of a VALID file as violations; ok=false then.
func failed(r *Result, kind string, ex execOut, replay map[string]interface{}) bool {
	if ex.rerun != "" {
		replay["runs_of_the_node"] = ex.rerun
		r.count("inproc/"+kind+"/cases_with_reruns", 1)
	}
	switch {
	case ex.rerunDiff != "" && !ex.panicked && !ex.timedOut:
		r.viol(kind+":rerun-differs", "running the same materialized node again does not return the same rows: "+ex.rerunDiff, replay)
		return true
	case ex.timedOut:
		r.Inconclusive = append(r.Inconclusive, "watchdog")
		return true
	case ex.panicked:
		r.viol("panic:"+core.PanicSite(ex.stack), kind+" "+ex.stage+" panicked: "+ex.msg, replay)
		return true
	case ex.err != nil:
		r.viol(kind+":"+ex.stage+"-error", kind+" source failed on a valid file: "+ex.err.Error(), replay)
		return true
	}
	return false
}

func records(outs []nodeh.Out) (recs [][]octosql.Value, bad string) {
	for _, o := range outs {
		if o.IsWatermark {
			continue
		}
		if o.Record.Retraction {
			bad = "a file source emitted a retraction"
		}
		recs = append(recs, o.Record.Values)
	}
	return
}

func schemaString(fs []physical.SchemaField) string {
	parts := make([]string, len(fs))
	for i, f := range fs {
		parts[i] = f.Name + ": " + f.Type.String()
	}
	return strings.Join(parts, ", ")
}

func inlineContent(b []byte) interface{} {
	if len(b) <= 48*1024 {
		return string(b)
	}
	return fmt.Sprintf("(%d bytes, sha %s; regenerate with --only)", len(b), hashBytes(b))
}

// selftestCorrupt deliberately damages a recording so that the oracle must fire.
func selftestCorrupt(recs [][]octosql.Value, id string) [][]octosql.Value {
	if os.Getenv("VERIF_SELFTEST") != "1" || len(recs) < 3 {
		return recs
	}
	h := 0
	for _, ch := range id {
		h = h*31 + int(ch)
	}
	out := append([][]octosql.Value{}, recs...)
	switch ((h % 3) + 3) % 3 {
	case 0: // drop a row
		k := len(out) / 2
		return append(out[:k], out[k+1:]...)
	case 1: // swap two rows
		k := len(out) / 2
		out[k], out[k-1] = out[k-1], out[k]
		return out
	default: // duplicate a row
		k := len(out) / 2
		out = append(out[:k+1], out[k:]...)
		return out
	}
}

// ---------------------------------------------------------------------------------------------
// the cases

func runCase(c *core.Ctx, cs Case, dir string) *Result {
	r := &Result{ID: cs.ID, Evals: 1}
	rng := c.Rng("case/" + cs.ID)
	switch cs.Kind {
	case "json":
		runJSON(r, cs, rng, dir)
	case "csv", "tsv":
		runCSV(r, cs, rng, dir)
	case "lines":
		runLines(r, cs, rng, dir)
	case "parquet":
		runParquet(r, cs, rng, dir)
	}
	return r
}

func writeFile(dir, name string, content []byte) (string, error) {
	p := filepath.Join(dir, name)
	return p, os.WriteFile(p, content, 0o644)
}

func runJSON(r *Result, cs Case, rng *rand.Rand, dir string) {
	var f *fileh.JSONFile
	if cs.Var == "overlimit" {
		// one line longer than files.json.max_line_size_bytes (1 MiB): the documented limit; an
		// error is the expected outcome, silently losing rows is not.
		f = fileh.GenJSONFile(rng, cs.N, fileh.JSONFileOpts{Gen: fileh.GenOpts{NoNested: true}})
		big := &fileh.Obj{}
		big.Set("zz_big", strings.Repeat("x", 1100*1024))
		k := len(f.Rows) / 2
		f.Rows = append(f.Rows[:k], append([]*fileh.Obj{big}, f.Rows[k:]...)...)
		f.Content = fileh.SerialiseJSONRows(rng, f.Rows, 0, false, false)
	} else {
		f = fileh.GenJSONFile(rng, cs.N, fileh.JSONFileOpts{})
	}
	path, err := writeFile(dir, cs.ID+".json", f.Content)
	if err != nil {
		r.Inconclusive = append(r.Inconclusive, "scratch-write")
		return
	}
	defer os.Remove(path)
	ex := execute("json", path, map[string]string{}, subsetPicker(rng), rerunRng(rng, len(f.Rows)))
	replay := map[string]interface{}{"id": cs.ID, "kind": "json", "rows": len(f.Rows), "file": inlineContent(f.Content),
		"schema": schemaString(ex.schema.Fields), "used": schemaString(ex.used), "rerun": "./check C23 <tier> --only " + cs.ID}
	r.count("inproc/json/files", 1)
	if cs.Var == "overlimit" {
		r.count("inproc/json/overlimit_line_cases", 1)
		if ex.err != nil {
			r.count("inproc/json/overlimit_line_reported_as_error", 1)
			return
		}
		if ex.panicked || ex.timedOut {
			failed(r, "json", ex, replay)
			return
		}
		recs, _ := records(ex.outs)
		r.viol("json-overlimit-line-silent", fmt.Sprintf("a line longer than the configured 1 MiB limit produced no error; %d of %d rows returned", len(recs), len(f.Rows)), replay)
		return
	}
	if failed(r, "json", ex, replay) {
		return
	}
	recs, bad := records(ex.outs)
	if bad != "" {
		r.viol("json:retraction", bad, replay)
		return
	}
	recs = selftestCorrupt(recs, cs.ID)
	// every key of every row must be a column
	cols := map[string]bool{}
	for _, fld := range ex.schema.Fields {
		cols[fld.Name] = true
	}
	for i, row := range f.Rows {
		for _, k := range row.Keys {
			if !cols[k] {
				r.viol("json:key-not-in-schema", fmt.Sprintf("row %d has key %q which is not a column (schema: %s)", i, k, schemaString(ex.schema.Fields)), replay)
				return
			}
		}
	}
	if len(recs) != len(f.Rows) {
		r.viol("json:row-count", fmt.Sprintf("file has %d rows, the source returned %d", len(f.Rows), len(recs)), replay)
		return
	}
	ds := &fileh.DiffSet{}
	cells := 0
	firstBad := -1
	for i, row := range f.Rows {
		if len(recs[i]) != len(ex.used) {
			r.viol("json:record-width", fmt.Sprintf("row %d has %d values for %d requested columns", i, len(recs[i]), len(ex.used)), replay)
			return
		}
		before := ds.Hard()
		for j, fld := range ex.used {
			mv, ok := row.Get(fld.Name)
			fileh.CompareJSON(fileh.Row(i).Field(fld.Name), fld.Type, recs[i][j], mv, ok, ds)
			cells++
		}
		if ds.Hard() > before && firstBad < 0 {
			firstBad = i
		}
		if ds.Hard() > 50 {
			break
		}
	}
	r.count("inproc/json/rows_compared", len(recs))
	r.count("inproc/json/cells_compared", cells)
	if len(f.Rows) > 64 {
		r.count("inproc/json/multi_batch_files", 1)
	}
	if len(f.Rows) >= 2 && cells > 0 && ds.Hard() <= 50 {
		r.Nontrivial = append(r.Nontrivial, "json|"+hashBytes(f.Content)+"|"+fmt.Sprint(ex.usedIdx))
	}
	if !ds.Empty() {
		order := ""
		// is it an ordering problem? the produced row at the first bad index equals another model row nearby
		if firstBad >= 0 && len(ex.used) > 0 {
			for d := -130; d <= 130 && order == ""; d++ {
				j := firstBad + d
				if d == 0 || j < 0 || j >= len(f.Rows) {
					continue
				}
				t := &fileh.DiffSet{}
				for k, fld := range ex.used {
					mv, ok := f.Rows[j].Get(fld.Name)
					fileh.CompareJSON(fileh.Row(firstBad), fld.Type, recs[firstBad][k], mv, ok, t)
				}
				if t.Hard() == 0 && !sameModelRow(f.Rows[j], f.Rows[firstBad], ex.used) {
					order = fmt.Sprintf("output row %d carries the values of file row %d", firstBad, j)
				}
			}
		}
		reportDiffs(r, "inproc", "json", ds, f.Content, order, replay)
		return
	}
	r.Sample = map[string]interface{}{"id": cs.ID, "kind": "json", "rows": len(f.Rows), "schema": trunc(schemaString(ex.used), 300), "first_row": trunc(firstLine(f.Content), 300), "cells_compared": cells}
}

// reportDiffs turns every class of discrepancy found in one file into one violation with the
// key of that class. Keys of anticipated defects are chosen by the class, which fileh assigns from
// the input (literal with exponent; array/object with a null inside under a union type) and the
// symptom (distance in ULP; NULL produced).
func reportDiffs(r *Result, leg, kind string, ds *fileh.DiffSet, content []byte, order string, replay map[string]interface{}) {
	fam := kind
	if kind == "tsv" {
		fam = "csv"
	}
	for _, class := range ds.Classes() {
		key := kind + ":" + class
		what := kind + " source output differs from the file: " + ds.Describe(class)
		rp := map[string]interface{}{}
		for k, v := range replay {
			rp[k] = v
		}
		switch class {
		case "float-ulp":
			key = fam + "-float-inexact"
			r.count(leg+"/"+kind+"/numbers_few_ulp_off", ds.Count(class))
			what = "numbers with an exponent part are read a few ULP away from the correctly rounded value: " + ds.Describe(class)
			rp["row_text"] = lineOf(content, ds.PerClass[class].Samples[0].Path)
		case "nested-null-in-union":
			key = "json-nested-null-in-union"
			r.count(leg+"/"+kind+"/nested_values_with_null_dropped", ds.Count(class))
			rp["row_text"] = lineOf(content, ds.PerClass[class].Samples[0].Path)
		default:
			if order != "" {
				key = kind + ":order"
				rp["order"] = order
			}
		}
		r.viol(key, what, rp)
	}
}

func sameModelRow(a, b *fileh.Obj, used []physical.SchemaField) bool {
	for _, fld := range used {
		x, okx := a.Get(fld.Name)
		y, oky := b.Get(fld.Name)
		if okx != oky || fileh.Show(x) != fileh.Show(y) {
			return false
		}
	}
	return true
}

func firstLine(b []byte) string {
	if i := bytes.IndexByte(b, '\n'); i >= 0 {
		return string(b[:i])
	}
	return string(b)
}

// lineOf extracts the file line a diff path ("row N ...") refers to.
func lineOf(content []byte, path string) string {
	var n int
	if _, err := fmt.Sscanf(path, "row %d", &n); err != nil {
		return ""
	}
	lines := bytes.Split(content, []byte("\n"))
	if n < len(lines) {
		return trunc(string(lines[n]), 2000)
	}
	return ""
}

func trunc(s string, n int) string {
	if len(s) > n {
		return s[:n] + "..."
	}
	return s
}

func runCSV(r *Result, cs Case, rng *rand.Rand, dir string) {
	sep := byte(',')
	if cs.Kind == "tsv" {
		sep = '\t'
	}
	header := cs.Var != "noheader" && cs.Var != "firstfield-noheader"
	f := fileh.GenCSVFile(rng, cs.N, fileh.CSVOpts{Sep: sep, Header: header})
	if strings.HasPrefix(cs.Var, "firstfield") {
		f = genFirstFieldCSV(rng, sep, header, cs.N)
		r.count("inproc/"+cs.Kind+"/first_field_files", 1)
	}
	path, err := writeFile(dir, cs.ID+"."+cs.Kind, f.Content)
	if err != nil {
		r.Inconclusive = append(r.Inconclusive, "scratch-write")
		return
	}
	defer os.Remove(path)
	opts := map[string]string{}
	if !header {
		opts["header"] = "false"
	}
	ex := execute(cs.Kind, path, opts, subsetPicker(rng), rerunRng(rng, len(f.Rows)))
	replay := map[string]interface{}{"id": cs.ID, "kind": cs.Kind, "rows": len(f.Rows), "header": header, "file": inlineContent(f.Content),
		"schema": schemaString(ex.schema.Fields), "used": schemaString(ex.used), "rerun": "./check C23 <tier> --only " + cs.ID}
	r.count("inproc/"+cs.Kind+"/files", 1)
	if failed(r, cs.Kind, ex, replay) {
		return
	}
	recs, bad := records(ex.outs)
	if bad != "" {
		r.viol(cs.Kind+":retraction", bad, replay)
		return
	}
	recs = selftestCorrupt(recs, cs.ID)
	// column names
	if len(f.Rows) > 0 || header {
		want := f.Header
		if !header {
			want = nil
			for i := range f.Rows[0] {
				want = append(want, "column_"+strconv.Itoa(i))
			}
		}
		if len(want) != len(ex.schema.Fields) {
			r.viol(cs.Kind+":columns", fmt.Sprintf("file has %d columns, schema has %d (%s)", len(want), len(ex.schema.Fields), schemaString(ex.schema.Fields)), replay)
			return
		}
		for i := range want {
			if ex.schema.Fields[i].Name != want[i] {
				r.viol(cs.Kind+":columns", fmt.Sprintf("column %d is named %q, header says %q", i, ex.schema.Fields[i].Name, want[i]), replay)
				return
			}
		}
	}
	if len(recs) != len(f.Rows) {
		r.viol(cs.Kind+":row-count", fmt.Sprintf("file has %d rows, the source returned %d", len(f.Rows), len(recs)), replay)
		return
	}
	ds := &fileh.DiffSet{}
	cells, unrep := 0, 0
	for i, row := range f.Rows {
		if len(recs[i]) != len(ex.used) {
			r.viol(cs.Kind+":record-width", fmt.Sprintf("row %d has %d values for %d requested columns", i, len(recs[i]), len(ex.used)), replay)
			return
		}
		for j, fld := range ex.used {
			if fileh.CompareCSV(fileh.Row(i).Col(fld.Name), fld.Type, recs[i][j], row[ex.usedIdx[j]], ds) {
				unrep++
			}
			cells++
		}
		if ds.Hard() > 50 {
			break
		}
	}
	r.count("inproc/"+cs.Kind+"/rows_compared", len(recs))
	r.count("inproc/"+cs.Kind+"/cells_compared", cells)
	if unrep > 0 {
		// must not happen with this generator (every later cell re-draws the class of a preview cell)
		r.viol(cs.Kind+":generator-unrepresentable", fmt.Sprintf("%d cells are not representable in the inferred schema %s", unrep, schemaString(ex.schema.Fields)), replay)
		return
	}
	if len(f.Rows) >= 2 && cells > 0 && ds.Hard() <= 50 {
		r.Nontrivial = append(r.Nontrivial, cs.Kind+"|"+hashBytes(f.Content)+"|"+fmt.Sprint(ex.usedIdx))
	}
	if !ds.Empty() {
		reportDiffs(r, "inproc", cs.Kind, ds, f.Content, "", replay)
		return
	}
	r.Sample = map[string]interface{}{"id": cs.ID, "kind": cs.Kind, "rows": len(f.Rows), "header": header, "schema": trunc(schemaString(ex.used), 300), "head": trunc(string(f.Content), 200), "cells_compared": cells}
}

// ---------------------------------------------------------------------------------------------
// lines

var lineSeps = map[string]string{"nl": "\n", "semi": ";", "semi2": ";;", "ab": "ab", "e-acute": "é", "kanji2": "日本", "crlf": "\r\n", "pipe3": "|||"}

const scannerMax = 64 * 1024

type linesFile struct {
	Sep     string
	Rows    []string
	Content []byte
	LongAt  int // index of the first row that does not fit bufio.Scanner's 64 KiB token limit, or -1
}

func genLines(rng *rand.Rand, n int, sep string, longLen int, plain bool) *linesFile {
	f := &linesFile{Sep: sep, LongAt: -1}
	for i := 0; i < n; i++ {
		var row string
		for try := 0; try < 200; try++ {
			row = fileh.RandStr(rng, fileh.StrOpts{Plain: plain, MaxLen: 20})
			if sep == "\n" && !plain && rng.Intn(8) == 0 {
				row += "\r"
			}
			if rng.Intn(8) == 0 {
				row = ""
			}
			// the row followed by the separator must split exactly after the row
			if strings.Index(row+sep, sep) == len(row) {
				break
			}
			row = "r"
		}
		f.Rows = append(f.Rows, row)
	}
	if longLen > 0 && n > 0 {
		k := n / 2
		f.Rows[k] = strings.Repeat("L", longLen)
	}
	var b bytes.Buffer
	for i, row := range f.Rows {
		b.WriteString(row)
		last := i == len(f.Rows)-1
		if last && row != "" && rng.Intn(3) == 0 && !(sep == "\n" && strings.HasSuffix(row, "\r")) {
			break // final unterminated line
		}
		b.WriteString(sep)
	}
	f.Content = b.Bytes()
	for i, row := range f.Rows {
		if len(row)+len(sep) > scannerMax {
			f.LongAt = i
			break
		}
	}
	return f
}

// expectedLine: with the default separator the source follows the text-file convention of
// dropping one trailing \r (DESIGN §3.4); custom separators split exactly.
func expectedLine(sep, row string) (string, bool) {
	if sep == "\n" && strings.HasSuffix(row, "\r") {
		return row[:len(row)-1], true
	}
	return row, false
}

func runLines(r *Result, cs Case, rng *rand.Rand, dir string) {
	sepName, longLen := cs.Var, 0
	if i := strings.Index(cs.Var, ":long"); i >= 0 {
		sepName = cs.Var[:i]
		longLen, _ = strconv.Atoi(cs.Var[i+5:])
	}
	sep := lineSeps[sepName]
	f := genLines(rng, cs.N, sep, longLen, false)
	path, err := writeFile(dir, cs.ID+".lines", f.Content)
	if err != nil {
		r.Inconclusive = append(r.Inconclusive, "scratch-write")
		return
	}
	defer os.Remove(path)
	opts := map[string]string{}
	if sep != "\n" || rng.Intn(2) == 0 {
		opts["sep"] = sep
	}
	pick := subsetPicker(rng)
	if len(sep) > 1 || longLen > 0 {
		// the two anticipated defects are attributed by what the TEXT column shows, so it is always
		// requested where they can occur (with or without the number column)
		withNumber := rng.Intn(2) == 0
		pick = func(n int) []int {
			if withNumber || n < 2 {
				return []int{0, 1}[:n]
			}
			return []int{1}
		}
	}
	ex := execute("lines", path, opts, pick, rerunRng(rng, len(f.Rows)))
	replay := map[string]interface{}{"id": cs.ID, "kind": "lines", "sep": sep, "rows": len(f.Rows), "file": inlineContent(f.Content),
		"used": schemaString(ex.used), "rerun": "./check C23 <tier> --only " + cs.ID}
	r.count("inproc/lines/files", 1)
	r.count("inproc/lines/sep="+sepName, 1)
	if f.LongAt >= 0 {
		r.count("inproc/lines/long_line_cases", 1)
		if ex.err != nil && !ex.panicked {
			r.count("inproc/lines/long_line_reported_as_error", 1)
			return
		}
	}
	if failed(r, "lines", ex, replay) {
		return
	}
	recs, _ := records(ex.outs)
	recs = selftestCorrupt(recs, cs.ID)
	judgeLines(r, "inproc", cs.ID, f, ex.used, recs, replay)
}

// judgeLines compares (number, text) records with the ground truth and attributes the two
// anticipated defects by input predicate + symptom.
func judgeLines(r *Result, leg, id string, f *linesFile, used []physical.SchemaField, recs [][]octosql.Value, replay map[string]interface{}) {
	numIdx, textIdx := -1, -1
	for j, fld := range used {
		if fld.Name == "number" {
			numIdx = j
		}
		if fld.Name == "text" {
			textIdx = j
		}
	}
	conv := 0
	firstDiff, what := -1, ""
	n := len(recs)
	if len(f.Rows) < n {
		n = len(f.Rows)
	}
	for i := 0; i < n && firstDiff < 0; i++ {
		want, c := expectedLine(f.Sep, f.Rows[i])
		if c {
			conv++
		}
		if len(recs[i]) != len(used) {
			firstDiff, what = i, fmt.Sprintf("record %d has %d values for %d columns", i, len(recs[i]), len(used))
			break
		}
		if numIdx >= 0 {
			if v := recs[i][numIdx]; v.TypeID != octosql.TypeIDInt || v.Int != int64(i) {
				firstDiff, what = i, fmt.Sprintf("record %d has number %s", i, fileh.ShowVal(v))
			}
		}
		if textIdx >= 0 && firstDiff < 0 {
			if v := recs[i][textIdx]; v.TypeID != octosql.TypeIDString || v.Str != want {
				firstDiff, what = i, fmt.Sprintf("line %d is %s, the source returned %s", i, trunc(strconv.Quote(want), 120), fileh.ShowVal(v))
			}
		}
	}
	r.count(leg+"/lines/rows_compared", n)
	if conv > 0 {
		r.count(leg+"/lines/trailing_cr_dropped_convention", conv)
	}
	if firstDiff < 0 && len(recs) == len(f.Rows) {
		if len(f.Rows) >= 2 && len(used) > 0 {
			r.Nontrivial = append(r.Nontrivial, "lines|"+hashBytes(f.Content)+"|"+f.Sep+"|"+schemaString(used))
		}
		r.Sample = map[string]interface{}{"id": id, "kind": "lines", "sep": f.Sep, "rows": len(f.Rows), "head": trunc(string(f.Content), 120)}
		return
	}
	// classification
	if firstDiff < 0 {
		what = fmt.Sprintf("file has %d lines, the source returned %d", len(f.Rows), len(recs))
	}
	if textIdx >= 0 {
		var pl, el []int
		for i := 0; i < len(recs) && i < 40; i++ {
			if len(recs[i]) == len(used) {
				pl = append(pl, len(recs[i][textIdx].Str))
			}
		}
		for i := 0; i < len(f.Rows) && i < 40; i++ {
			el = append(el, len(f.Rows[i]))
		}
		replay["produced_text_lengths"] = fmt.Sprint(pl)
		replay["expected_text_lengths"] = fmt.Sprint(el)
	}
	key := "lines:value"
	if firstDiff < 0 {
		key = "lines:row-count"
	}
	// index of the first record that is wrong or surplus
	bad := firstDiff
	if bad < 0 {
		bad = n
	}
	switch {
	case f.LongAt >= 0 && firstDiff < 0 && len(recs) == f.LongAt:
		// predicate: a line that does not fit the scanner's 64 KiB token; symptom: exactly the
		// lines before it are returned and no error is reported
		key = "lines-long-line-truncated"
	case len(f.Sep) > 1 && bad >= 1 && textIdx >= 0:
		// predicate: separator longer than one byte; symptom: the produced texts are exactly the
		// tokens one gets when, after each separator match, scanning resumes ONE byte after the
		// start of that separator (the split function advances by i+1 instead of i+len(separator))
		pos, ok := 0, true
		longBug := f.LongAt >= 0 // a line that overflows the 64 KiB token once it carries the separator's tail
		for _, row := range f.Rows {
			if len(row)+2*len(f.Sep)-1 > scannerMax {
				longBug = true
			}
		}
		for i := range recs {
			if len(recs[i]) != len(used) {
				ok = false
				break
			}
			tok := recs[i][textIdx].Str
			if pos+len(tok) > len(f.Content) || string(f.Content[pos:pos+len(tok)]) != tok || strings.Contains(tok, f.Sep) {
				ok = false
				break
			}
			rest := f.Content[pos+len(tok):]
			switch {
			case bytes.HasPrefix(rest, []byte(f.Sep)):
				pos += len(tok) + 1
			case len(rest) == 0 && i == len(recs)-1:
				pos += len(tok)
			case longBug && i == len(recs)-1:
			default:
				ok = false
			}
			if !ok {
				break
			}
		}
		if ok && pos == len(f.Content) {
			key = "lines-sep-advance-1"
		} else if ok && longBug {
			// both anticipated defects at once: the mis-split sequence stops silently at the over-long line
			key = "lines-sep-advance-1"
			r.viol("lines-long-line-truncated", what+" (and the table ends silently before the over-long line)", replay)
		}
	case len(f.Sep) > 1 && f.LongAt < 0 && textIdx < 0 && firstDiff < 0 && len(recs) > len(f.Rows):
		key = "lines-sep-advance-1" // text column not requested: only the surplus count can show it
	}
	r.viol(key, what, replay)
}

// ---------------------------------------------------------------------------------------------
// parquet

func runParquet(r *Result, cs Case, rng *rand.Rand, dir string) {
	f, err := genParquet(rng, cs.N, false)
	if err != nil {
		r.Inconclusive = append(r.Inconclusive, "parquet-fixture-writer")
		r.count("inproc/parquet/fixture_writer_errors", 1)
		return
	}
	path, err := writeFile(dir, cs.ID+".parquet", f.Content)
	if err != nil {
		r.Inconclusive = append(r.Inconclusive, "scratch-write")
		return
	}
	defer os.Remove(path)
	ex := execute("parquet", path, map[string]string{}, subsetPicker(rng), rerunRng(rng, len(f.Rows)))
	desc := make([]string, len(f.Cols))
	for i, c := range f.Cols {
		desc[i] = c.Name + ":" + c.Rep
		if c.Leaves != nil {
			desc[i] += fmt.Sprint(c.Leaves)
		} else {
			desc[i] += "(" + c.Leaf.Kind + ")"
		}
	}
	replay := map[string]interface{}{"id": cs.ID, "kind": "parquet", "rows": len(f.Rows), "columns": desc,
		"schema": schemaString(ex.schema.Fields), "used": schemaString(ex.used), "rerun": "./check C23 <tier> --only " + cs.ID}
	if len(f.Rows) > 0 {
		replay["first_row"] = showPq(f.Rows[0])
	}
	r.count("inproc/parquet/files", 1)
	projected := len(ex.usedIdx) != len(ex.schema.Fields)
	if failed2 := failedParquet(r, ex, projected, replay); failed2 {
		return
	}
	recs, _ := records(ex.outs)
	recs = selftestCorrupt(recs, cs.ID)
	judgeParquet(r, "inproc", cs.ID, f, ex.schema.Fields, ex.used, ex.usedIdx, recs, replay)
}

func failedParquet(r *Result, ex execOut, projected bool, replay map[string]interface{}) bool {
	if ex.stage == "" {
		return failed(r, "parquet", ex, replay) // counts the re-runs and reports a full run that differs
	}
	if n, _ := replay["rows"].(int); n == 0 && ex.stage == "creator" && ex.panicked && strings.Contains(ex.msg, "index out of range") {
		// predicate: a parquet file without any row group (zero rows); symptom: the pinned
		// parquet-go OpenFile panics with an index error (the CLI turns it into a typecheck error)
		r.viol("parquet-zero-row-file", "a parquet file with zero rows cannot be opened: "+ex.msg, replay)
		return true
	}
	if projected && len(ex.usedIdx) > 0 && (ex.err != nil || ex.panicked) && ex.stage == "run" {
		// predicate: a strict, non-empty subset of the columns is requested
		msg := ex.msg
		if ex.err != nil {
			msg = ex.err.Error()
		}
		r.viol("parquet-projection-fails", "parquet source fails when only some columns are requested: "+trunc(msg, 300), replay)
		return true
	}
	return failed(r, "parquet", ex, replay)
}

func judgeParquet(r *Result, leg, id string, f *pqFile, all, used []physical.SchemaField, usedIdx []int, recs [][]octosql.Value, replay map[string]interface{}) {
	if len(all) != len(f.Cols) {
		r.viol("parquet:columns", fmt.Sprintf("file has %d columns, schema has %d", len(f.Cols), len(all)), replay)
		return
	}
	for i := range all {
		if all[i].Name != f.Cols[i].Name {
			r.viol("parquet:columns", fmt.Sprintf("column %d is %q, file says %q", i, all[i].Name, f.Cols[i].Name), replay)
			return
		}
	}
	projected := len(usedIdx) != len(all)
	if len(recs) != len(f.Rows) {
		key := "parquet:row-count"
		if projected && len(usedIdx) > 0 {
			key = "parquet-projection-wrong"
		}
		r.viol(key, fmt.Sprintf("file has %d rows, the source returned %d", len(f.Rows), len(recs)), replay)
		return
	}
	ds := &fileh.DiffSet{}
	cells := 0
	for i := range f.Rows {
		if len(recs[i]) != len(used) {
			key := "parquet:record-width"
			if projected {
				key = "parquet-projection-wrong"
			}
			r.viol(key, fmt.Sprintf("row %d has %d values for %d requested columns", i, len(recs[i]), len(used)), replay)
			return
		}
		for j, fld := range used {
			comparePq(fileh.Row(i).Field(fld.Name), fld.Type, recs[i][j], f.Rows[i][usedIdx[j]], ds)
			cells++
		}
		if ds.Hard() > 50 {
			break
		}
	}
	r.count(leg+"/parquet/rows_compared", len(recs))
	r.count(leg+"/parquet/cells_compared", cells)
	if !ds.Empty() {
		for _, class := range ds.Classes() {
			key := "parquet:" + class
			if projected {
				key = "parquet-projection-wrong"
			}
			r.viol(key, "parquet source output differs from the file: "+ds.Describe(class), replay)
		}
		return
	}
	if len(f.Rows) >= 2 && cells > 0 {
		r.Nontrivial = append(r.Nontrivial, "parquet|"+hashBytes(f.Content)+"|"+fmt.Sprint(usedIdx))
	}
	r.Sample = map[string]interface{}{"id": id, "kind": "parquet", "rows": len(f.Rows), "schema": trunc(schemaString(used), 300), "cells_compared": cells}
}

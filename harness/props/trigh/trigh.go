// Package trigh holds what the C16 and C17 drivers share: the planning pipeline with a cached
// function map, the complete enumeration of TRIGGER configurations, the time-location pool, the
// reference models of the four triggers, and a step-attributing runner over a memdb table.
// Everything that decides behaviour of the code under test is octosql's own code; everything
// that decides a verdict is written here from the property statements, not from octosql.
package trigh

import (
	"context"
	"fmt"
	"runtime/debug"
	"sort"
	"strings"
	"sync"
	"time"

	"github.com/cube2222/octosql/execution"
	"github.com/cube2222/octosql/logical"
	"github.com/cube2222/octosql/octosql"
	"github.com/cube2222/octosql/optimizer"
	"github.com/cube2222/octosql/parser"
	"github.com/cube2222/octosql/parser/sqlparser"
	"github.com/cube2222/octosql/physical"

	"github.com/cube2222/octosql/plugins/verifharness/nodeh"
)

// ---------------------------------------------------------------------------------------------
// Planning (same steps as nodeh.Plan / cmd/root.go; the function map is built once because every
// functions.FunctionMap() call starts three cache goroutines that never end).

var (
	once    sync.Once
	baseEnv physical.Environment
	tvfs    map[string]logical.TableValuedFunctionDescription
)

func env(db *nodeh.DB) physical.Environment {
	once.Do(func() {
		baseEnv = nodeh.Env(nil)
		tvfs = nodeh.TVFs()
	})
	databases := map[string]func() (physical.Database, error){}
	if db != nil {
		databases["m"] = func() (physical.Database, error) { return db, nil }
	}
	return physical.Environment{
		Aggregates: baseEnv.Aggregates,
		Functions:  baseEnv.Functions,
		Datasources: &physical.DatasourceRepository{
			Databases:    databases,
			FileHandlers: baseEnv.Datasources.FileHandlers,
		},
	}
}

// Plan: sqlparser.Parse -> parser.ParseNode -> Typecheck (under recover, as root.go) ->
// optimizer.Optimize -> Materialize.
func Plan(ctx context.Context, sql string, db *nodeh.DB, optimize bool) (p *nodeh.Planned, perr *nodeh.PlanError) {
	defer func() {
		if r := recover(); r != nil {
			p = nil
			perr = &nodeh.PlanError{Stage: "panic", Err: fmt.Errorf("%v", r), Stack: string(debug.Stack())}
		}
	}()
	e := env(db)
	statement, err := sqlparser.Parse(sql)
	if err != nil {
		return nil, &nodeh.PlanError{Stage: "parse", Err: err}
	}
	selectStmt, ok := statement.(sqlparser.SelectStatement)
	if !ok {
		return nil, &nodeh.PlanError{Stage: "parse", Err: fmt.Errorf("only SELECT statements are supported")}
	}
	logicalPlan, _, err := parser.ParseNode(selectStmt)
	if err != nil {
		return nil, &nodeh.PlanError{Stage: "logical", Err: err}
	}
	physicalPlan, mapping, err := typecheckNode(ctx, logicalPlan, e, logical.Environment{
		CommonTableExpressions: map[string]logical.CommonTableExpression{},
		TableValuedFunctions:   tvfs,
		UniqueNameGenerator:    map[string]int{},
	})
	if err != nil {
		return nil, &nodeh.PlanError{Stage: "typecheck", Err: err}
	}
	reverseMapping := logical.ReverseMapping(mapping)
	if optimize {
		physicalPlan = optimizer.Optimize(physicalPlan)
	}
	execPlan, err := physicalPlan.Materialize(ctx, e)
	if err != nil {
		return nil, &nodeh.PlanError{Stage: "materialize", Err: err}
	}
	out := &nodeh.Planned{Physical: physicalPlan, Schema: physicalPlan.Schema, Exec: execPlan}
	out.OutFields = make([]physical.SchemaField, len(physicalPlan.Schema.Fields))
	copy(out.OutFields, physicalPlan.Schema.Fields)
	for i := range out.OutFields {
		out.OutFields[i].Name = reverseMapping[out.OutFields[i].Name]
	}
	return out, nil
}

func typecheckNode(ctx context.Context, node logical.Node, env physical.Environment, logicalEnv logical.Environment) (_ physical.Node, _ map[string]string, outErr error) {
	defer func() {
		if r := recover(); r != nil {
			outErr = fmt.Errorf("typecheck error: %s", r)
		}
	}()
	physicalNode, mapping := node.Typecheck(ctx, env, logicalEnv)
	return physicalNode, mapping, nil
}

// Handle is a planned query over memdb table "m.t" whose source is re-bound on every run: the
// same materialized plan (Planned.Exec) can be executed several times, with the same or with
// different scripts, the way octosql itself re-runs a node (the joined side of a LOOKUP JOIN, a
// subquery evaluated per outer record).
//
// Step attribution: every time the scripted source of m.t is started (once per execution of the
// plan, or once per outer record when the query re-runs the sub-plan itself) it gets the next
// start number r; an output emitted while event i of that start is processed carries
// Step = r*Stride + i, outputs emitted after its last event carry r*Stride + len(evs);
// Stride = len(evs)+1.
type Handle struct {
	P      *nodeh.Planned
	Stride int
	evs    []nodeh.Event
	col    *nodeh.Collector
	starts int
}

type reSource struct{ h *Handle }

func (r *reSource) Run(ctx execution.ExecutionContext, produce execution.ProduceFn, metaSend execution.MetaSendFn) error {
	h := r.h
	base := h.starts * h.Stride
	h.starts++
	col := h.col
	col.SetStep(base)
	src := &nodeh.ScriptSource{Events: h.evs, AfterEach: func(i int) { col.SetStep(base + i + 1) }}
	return src.Run(ctx, produce, metaSend)
}

// PlanSteps plans sql over a memdb holding table "t" (fields, timeField; fed per run) and the
// given extra tables (static scripts).
func PlanSteps(ctx context.Context, sql string, fields []physical.SchemaField, timeField int, optimize bool, extra map[string]*nodeh.Table) (*Handle, *nodeh.PlanError) {
	h := &Handle{}
	tables := map[string]*nodeh.Table{"t": {
		Fields:    fields,
		TimeField: timeField,
		Source:    func() execution.Node { return &reSource{h: h} },
	}}
	for name, t := range extra {
		tables[name] = t
	}
	p, perr := Plan(ctx, sql, &nodeh.DB{Tables: tables}, optimize)
	if perr != nil {
		return nil, perr
	}
	h.P = p
	return h, nil
}

// Run executes the planned query once more over evs, on the calling goroutine under recover,
// into a fresh collector. Starts reports how often the source of m.t was started.
func (h *Handle) Run(ctx context.Context, evs []nodeh.Event) ([]nodeh.Out, nodeh.RunResult) {
	h.evs = evs
	h.col = &nodeh.Collector{}
	h.starts = 0
	h.Stride = len(evs) + 1
	var res nodeh.RunResult
	func() {
		defer func() {
			if r := recover(); r != nil {
				res.Panicked = true
				res.PanicMsg = fmt.Sprint(r)
				res.Stack = string(debug.Stack())
			}
		}()
		res.Err = h.P.Exec.Run(execution.ExecutionContext{Context: ctx, VariableContext: nil}, h.col.Produce, h.col.MetaSend)
	}()
	return h.col.Snapshot(), res
}

func (h *Handle) Starts() int { return h.starts }

// RunSteps plans sql over a one-table memdb ("m.t") fed by evs and runs it once. Every output
// carries Step = index of the input event during whose processing it was emitted; outputs
// emitted after the last event (end of stream) carry Step = len(evs).
func RunSteps(ctx context.Context, sql string, fields []physical.SchemaField, timeField int, evs []nodeh.Event, optimize bool) (*nodeh.Planned, []nodeh.Out, nodeh.RunResult, *nodeh.PlanError) {
	h, perr := PlanSteps(ctx, sql, fields, timeField, optimize, nil)
	if perr != nil {
		return nil, nil, nodeh.RunResult{}, perr
	}
	outs, res := h.Run(ctx, evs)
	return h.P, outs, res, nil
}

// ---------------------------------------------------------------------------------------------
// Trigger configurations

type Trig struct {
	Kind byte // 'C' counting, 'W' on watermark, 'E' on end of stream
	N    int  // for 'C'
}

func (t Trig) String() string {
	switch t.Kind {
	case 'C':
		return fmt.Sprintf("COUNTING %d", t.N)
	case 'W':
		return "ON WATERMARK"
	default:
		return "ON END OF STREAM"
	}
}

type Config []Trig

// SQL renders the TRIGGER clause body ("" for the empty configuration = no TRIGGER clause).
func (c Config) SQL() string {
	parts := make([]string, len(c))
	for i, t := range c {
		parts[i] = t.String()
	}
	return strings.Join(parts, ", ")
}

func (c Config) Clause() string {
	if len(c) == 0 {
		return ""
	}
	return " TRIGGER " + c.SQL()
}

func (c Config) Name() string {
	if len(c) == 0 {
		return "default"
	}
	parts := make([]string, len(c))
	for i, t := range c {
		if t.Kind == 'C' {
			parts[i] = fmt.Sprintf("C%d", t.N)
		} else {
			parts[i] = string(t.Kind)
		}
	}
	return strings.Join(parts, "+")
}

func (c Config) Has(kind byte) bool {
	for _, t := range c {
		if t.Kind == kind {
			return true
		}
	}
	return false
}

// AllConfigs: every non-empty subset of {COUNTING n, ON WATERMARK, ON END OF STREAM} in every
// order, for n = 1..maxN. 2 + maxN singles, 2 + 4*maxN ordered pairs, 6*maxN ordered triples.
func AllConfigs(maxN int) []Config {
	var out []Config
	kinds := []byte{'C', 'W', 'E'}
	var rec func(cur []byte, used int)
	rec = func(cur []byte, used int) {
		if len(cur) > 0 {
			hasC := false
			for _, k := range cur {
				if k == 'C' {
					hasC = true
				}
			}
			ns := []int{0}
			if hasC {
				ns = nil
				for n := 1; n <= maxN; n++ {
					ns = append(ns, n)
				}
			}
			for _, n := range ns {
				cfg := Config{}
				for _, k := range cur {
					t := Trig{Kind: k}
					if k == 'C' {
						t.N = n
					}
					cfg = append(cfg, t)
				}
				out = append(out, cfg)
			}
		}
		for i, k := range kinds {
			if used&(1<<i) != 0 {
				continue
			}
			rec(append(append([]byte{}, cur...), k), used|(1<<i))
		}
	}
	rec(nil, 0)
	return out
}

// Prototype builds the real trigger prototype for a configuration the way
// physical.Trigger.Materialize does (a single trigger is used bare, several are wrapped in a
// MultiTrigger in declaration order).
func (c Config) Prototype(timeFieldKeyIndex int) func() execution.Trigger {
	protos := make([]func() execution.Trigger, len(c))
	for i, t := range c {
		switch t.Kind {
		case 'C':
			protos[i] = execution.NewCountingTriggerPrototype(uint(t.N))
		case 'W':
			protos[i] = execution.NewWatermarkTriggerPrototype(timeFieldKeyIndex)
		default:
			protos[i] = execution.NewEndOfStreamTriggerPrototype()
		}
	}
	if len(protos) == 1 {
		return protos[0]
	}
	return execution.NewMultiTriggerPrototype(protos)
}

// ---------------------------------------------------------------------------------------------
// Reference models of the triggers (DESIGN §12). Keys are opaque strings; the time of a key is
// given when it is received.

type Model struct {
	subs []*subModel
}

type subModel struct {
	kind    byte
	n       int
	count   map[string]int
	pending []string
	times   map[string]time.Time // watermark trigger: key -> time; end-of-stream trigger: key set
	w       time.Time
	hasW    bool
	ended   bool
}

func NewModel(c Config) *Model {
	m := &Model{}
	for _, t := range c {
		m.subs = append(m.subs, &subModel{kind: t.Kind, n: t.N, count: map[string]int{}, times: map[string]time.Time{}})
	}
	return m
}

func (m *Model) KeyReceived(key string, t time.Time) {
	for _, s := range m.subs {
		switch s.kind {
		case 'C':
			s.count[key]++
			if s.count[key] == s.n {
				s.pending = append(s.pending, key)
				delete(s.count, key)
			}
		default:
			s.times[key] = t
		}
	}
}

func (m *Model) WatermarkReceived(w time.Time) {
	for _, s := range m.subs {
		s.w = w
		s.hasW = true
	}
}

func (m *Model) EndOfStreamReached() {
	for _, s := range m.subs {
		s.ended = true
	}
}

// Poll returns the keys due now, per sub-trigger in declaration order; within one sub-trigger
// the order is canonical (sorted), callers compare as multisets.
func (m *Model) Poll() []string {
	var out []string
	for _, s := range m.subs {
		switch s.kind {
		case 'C':
			out = append(out, s.pending...)
			s.pending = nil
			if s.ended {
				out = append(out, sortedKeys(s.count)...)
			}
		case 'W':
			var due []string
			for k, t := range s.times {
				if s.ended || (s.hasW && !t.After(s.w)) {
					due = append(due, k)
				}
			}
			sort.Strings(due)
			for _, k := range due {
				delete(s.times, k)
			}
			out = append(out, due...)
		default:
			if s.ended {
				ks := make([]string, 0, len(s.times))
				for k := range s.times {
					ks = append(ks, k)
				}
				sort.Strings(ks)
				out = append(out, ks...)
			}
		}
	}
	return out
}

func sortedKeys(m map[string]int) []string {
	ks := make([]string, 0, len(m))
	for k := range m {
		ks = append(ks, k)
	}
	sort.Strings(ks)
	return ks
}

// ---------------------------------------------------------------------------------------------
// Times and locations

var Base = time.Date(2020, 1, 1, 0, 0, 0, 0, time.UTC)

// Tick i is Base + i seconds (UTC).
func Tick(i int) time.Time { return Base.Add(time.Duration(i) * time.Second) }

// LocPool: locations in which the same instant is presented. Two distinct *Location values of
// the same +02:00 zone are included on purpose: time.Parse fabricates a fresh fixed zone for every
// parsed offset, so that is what a JSON/CSV file yields.
var LocPool = []*time.Location{
	time.UTC,
	time.FixedZone("", 2*3600),
	time.FixedZone("", 2*3600),
	time.FixedZone("", -(5*3600 + 1800)),
	time.Local,
}

// LocName names a Location of LocPool deterministically (pool index + offset): two pool entries of
// the same zone are different *time.Location values and must stay distinguishable in replays.
func LocName(loc *time.Location) string {
	for i, l := range LocPool {
		if l == loc {
			return fmt.Sprintf("L%d%s", i, Base.In(loc).Format("-07:00"))
		}
	}
	return "L?" + Base.In(loc).Format("-07:00")
}

// SameInstantDifferentRepr reports the input predicate of finding watermark-trigger-time-eq for
// two time values: the same instant, but not identical as Go structs (different Location).
func SameInstantDifferentRepr(a, b time.Time) bool {
	return a.Equal(b) && a != b
}

// TimeCollision reports whether among the given (time, rest-of-key) pairs there are two DISTINCT
// group keys whose time components are the same instant in different Locations.
type TK struct {
	T    time.Time
	Rest string
}

func TimeCollision(keys []TK) bool {
	for i := range keys {
		for j := i + 1; j < len(keys); j++ {
			if keys[i].Rest != keys[j].Rest && SameInstantDifferentRepr(keys[i].T, keys[j].T) {
				return true
			}
		}
	}
	return false
}

// CollidingKeys returns the set (by "instant|rest") of group keys that share their instant with a
// different group key while at least one of the two time values is in a different Location.
func CollidingKeys(keys []TK) map[string]bool {
	out := map[string]bool{}
	for i := range keys {
		for j := range keys {
			if i != j && keys[i].Rest != keys[j].Rest && SameInstantDifferentRepr(keys[i].T, keys[j].T) {
				out[GroupID(keys[i].T, keys[i].Rest)] = true
				out[GroupID(keys[j].T, keys[j].Rest)] = true
			}
		}
	}
	return out
}

func GroupID(t time.Time, rest string) string {
	return fmt.Sprintf("%d.%09d|%s", t.Unix(), t.Nanosecond(), rest)
}

// ---------------------------------------------------------------------------------------------
// Reference aggregation state of one group: count(*), count(v), sum(v), min(v), max(v) over a
// signed multiset of nullable ints.

type Agg struct {
	Rows int         // signed number of records
	Vals map[int]int // non-NULL value -> signed multiplicity
}

func NewAgg() *Agg { return &Agg{Vals: map[int]int{}} }

func (a *Agg) Add(retraction bool, v *int) {
	d := 1
	if retraction {
		d = -1
	}
	a.Rows += d
	if v != nil {
		a.Vals[*v] += d
		if a.Vals[*v] == 0 {
			delete(a.Vals, *v)
		}
	}
}

// Values returns the reference results in the order c, cv, s, mn, mx (count(*), count(v), sum,
// min, max); aggregates over an empty set of non-NULL inputs are NULL.
func (a *Agg) Values() (c, cv, s, mn, mx octosql.Value) {
	c = octosql.NewInt(int64(a.Rows))
	n, sum := 0, 0
	first := true
	lo, hi := 0, 0
	for v, m := range a.Vals {
		n += m
		sum += v * m
		if m > 0 {
			if first || v < lo {
				lo = v
			}
			if first || v > hi {
				hi = v
			}
			first = false
		}
	}
	if n <= 0 {
		return c, octosql.NewNull(), octosql.NewNull(), octosql.NewNull(), octosql.NewNull()
	}
	return c, octosql.NewInt(int64(n)), octosql.NewInt(int64(sum)), octosql.NewInt(int64(lo)), octosql.NewInt(int64(hi))
}

// Package c11: three-valued logic and NULL propagation.
//
// R: an AND/OR/NOT result differing from Kleene's table; a strict function returning non-NULL for
// a NULL argument; IS [NOT] NULL returning NULL; WHERE keeping a row whose predicate is not TRUE
// (or dropping one whose predicate is TRUE).
// O: own Kleene evaluator over {TRUE, FALSE, NULL}.
// W: in-process through the real SQL pipeline (nodeh.Plan over memdb tables): every boolean tree of
// depth <= 2 over three operands and {AND, OR, NOT, IS NULL, IS NOT NULL} (exhaustive), seeded
// random depth-3 trees, each under all 27 assignments with the operands supplied as nullable
// Boolean columns, non-nullable Boolean columns (TRUE/FALSE assignments only), literals, and mixed
// supplies; each tree as a select expression and as a WHERE predicate (real Filter node, optimizer
// on and off, datasource pushdown on and off). Every strict descriptor of FunctionMap() with NULL in
// each argument position. A CLI leg runs trees as SELECT ... WHERE over JSON files.
package c11

import (
	"context"
	"fmt"
	"math/rand"
	"os"
	"runtime"
	"runtime/debug"
	"sort"
	"strings"
	"time"

	"github.com/cube2222/octosql/octosql"
	"github.com/cube2222/octosql/physical"

	"github.com/cube2222/octosql/plugins/verifharness/cli"
	"github.com/cube2222/octosql/plugins/verifharness/core"
	"github.com/cube2222/octosql/plugins/verifharness/nodeh"
	"github.com/cube2222/octosql/plugins/verifharness/props/pipex"
)

func init() { core.Register("C11", Run) }

// ---------------------------------------------------------------------------------------------
// Trees and the Kleene reference

type tv int8 // truth value

const (
	F tv = 0
	T tv = 1
	N tv = 2
)

func (v tv) String() string { return [...]string{"FALSE", "TRUE", "NULL"}[v] }

const (
	opLeaf = iota
	opNot
	opIsNull
	opIsNotNull
	opAnd
	opOr
)

type tree struct {
	op   int
	leaf int // 0..2
	l, r *tree
}

var selftest = os.Getenv("VERIF_SELFTEST") == "1"

// eval is the reference: Kleene's strong three-valued logic.
func (t *tree) eval(asg [3]tv) tv {
	switch t.op {
	case opLeaf:
		return asg[t.leaf]
	case opNot:
		x := t.l.eval(asg)
		if x == N {
			return N
		}
		return 1 - x
	case opIsNull:
		if t.l.eval(asg) == N {
			return T
		}
		return F
	case opIsNotNull:
		if t.l.eval(asg) == N {
			return F
		}
		return T
	case opAnd:
		x, y := t.l.eval(asg), t.r.eval(asg)
		if selftest && x == N && y == F {
			return N // deliberately wrong expectation: the monitor must fire
		}
		if x == F || y == F {
			return F
		}
		if x == N || y == N {
			return N
		}
		return T
	case opOr:
		x, y := t.l.eval(asg), t.r.eval(asg)
		if x == T || y == T {
			return T
		}
		if x == N || y == N {
			return N
		}
		return F
	}
	panic("bad op")
}

// render writes fully parenthesised SQL; leaves[i] is the text of operand i.
func (t *tree) render(sb *strings.Builder, leaves *[3]string) {
	switch t.op {
	case opLeaf:
		sb.WriteString(leaves[t.leaf])
	case opNot:
		sb.WriteString("(NOT ")
		t.l.render(sb, leaves)
		sb.WriteString(")")
	case opIsNull:
		sb.WriteString("(")
		t.l.render(sb, leaves)
		sb.WriteString(" IS NULL)")
	case opIsNotNull:
		sb.WriteString("(")
		t.l.render(sb, leaves)
		sb.WriteString(" IS NOT NULL)")
	case opAnd, opOr:
		sb.WriteString("(")
		t.l.render(sb, leaves)
		if t.op == opAnd {
			sb.WriteString(" AND ")
		} else {
			sb.WriteString(" OR ")
		}
		t.r.render(sb, leaves)
		sb.WriteString(")")
	}
}

func (t *tree) sql(leaves [3]string) string {
	var sb strings.Builder
	t.render(&sb, &leaves)
	return sb.String()
}

func (t *tree) depth() int {
	if t.op == opLeaf {
		return 0
	}
	d := t.l.depth()
	if t.r != nil {
		if e := t.r.depth(); e > d {
			d = e
		}
	}
	return d + 1
}

func (t *tree) ops() int {
	if t.op == opLeaf {
		return 0
	}
	n := 1 + t.l.ops()
	if t.r != nil {
		n += t.r.ops()
	}
	return n
}

// notOfNullLiteral: does the tree, with the given operands being literal NULLs, apply NOT directly
// to a literal NULL (static type exactly NULL)? That is the input predicate of finding
// null-literal-operand-rejected.
func (t *tree) notOfNullLiteral(isNullLit [3]bool) bool {
	if t.op == opLeaf {
		return false
	}
	if t.op == opNot && t.l.op == opLeaf && isNullLit[t.l.leaf] {
		return true
	}
	if t.l.notOfNullLiteral(isNullLit) {
		return true
	}
	return t.r != nil && t.r.notOfNullLiteral(isNullLit)
}

var names = [3]string{"a", "b", "c"}

func allTrees(maxDepth int) []*tree {
	cur := []*tree{{op: opLeaf, leaf: 0}, {op: opLeaf, leaf: 1}, {op: opLeaf, leaf: 2}}
	for d := 1; d <= maxDepth; d++ {
		next := append([]*tree{}, cur[:3]...)
		for _, op := range []int{opNot, opIsNull, opIsNotNull} {
			for _, x := range cur {
				next = append(next, &tree{op: op, l: x})
			}
		}
		for _, op := range []int{opAnd, opOr} {
			for _, x := range cur {
				for _, y := range cur {
					next = append(next, &tree{op: op, l: x, r: y})
				}
			}
		}
		cur = next
	}
	return cur
}

// randTree returns a tree of depth exactly d (exact) or at most d.
func randTree(rng *rand.Rand, d int, exact bool) *tree {
	if d == 0 || (!exact && rng.Intn(4) == 0) {
		return &tree{op: opLeaf, leaf: rng.Intn(3)}
	}
	op := []int{opNot, opIsNull, opIsNotNull, opAnd, opAnd, opAnd, opOr, opOr, opOr}[rng.Intn(9)]
	if op <= opIsNotNull {
		return &tree{op: op, l: randTree(rng, d-1, exact)}
	}
	a, b := randTree(rng, d-1, exact), randTree(rng, d-1, false)
	if rng.Intn(2) == 0 {
		a, b = b, a
	}
	return &tree{op: op, l: a, r: b}
}

// ---------------------------------------------------------------------------------------------
// Operand supplies: per operand 'N' nullable Boolean column, 'B' non-nullable Boolean column,
// 'L' literal, 'C' a comparison (strict function) over a nullable Int column, 'U' / 'V' a column typed
// NULL | Boolean | String resp. NULL | Boolean | [Int] that only ever holds Booleans and NULLs.

type supply [3]byte

type suppliedTable struct {
	db   [2]*nodeh.DB // [0] no pushdown, [1] table accepts predicate pushdown
	rows [][3]tv      // assignment of the column operands per row (literal operands: unused)
}

var boolNull = octosql.TypeSum(octosql.Boolean, octosql.Null)

func tvValue(v tv) octosql.Value {
	if v == N {
		return octosql.NewNull()
	}
	return octosql.NewBoolean(v == T)
}

func buildTable(s supply) *suppliedTable {
	fields := []physical.SchemaField{{Name: "id", Type: octosql.Int}}
	var cols []int
	for i := 0; i < 3; i++ {
		switch s[i] {
		case 'N':
			fields = append(fields, physical.SchemaField{Name: names[i], Type: boolNull})
			cols = append(cols, i)
		case 'B':
			fields = append(fields, physical.SchemaField{Name: names[i], Type: octosql.Boolean})
			cols = append(cols, i)
		case 'U', 'V':
			// a union-typed nullable Boolean column whose static type only MAY be Boolean: NULL | Boolean |
			// String ('U') or NULL | Boolean | [Int] ('V'); no row holds the partner alternative. NOT over
			// it goes through the runtime type assertion path of FunctionExpression.Typecheck.
			partner := octosql.String
			if s[i] == 'V' {
				el := octosql.Int
				partner = octosql.Type{TypeID: octosql.TypeIDList, List: struct{ Element *octosql.Type }{Element: &el}}
			}
			fields = append(fields, physical.SchemaField{Name: strings.ToLower(string(s[i])) + names[i], Type: octosql.Type{TypeID: octosql.TypeIDUnion,
				Union: struct{ Alternatives []octosql.Type }{Alternatives: []octosql.Type{octosql.Null, octosql.Boolean, partner}}}})
			cols = append(cols, i)
		case 'C':
			// the operand is the comparison (i<name> < 1) over a nullable Int column: 0 -> TRUE, 5 -> FALSE, NULL -> NULL
			fields = append(fields, physical.SchemaField{Name: "i" + names[i], Type: octosql.TypeSum(octosql.Int, octosql.Null)})
			cols = append(cols, i)
		}
	}
	st := &suppliedTable{}
	var evs []nodeh.Event
	var rec func(k int, asg [3]tv)
	rec = func(k int, asg [3]tv) {
		if k == len(cols) {
			vals := []octosql.Value{octosql.NewInt(int64(len(st.rows)))}
			for _, c := range cols {
				if s[c] == 'C' {
					vals = append(vals, []octosql.Value{octosql.NewInt(5), octosql.NewInt(0), octosql.NewNull()}[asg[c]])
					continue
				}
				vals = append(vals, tvValue(asg[c]))
			}
			st.rows = append(st.rows, asg)
			evs = append(evs, nodeh.Rec(vals, false, time.Time{}))
			return
		}
		dom := []tv{T, F, N}
		if s[cols[k]] == 'B' {
			dom = []tv{T, F}
		}
		for _, v := range dom {
			asg[cols[k]] = v
			rec(k+1, asg)
		}
	}
	rec(0, [3]tv{})
	for pd := 0; pd < 2; pd++ {
		st.db[pd] = &nodeh.DB{Tables: map[string]*nodeh.Table{"t": {
			Fields: fields, TimeField: -1, NoRetractions: true, Events: evs, AcceptPushdown: pd == 1,
		}}}
	}
	return st
}

var allSupplies []supply
var tables = map[supply]*suppliedTable{}

func init() {
	for _, x := range "NBLCUV" {
		for _, y := range "NBLCUV" {
			for _, z := range "NBLCUV" {
				s := supply{byte(x), byte(y), byte(z)}
				allSupplies = append(allSupplies, s)
				tables[s] = buildTable(s)
			}
		}
	}
}

// ---------------------------------------------------------------------------------------------
// Judging one tree under one supply

type judge struct {
	c   *core.Ctx
	ctx context.Context
}

// tally batches coverage counters of one tree (core.Ctx.Count takes a global mutex).
type tally map[string]int

func (t tally) flush(c *core.Ctx) {
	for k, v := range t {
		c.Count(k, v)
	}
}

const findingNullLiteral = "null-literal-operand-rejected"

func isUnknownFunctionOnNull(err string) bool {
	i := strings.Index(err, "unknown function: ")
	if i < 0 {
		return false
	}
	rest := err[i:]
	j := strings.Index(rest, "(")
	if j < 0 {
		return false
	}
	args := strings.TrimSuffix(rest[j+1:], ")")
	for _, a := range strings.Split(args, ", ") {
		if a == "NULL" {
			return true
		}
	}
	return false
}

// litCase is one assignment of the literal operands of a supply.
type litCase struct {
	expr      string
	want      []tv // per table row
	isNullLit [3]bool
	rejected  bool // input predicate of the null-literal finding holds: NOT directly on a literal NULL
}

// checkTree evaluates tree t (case id) under supply s for all assignments. variant selects
// optimizer/pushdown settings: bit0 optimize, bit1 pushdown-accepting table (WHERE form).
// whereSample > 0 restricts the WHERE form to that many of the literal assignments (chosen by
// pick); the select form always covers all of them.
func (j *judge) checkTree(id string, t *tree, s supply, variant int, whereSample int, pick int) {
	c := j.c
	st := tables[s]
	var lits []int
	for i := 0; i < 3; i++ {
		if s[i] == 'L' {
			lits = append(lits, i)
		}
	}
	nLit := 1
	for range lits {
		nLit *= 3
	}
	optimize := variant&1 == 1
	db := st.db[(variant>>1)&1]
	tl := tally{}
	defer tl.flush(c)
	evals := 0
	defer func() { c.Eval(evals) }()
	constant := true
	var first tv = -1
	cases := make([]litCase, nLit)
	for la := 0; la < nLit; la++ {
		var leaves [3]string
		var litAsg [3]tv
		lc := &cases[la]
		x := la
		for i := 0; i < 3; i++ {
			leaves[i] = names[i]
			if s[i] == 'C' {
				leaves[i] = "(i" + names[i] + " < 1)"
			}
			if s[i] == 'U' || s[i] == 'V' {
				leaves[i] = strings.ToLower(string(s[i])) + names[i]
			}
		}
		for _, i := range lits {
			litAsg[i] = []tv{T, F, N}[x%3]
			x /= 3
			leaves[i] = litAsg[i].String()
			lc.isNullLit[i] = litAsg[i] == N
		}
		lc.expr = t.sql(leaves)
		lc.rejected = t.notOfNullLiteral(lc.isNullLit)
		lc.want = make([]tv, len(st.rows))
		for r, asg := range st.rows {
			for _, i := range lits {
				asg[i] = litAsg[i]
			}
			lc.want[r] = t.eval(asg)
			if first == -1 {
				first = lc.want[r]
			} else if lc.want[r] != first {
				constant = false
			}
		}
	}
	replay := func(sql string, want interface{}, extra string) map[string]interface{} {
		return map[string]interface{}{"id": id, "supply": string(s[:]), "sql": sql, "optimize": optimize, "pushdown_table": variant&2 != 0,
			"rows": fmt.Sprint(st.rows), "want": fmt.Sprint(want), "observed": extra}
	}
	planFail := func(sql string, perr *nodeh.PlanError, lc *litCase) {
		if perr.Stage == "typecheck" && isUnknownFunctionOnNull(perr.Err.Error()) && lc != nil && lc.rejected {
			tl["rejected/not-of-null-literal"]++
			c.Violation(findingNullLiteral, "typecheck rejects NOT applied to a literal NULL: "+perr.Error(), replay(sql, lc.want, perr.Error()))
			return
		}
		if perr.Stage == "panic" {
			c.Violation("plan-panic:"+core.PanicSite(perr.Stack), "planning panicked: "+perr.Error(), replay(sql, nil, perr.Error()))
			return
		}
		c.Violation("plan-error:"+perr.Stage, "well-typed boolean tree rejected: "+perr.Error(), replay(sql, nil, perr.Error()))
	}
	runFail := func(sql string, res nodeh.RunResult) bool {
		if res.Panicked {
			c.Violation("panic:"+core.PanicSite(res.Stack), "evaluation panicked: "+res.PanicMsg, replay(sql, nil, res.PanicMsg))
			return true
		}
		if res.Err != nil {
			c.Violation("runtime-error", "evaluation failed: "+res.Err.Error(), replay(sql, nil, res.Err.Error()))
			return true
		}
		return false
	}
	// (1) as select expressions. The assignments of the literal operands that octosql is known to
	// reject (finding null-literal-operand-rejected) are planned one by one; all others share one
	// query with one output column per assignment (falling back to one query each if that query is
	// rejected, so that the offending assignment is named).
	selectOne := func(group []*litCase) bool {
		var sb strings.Builder
		sb.WriteString("SELECT id")
		wants := make([][]tv, len(group))
		for k, lc := range group {
			fmt.Fprintf(&sb, ", %s AS x%d", lc.expr, k)
			wants[k] = lc.want
		}
		sb.WriteString(" FROM m.t")
		sql := sb.String()
		evals++
		p, perr := pipex.Plan(j.ctx, sql, st.db[0], optimize)
		if perr != nil {
			if len(group) > 1 {
				return false
			}
			planFail(sql, perr, group[0])
			return true
		}
		outs, res := pipex.Run(j.ctx, p)
		if !runFail(sql, res) {
			j.judgeSelect(tl, sql, outs, wants, replay)
		}
		return true
	}
	var merged []*litCase
	for la := range cases {
		if cases[la].rejected {
			selectOne([]*litCase{&cases[la]})
		} else {
			merged = append(merged, &cases[la])
		}
	}
	if len(merged) > 0 && !selectOne(merged) {
		for _, lc := range merged {
			selectOne([]*litCase{lc})
		}
	}
	// (2) as a WHERE predicate through the Filter node
	for la := range cases {
		if whereSample > 0 && nLit > whereSample && (la+pick)%(nLit/whereSample) != 0 {
			continue
		}
		lc := &cases[la]
		evals++
		sqlW := "SELECT id FROM m.t WHERE " + lc.expr
		if p, perr := pipex.Plan(j.ctx, sqlW, db, optimize); perr != nil {
			planFail(sqlW, perr, lc)
		} else {
			outs, res := pipex.Run(j.ctx, p)
			if !runFail(sqlW, res) {
				j.judgeWhere(tl, sqlW, outs, lc.want, replay)
			}
		}
	}
	tl["supply/"+string(s[:])]++
	tl[fmt.Sprintf("variant/optimize=%v,pushdown=%v", optimize, variant&2 != 0)]++
	if t.ops() >= 1 && !constant {
		c.Nontrivial(string(s[:]) + "|" + t.sql(names))
	}
}

// judgeSelect: outs are (id, x0, x1, ...) rows; wants[k][row] is the reference for column xk.
func (j *judge) judgeSelect(tl tally, sql string, outs []nodeh.Out, wants [][]tv, replay func(string, interface{}, string) map[string]interface{}) {
	c := j.c
	nRows := len(wants[0])
	seen := make([]bool, nRows)
	for _, o := range outs {
		if o.IsWatermark {
			continue
		}
		if o.Record.Retraction || len(o.Record.Values) != 1+len(wants) || o.Record.Values[0].TypeID != octosql.TypeIDInt {
			c.Violation("select-shape", "unexpected output record "+o.String(), replay(sql, wants, nodeh.OutsString(outs)))
			return
		}
		id := int(o.Record.Values[0].Int)
		if id < 0 || id >= nRows || seen[id] {
			c.Violation("select-shape", "row id out of range or duplicated: "+o.String(), replay(sql, wants, nodeh.OutsString(outs)))
			return
		}
		seen[id] = true
		for k := range wants {
			v := o.Record.Values[1+k]
			var got tv
			switch v.TypeID {
			case octosql.TypeIDNull:
				got = N
			case octosql.TypeIDBoolean:
				got = F
				if v.Boolean {
					got = T
				}
			default:
				c.Violation("non-boolean-result", "boolean tree produced a "+v.TypeID.String()+" value", replay(sql, wants, nodeh.OutsString(outs)))
				return
			}
			if got != wants[k][id] {
				c.Violation("kleene-mismatch", fmt.Sprintf("row %d column x%d: octosql says %s, Kleene says %s", id, k, got, wants[k][id]), replay(sql, wants, nodeh.OutsString(outs)))
				return
			}
			tl["result/"+got.String()]++
		}
	}
	for id := range seen {
		if !seen[id] {
			c.Violation("select-shape", fmt.Sprintf("row %d missing from the projection", id), replay(sql, wants, nodeh.OutsString(outs)))
			return
		}
	}
}

func (j *judge) judgeWhere(tl tally, sql string, outs []nodeh.Out, want []tv, replay func(string, interface{}, string) map[string]interface{}) {
	c := j.c
	kept := make([]int, len(want))
	for _, o := range outs {
		if o.IsWatermark {
			continue
		}
		if o.Record.Retraction || len(o.Record.Values) != 1 || o.Record.Values[0].TypeID != octosql.TypeIDInt {
			c.Violation("where-shape", "unexpected output record "+o.String(), replay(sql, want, nodeh.OutsString(outs)))
			return
		}
		id := int(o.Record.Values[0].Int)
		if id < 0 || id >= len(want) {
			c.Violation("where-shape", "row id out of range: "+o.String(), replay(sql, want, nodeh.OutsString(outs)))
			return
		}
		kept[id]++
	}
	for id := range want {
		exp := 0
		if want[id] == T {
			exp = 1
		}
		if kept[id] != exp {
			key := "where-dropped-true-row"
			if kept[id] > exp {
				key = "where-kept-" + strings.ToLower(want[id].String()) + "-row"
				if want[id] == T {
					key = "where-duplicated-row"
				}
			}
			c.Violation(key, fmt.Sprintf("row %d has predicate %s and was emitted %d times", id, want[id], kept[id]), replay(sql, want, nodeh.OutsString(outs)))
			return
		}
		if exp == 1 {
			tl["where/kept"]++
		} else {
			tl["where/dropped_"+want[id].String()]++
		}
	}
}

// ---------------------------------------------------------------------------------------------

func Run(c *core.Ctx) core.FinishOpts {
	ctx := nodeh.Ctx()
	only := pipex.OnlyID(c)
	j := &judge{c: c, ctx: ctx}
	workers := runtime.NumCPU()
	defer debug.SetGCPercent(debug.SetGCPercent(400)) // allocation-heavy, tiny live heap

	pure := []supply{{'N', 'N', 'N'}, {'B', 'B', 'B'}, {'L', 'L', 'L'}, {'C', 'C', 'C'}, {'U', 'U', 'U'}, {'V', 'V', 'V'}}
	var mixed []supply
	for _, s := range allSupplies {
		isPure := false
		for _, p := range pure {
			isPure = isPure || s == p
		}
		if !isPure {
			mixed = append(mixed, s)
		}
	}

	// exhaustive part: every tree of depth <= 2 under the three pure supplies and under two of the
	// 210 mixed supplies (rotating with the tree index, so every mixed supply is used)
	ex := allTrees(2)
	c.Note("exhaustive_trees_depth_le_2", len(ex))
	c.Note("exhaustive_bound", "all trees of depth <= 2 over operands a,b,c and {AND, OR, NOT, IS NULL, IS NOT NULL}; all 27 assignments; supplies NNN, BBB (8 assignments), CCC (operands are comparisons over nullable Int columns), UUU / VVV (columns typed NULL | Boolean | String resp. NULL | Boolean | [Int]: runtime type assertions), LLL + 2 of the 210 mixed supplies per tree; WHERE with optimizer off/on x pushdown off/on")
	core.Parallel(len(ex), workers, func(i int) {
		t := ex[i]
		for k, s := range []supply{pure[0], pure[1], pure[3], pure[4], pure[5], pure[2], mixed[(2*i)%len(mixed)], mixed[(2*i+1)%len(mixed)]} {
			id := fmt.Sprintf("ex-%d-%s", i, string(s[:]))
			if only != "" && only != id {
				continue
			}
			if k == 0 {
				// nullable Boolean columns: all four optimizer/pushdown variants
				for v := 0; v < 4; v++ {
					j.checkTree(id, t, s, v, 0, 0)
				}
			} else if k < 5 {
				// the other column supplies: two of the four variants, rotating with the tree index
				for v := 0; v < 2; v++ {
					j.checkTree(id, t, s, (i+k+2*v+v)%4, 0, 0)
				}
			} else {
				j.checkTree(id, t, s, (i+k)%4, 0, 0)
			}
		}
		c.Count("trees/exhaustive", 1)
	})

	// random depth-3 trees
	nRnd := c.Pick(5000, 200000)
	whereSample := c.Pick(9, 3)
	rng := c.Rng("trees")
	rnd := make([]*tree, nRnd)
	for i := range rnd {
		rnd[i] = randTree(rng, 3, true)
	}
	core.Parallel(nRnd, workers, func(i int) {
		t := rnd[i]
		for k, s := range []supply{pure[0], pure[1], pure[2], pure[3], pure[4+i%2], mixed[i%len(mixed)]} {
			id := fmt.Sprintf("rnd-%d-%s", i, string(s[:]))
			if only != "" && only != id {
				continue
			}
			// random trees: the WHERE form with literal operands covers 9 (quick) / 3 (thorough, 40x
			// more trees) of the 27 literal assignments, rotating with the tree index; the select
			// form covers all 27
			j.checkTree(id, t, s, (i+k)%4, whereSample, i)
		}
		c.Count("trees/random_depth3", 1)
		if i%25 == 0 {
			c.Sample(map[string]interface{}{"id": fmt.Sprintf("rnd-%d", i), "tree": t.sql(names), "depth": t.depth()})
		}
	})

	if only == "" || strings.HasPrefix(only, "fn-") {
		strictFunctions(c, ctx, only)
	}
	if only == "" || strings.HasPrefix(only, "cli-") {
		cliLeg(c, only)
	}

	floor := c.Pick(8000, 200000)
	if only != "" {
		floor = 0 // a single replayed case
	}
	return core.FinishOpts{
		Level: "exploration",
		Rule: "boolean trees over operands a,b,c and {AND, OR, NOT, IS NULL, IS NOT NULL}: exhaustive to depth 2, seeded random at depth 3; each under all 27 assignments " +
			"(8 for non-nullable columns) per supply (nullable column / non-nullable column / literal / comparison over a nullable Int column, per operand), as select expression and as WHERE; " +
			"non-trivial = at least one operator and a non-constant truth table over the evaluated assignments; distinct by (supply, tree). " +
			"Strict-function cases: non-trivial = a NULL in some argument position; distinct by (function, argument types, nullable positions, NULL position)",
		Floor:       floor,
		Assumptions: []string{"oracle: own Kleene evaluator (30 lines)", "memdb tables conform to their declared schemas", "pipeline wiring copied in shape from cmd/root.go (nodeh.Plan)", "Go toolchain"},
		Exhaustive:  true,
	}
}

// ---------------------------------------------------------------------------------------------
// CLI leg

func cliLeg(c *core.Ctx, only string) {
	r := cli.NewRunner(c.BinDir, c.Scratch)
	var nullable, nonnull strings.Builder
	var rowsN, rowsB [][3]tv
	js := func(v tv) string { return [...]string{"false", "true", "null"}[v] }
	for _, a := range []tv{T, F, N} {
		for _, b := range []tv{T, F, N} {
			for _, cc := range []tv{T, F, N} {
				fmt.Fprintf(&nullable, "{\"id\":%d,\"a\":%s,\"b\":%s,\"c\":%s}\n", len(rowsN), js(a), js(b), js(cc))
				rowsN = append(rowsN, [3]tv{a, b, cc})
				if a != N && b != N && cc != N {
					fmt.Fprintf(&nonnull, "{\"id\":%d,\"a\":%s,\"b\":%s,\"c\":%s}\n", len(rowsB), js(a), js(b), js(cc))
					rowsB = append(rowsB, [3]tv{a, b, cc})
				}
			}
		}
	}
	files := map[string][]byte{"n.json": []byte(nullable.String()), "b.json": []byte(nonnull.String())}
	n := c.Pick(50, 600)
	rng := c.Rng("cli")
	type cse struct {
		t    *tree
		file string
		rows [][3]tv
	}
	ex := allTrees(1)
	cases := make([]cse, n)
	for i := range cases {
		var t *tree
		switch {
		case i < len(ex):
			t = ex[i] // the depth-1 truth tables themselves come first
		default:
			t = randTree(rng, 2+rng.Intn(2), true)
		}
		cases[i] = cse{t: t, file: "n.json", rows: rowsN}
		if i%5 == 4 {
			cases[i].file, cases[i].rows = "b.json", rowsB
		}
	}
	core.Parallel(n, 16, func(i int) {
		id := fmt.Sprintf("cli-%d", i)
		if only != "" && only != id {
			return
		}
		cs := cases[i]
		expr := cs.t.sql(names)
		want := make([]tv, len(cs.rows))
		for k, asg := range cs.rows {
			want[k] = cs.t.eval(asg)
		}
		for form := 0; form < 2; form++ {
			sql := "SELECT id FROM " + cs.file + " t WHERE " + expr
			if form == 1 {
				sql = "SELECT id, " + expr + " AS x FROM " + cs.file + " t"
			}
			c.Eval(1)
			res := r.Exec(cli.Run{Args: []string{sql, "-o", "json"}, Files: files})
			replay := map[string]interface{}{"id": id, "sql": sql, "file": cs.file, "stdout": string(res.Stdout), "stderr": string(res.Stderr), "exit": res.Exit, "want": fmt.Sprint(want)}
			if res.TimedOut {
				c.Inconclusive("watchdog")
				continue
			}
			if res.Panicked() {
				site, msg := res.PanicSite()
				c.Violation("cli-panic:"+site, msg, replay)
				continue
			}
			if res.Exit != 0 {
				c.Violation("cli-error", "octosql failed on a well-typed boolean query: "+string(res.Stderr), replay)
				continue
			}
			rows, err := cli.DecodeJSONLines(res.Stdout)
			if err != nil {
				c.Violation("cli-undecodable", err.Error(), replay)
				continue
			}
			kept := make([]int, len(want))
			bad := ""
			for _, row := range rows {
				idv, ok := row.Values["id"]
				num, isNum := idv.(interface{ Int64() (int64, error) })
				if !ok || !isNum {
					bad = "row without integer id"
					break
				}
				k64, _ := num.Int64()
				k := int(k64)
				if k < 0 || k >= len(want) {
					bad = "id out of range"
					break
				}
				kept[k]++
				if form == 1 {
					var got tv
					switch x := row.Values["x"].(type) {
					case nil:
						got = N
					case bool:
						got = F
						if x {
							got = T
						}
					default:
						bad = fmt.Sprintf("x is not a boolean or null: %v", x)
					}
					if bad == "" && got != want[k] {
						c.Violation("cli-kleene-mismatch", fmt.Sprintf("row %d: octosql says %s, Kleene says %s", k, got, want[k]), replay)
						bad = "-"
					}
				}
			}
			if bad == "-" {
				continue
			}
			if bad != "" {
				c.Violation("cli-shape", bad, replay)
				continue
			}
			ok := true
			for k := range want {
				exp := 1
				if form == 0 && want[k] != T {
					exp = 0
				}
				if kept[k] != exp {
					ok = false
					c.Violation("cli-where-mismatch", fmt.Sprintf("row %d (predicate %s) was printed %d times, expected %d", k, want[k], kept[k], exp), replay)
					break
				}
			}
			if ok {
				c.Count(fmt.Sprintf("cli/%s/form%d", cs.file, form), 1)
				if form == 0 && cs.t.ops() >= 1 {
					c.Nontrivial("cli|" + cs.file + "|" + expr)
				}
				if i < 3 && form == 0 {
					c.Sample(map[string]interface{}{"id": id, "sql": sql, "stdout": string(res.Stdout)})
				}
			}
		}
	})
}

func sortedKeys(m map[string]physical.FunctionDetails) []string {
	out := make([]string, 0, len(m))
	for k := range m {
		out = append(out, k)
	}
	sort.Strings(out)
	return out
}

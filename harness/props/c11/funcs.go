package c11

import (
	"context"
	"fmt"
	"strings"
	"time"

	"github.com/cube2222/octosql/octosql"
	"github.com/cube2222/octosql/physical"

	"github.com/cube2222/octosql/plugins/verifharness/core"
	"github.com/cube2222/octosql/plugins/verifharness/nodeh"
	"github.com/cube2222/octosql/plugins/verifharness/props/pipex"
)

// Strict-function leg: every Strict descriptor of FunctionMap(), called through SQL over columns of
// its argument types, with NULL in each argument position in turn. The columns are declared
// nullable in several patterns (all / only the position under test) so that the nullCheckIndices
// physical.Expression.Materialize computes are the real ones for that typing.

type styp struct {
	t      octosql.Type
	sample octosql.Value
}

func listOf(t octosql.Type) octosql.Type {
	return octosql.Type{TypeID: octosql.TypeIDList, List: struct{ Element *octosql.Type }{Element: &t}}
}

func pool() []styp {
	return []styp{
		{octosql.Int, octosql.NewInt(2)},
		{octosql.Float, octosql.NewFloat(1.5)},
		{octosql.Boolean, octosql.NewBoolean(true)},
		{octosql.String, octosql.NewString("ab")},
		{octosql.Time, octosql.NewTime(time.Date(2020, 1, 2, 3, 4, 5, 0, time.UTC))},
		{octosql.Duration, octosql.NewDuration(time.Second)},
		{listOf(octosql.Int), octosql.NewList([]octosql.Value{octosql.NewInt(1), octosql.NewInt(2)})},
		{listOf(octosql.String), octosql.NewList([]octosql.Value{octosql.NewString("ab")})},
		{octosql.Type{TypeID: octosql.TypeIDStruct, Struct: struct{ Fields []octosql.StructField }{Fields: []octosql.StructField{{Name: "x", Type: octosql.Int}}}},
			octosql.NewStruct([]octosql.Value{octosql.NewInt(2)})},
		{octosql.Type{TypeID: octosql.TypeIDTuple, Tuple: struct{ Elements []octosql.Type }{Elements: []octosql.Type{octosql.Int, octosql.String}}},
			octosql.NewTuple([]octosql.Value{octosql.NewInt(2), octosql.NewString("ab")})},
	}
}

// CallSQL renders a call of function name on argument texts in octosql's SQL syntax.
func CallSQL(name string, args []string) string {
	switch name {
	case "<", "<=", "=", "!=", ">=", ">", "+", "*", "/", "~", "~*":
		if len(args) == 2 {
			return "(" + args[0] + " " + name + " " + args[1] + ")"
		}
	case "-":
		if len(args) == 2 {
			return "(" + args[0] + " - " + args[1] + ")"
		}
		if len(args) == 1 {
			return "(- " + args[0] + ")"
		}
	case "like":
		if len(args) == 2 {
			return "(" + args[0] + " LIKE " + args[1] + ")"
		}
	case "in":
		if len(args) == 2 {
			return "(" + args[0] + " IN (" + args[1] + "))"
		}
	case "not in":
		if len(args) == 2 {
			return "(" + args[0] + " NOT IN (" + args[1] + "))"
		}
	case "[]":
		if len(args) == 2 {
			return args[0] + "[" + args[1] + "]"
		}
	case "not":
		if len(args) == 1 {
			return "(NOT " + args[0] + ")"
		}
	case "is null":
		if len(args) == 1 {
			return "(" + args[0] + " IS NULL)"
		}
	case "is not null":
		if len(args) == 1 {
			return "(" + args[0] + " IS NOT NULL)"
		}
	}
	return name + "(" + strings.Join(args, ", ") + ")"
}

type fnCase struct {
	name string
	args []styp
}

// strictCases lists (function, argument types) for every Strict descriptor: ArgumentTypes
// descriptors directly (Any instantiated with several pool types), TypeFn descriptors by probing
// the TypeFn with every pool tuple of arity 1..3.
func strictCases(fm map[string]physical.FunctionDetails) (cases []fnCase, descriptors int, strict int) {
	p := pool()
	for _, name := range sortedKeys(fm) {
		for _, d := range fm[name].Descriptors {
			descriptors++
			if !d.Strict {
				continue
			}
			strict++
			if d.TypeFn == nil {
				if len(d.ArgumentTypes) == 0 {
					continue // now(): no argument position
				}
				// instantiate Any with each pool type (same one in every Any position, and a mixed one)
				hasAny := false
				for _, at := range d.ArgumentTypes {
					if at.TypeID == octosql.TypeIDAny {
						hasAny = true
					}
				}
				inst := func(k int, shift bool) fnCase {
					fc := fnCase{name: name}
					for pos, at := range d.ArgumentTypes {
						if at.TypeID == octosql.TypeIDAny {
							kk := k
							if shift {
								kk = (k + pos) % len(p)
							}
							fc.args = append(fc.args, p[kk])
							continue
						}
						found := false
						for _, st := range p {
							if st.t.Equals(at) {
								fc.args = append(fc.args, st)
								found = true
								break
							}
						}
						if !found {
							return fnCase{}
						}
					}
					return fc
				}
				if hasAny {
					for k := range p {
						cases = append(cases, inst(k, false))
						cases = append(cases, inst(k, true))
					}
				} else if fc := inst(0, false); fc.name != "" {
					cases = append(cases, fc)
				}
				continue
			}
			n := 0
			var tup []styp
			var rec func(arity int)
			rec = func(arity int) {
				if n >= 24 {
					return
				}
				if len(tup) == arity {
					ts := make([]octosql.Type, len(tup))
					for i := range tup {
						ts[i] = tup[i].t
					}
					ok := false
					core.Try(func() { _, ok = d.TypeFn(ts) })
					if ok {
						cases = append(cases, fnCase{name: name, args: append([]styp{}, tup...)})
						n++
					}
					return
				}
				for _, st := range p {
					tup = append(tup, st)
					rec(arity)
					tup = tup[:len(tup)-1]
				}
			}
			for arity := 1; arity <= 3; arity++ {
				rec(arity)
			}
		}
	}
	return cases, descriptors, strict
}

func typeNames(args []styp) string {
	parts := make([]string, len(args))
	for i := range args {
		parts[i] = args[i].t.String()
	}
	return strings.Join(parts, ", ")
}

func strictFunctions(c *core.Ctx, ctx context.Context, only string) {
	fm := nodeh.FunctionMap()
	cases, descriptors, strict := strictCases(fm)
	c.Note("function_descriptors", descriptors)
	c.Note("strict_descriptors", strict)
	c.Note("strict_function_signatures_exercised", len(cases))
	seenFn := map[string]bool{}
	hitDesc := map[string]bool{}
	for ci, fc := range cases {
		k := len(fc.args)
		seenFn[fc.name] = true
		// nullability patterns: all positions nullable, then only position i nullable
		patterns := [][]bool{}
		all := make([]bool, k)
		for i := range all {
			all[i] = true
		}
		patterns = append(patterns, all)
		if k > 1 {
			for i := 0; i < k; i++ {
				p := make([]bool, k)
				p[i] = true
				patterns = append(patterns, p)
			}
		}
		// union patterns: only position i nullable, and typed NULL | T | [Int] (NULL | T | String when T
		// is a list) with no row holding the partner alternative: the argument only MAY be a T, so
		// typecheck wraps it in a runtime type assertion whose static type must stay nullable
		nPlain := len(patterns)
		for i := 0; i < k; i++ {
			p := make([]bool, k)
			p[i] = true
			patterns = append(patterns, p)
		}
		for pi, pat := range patterns {
			unionPos := -1
			if pi >= nPlain {
				unionPos = pi - nPlain
			}
			id := fmt.Sprintf("fn-%d-%d", ci, pi)
			if only != "" && only != id {
				continue
			}
			fields := []physical.SchemaField{{Name: "id", Type: octosql.Int}}
			argNames := make([]string, k)
			for i := 0; i < k; i++ {
				t := fc.args[i].t
				if pat[i] {
					t = octosql.TypeSum(t, octosql.Null)
				}
				if i == unionPos {
					partner := listOf(octosql.Int)
					if fc.args[i].t.TypeID == octosql.TypeIDList {
						partner = octosql.String
					}
					alts := []octosql.Type{octosql.Null, fc.args[i].t, partner}
					for x := 1; x < len(alts); x++ {
						for y := x; y > 0 && alts[y].TypeID < alts[y-1].TypeID; y-- {
							alts[y], alts[y-1] = alts[y-1], alts[y]
						}
					}
					t = octosql.Type{TypeID: octosql.TypeIDUnion, Union: struct{ Alternatives []octosql.Type }{Alternatives: alts}}
				}
				argNames[i] = fmt.Sprintf("a%d", i)
				fields = append(fields, physical.SchemaField{Name: argNames[i], Type: t})
			}
			// rows: 0 = no NULL; then one row per nullable position with NULL there; last = all nullable NULL
			var nullRows [][]bool
			nullRows = append(nullRows, make([]bool, k))
			for i := 0; i < k; i++ {
				if pat[i] {
					r := make([]bool, k)
					r[i] = true
					nullRows = append(nullRows, r)
				}
			}
			nullRows = append(nullRows, append([]bool{}, pat...))
			var evs []nodeh.Event
			for ri, nr := range nullRows {
				vals := []octosql.Value{octosql.NewInt(int64(ri))}
				for i := 0; i < k; i++ {
					if nr[i] {
						vals = append(vals, octosql.NewNull())
					} else {
						vals = append(vals, fc.args[i].sample)
					}
				}
				evs = append(evs, nodeh.Rec(vals, false, time.Time{}))
			}
			db := &nodeh.DB{Tables: map[string]*nodeh.Table{"t": {Fields: fields, TimeField: -1, NoRetractions: true, Events: evs}}}
			call := CallSQL(fc.name, argNames)
			sql := "SELECT id, " + call + " AS x FROM m.t"
			sig := fc.name + "(" + typeNames(fc.args) + ")"
			replay := map[string]interface{}{"id": id, "sql": sql, "signature": sig, "nullable_positions": fmt.Sprint(pat), "null_rows": fmt.Sprint(nullRows)}
			c.Eval(1)
			p, perr := pipex.Plan(ctx, sql, db, pi%2 == 1)
			if perr != nil {
				// the harness' own rendering may not be expressible (e.g. an operator the grammar lacks):
				// counted, never judged — nothing was evaluated
				if unionPos >= 0 {
					c.Count("strict/union_variant_not_plannable:"+perr.Stage, 1)
					continue
				}
				c.Count("strict/not_plannable:"+perr.Stage, 1)
				c.Note("strict_not_plannable_example:"+fc.name, perr.Error()+" | "+sql)
				continue
			}
			if ex := pipex.SelectExprs(p); len(ex) == 2 && ex[1].ExpressionType == physical.ExpressionTypeFunctionCall {
				dk := pipex.DescriptorKey(ex[1].FunctionCall.FunctionDescriptor)
				hitDesc[dk] = true
				replay["descriptor"] = dk
				replay["null_checked_positions"] = nullChecked(ex[1])
			}
			outs, res := pipex.Run(ctx, p)
			replay["observed"] = nodeh.OutsString(outs)
			if res.Panicked {
				c.Violation("panic:"+core.PanicSite(res.Stack), "strict function panicked on NULL/sample arguments: "+res.PanicMsg, replay)
				continue
			}
			if res.Err != nil {
				if unionPos >= 0 {
					// with a union-typed argument overload resolution may legitimately settle on the overload
					// for the partner alternative (len over NULL | [Int] | String asserts String): no result
					c.Count("strict/union_variant_runtime_error_not_judged", 1)
					continue
				}
				c.Violation("strict-runtime-error", sig+": "+res.Err.Error(), replay)
				continue
			}
			if len(outs) != len(nullRows) {
				c.Violation("strict-shape", fmt.Sprintf("%d rows in, %d out", len(nullRows), len(outs)), replay)
				continue
			}
			for _, o := range outs {
				ri := int(o.Record.Values[0].Int)
				hasNull := false
				for _, b := range nullRows[ri] {
					hasNull = hasNull || b
				}
				v := o.Record.Values[1]
				if selftest && ci == 3 && hasNull {
					v = fc.args[0].sample // corrupted recording: the monitor must fire
				}
				if hasNull {
					if v.TypeID != octosql.TypeIDNull {
						c.Violation("strict-nonnull-on-null:"+sig, fmt.Sprintf("row %d has a NULL argument %v but the result is %s", ri, nullRows[ri], nodeh.ValKey(v)), replay)
						break
					}
					c.Count("strict/null_in_null_out", 1)
					if unionPos >= 0 {
						c.Count("strict/union_typed_null_in_null_out", 1)
					}
					c.Nontrivial(fmt.Sprintf("fn|%s|%v|%v", sig, pat, nullRows[ri]))
				} else {
					c.Count("strict/no_null_row_not_judged", 1)
				}
			}
			if ci%17 == 0 && pi == 0 {
				c.Sample(replay)
			}

			// the same with a literal NULL in the position instead of a column
			if pi == 0 {
				for i := 0; i < k; i++ {
					args := append([]string{}, argNames...)
					args[i] = "NULL"
					sqlL := "SELECT id, " + CallSQL(fc.name, args) + " AS x FROM m.t"
					rl := map[string]interface{}{"id": id, "sql": sqlL, "signature": sig, "literal_null_position": i}
					c.Eval(1)
					p, perr := pipex.Plan(ctx, sqlL, db, false)
					if perr != nil {
						if perr.Stage == "typecheck" && isUnknownFunctionOnNull(perr.Err.Error()) {
							c.Count("rejected/strict-fn-null-literal", 1)
							c.Violation(findingNullLiteral, "typecheck rejects a strict function applied to a literal NULL: "+perr.Error(), rl)
						} else {
							c.Count("strict/literal_not_plannable:"+perr.Stage, 1)
						}
						continue
					}
					outs, res := pipex.Run(ctx, p)
					rl["observed"] = nodeh.OutsString(outs)
					if res.Panicked {
						c.Violation("panic:"+core.PanicSite(res.Stack), "strict function panicked on a literal NULL: "+res.PanicMsg, rl)
						continue
					}
					if res.Err != nil {
						c.Violation("strict-runtime-error", sig+": "+res.Err.Error(), rl)
						continue
					}
					for _, o := range outs {
						if v := o.Record.Values[1]; v.TypeID != octosql.TypeIDNull {
							c.Violation("strict-nonnull-on-null:"+sig, fmt.Sprintf("literal NULL in position %d but the result is %s", i, nodeh.ValKey(v)), rl)
							break
						}
						c.Count("strict/literal_null_in_null_out", 1)
					}
				}
			}
		}
	}
	c.Note("strict_functions_exercised", len(seenFn))
	if only == "" {
		// every strict descriptor with at least one parameter must have been selected by the real
		// overload resolution at least once, otherwise the leg is not what it claims to be
		var missed []string
		for _, name := range sortedKeys(fm) {
			for i, d := range fm[name].Descriptors {
				if d.Strict && !(d.TypeFn == nil && len(d.ArgumentTypes) == 0) && !hitDesc[fmt.Sprintf("%s#%d", name, i)] {
					missed = append(missed, fmt.Sprintf("%s#%d", name, i))
				}
			}
		}
		c.Note("strict_descriptors_selected_by_typecheck", len(hitDesc))
		c.Note("strict_descriptors_never_selected", missed)
		if len(missed) > 0 {
			c.Inconclusive("strict-descriptor-not-reached")
		}
	}

	// IS [NOT] NULL never returns NULL, over every pool type, nullable and not
	for ti, st := range pool() {
		for _, nullable := range []bool{true, false} {
			id := fmt.Sprintf("fn-isnull-%d-%v", ti, nullable)
			if only != "" && only != id {
				continue
			}
			t := st.t
			evs := []nodeh.Event{nodeh.Rec([]octosql.Value{octosql.NewInt(0), st.sample}, false, time.Time{})}
			if nullable {
				t = octosql.TypeSum(t, octosql.Null)
				evs = append(evs, nodeh.Rec([]octosql.Value{octosql.NewInt(1), octosql.NewNull()}, false, time.Time{}))
			}
			db := &nodeh.DB{Tables: map[string]*nodeh.Table{"t": {Fields: []physical.SchemaField{{Name: "id", Type: octosql.Int}, {Name: "a0", Type: t}}, TimeField: -1, NoRetractions: true, Events: evs}}}
			sql := "SELECT id, (a0 IS NULL) AS x, (a0 IS NOT NULL) AS y, ((a0 IS NULL) IS NULL) AS z FROM m.t"
			replay := map[string]interface{}{"id": id, "sql": sql, "type": t.String()}
			c.Eval(1)
			p, perr := pipex.Plan(ctx, sql, db, false)
			if perr != nil {
				c.Violation("isnull-plan-error", perr.Error(), replay)
				continue
			}
			outs, res := pipex.Run(ctx, p)
			replay["observed"] = nodeh.OutsString(outs)
			if res.Panicked || res.Err != nil {
				c.Violation("isnull-failed", fmt.Sprint(res.PanicMsg, res.Err), replay)
				continue
			}
			if len(outs) != len(evs) {
				c.Violation("isnull-shape", "row count", replay)
				continue
			}
			for _, o := range outs {
				isNull := o.Record.Values[0].Int == 1
				x, y, z := o.Record.Values[1], o.Record.Values[2], o.Record.Values[3]
				if x.TypeID != octosql.TypeIDBoolean || y.TypeID != octosql.TypeIDBoolean || z.TypeID != octosql.TypeIDBoolean {
					c.Violation("isnull-returned-non-boolean", "IS [NOT] NULL returned "+nodeh.RowKey(o.Record.Values), replay)
					break
				}
				if x.Boolean != isNull || y.Boolean == isNull || z.Boolean {
					c.Violation("isnull-wrong", "IS [NOT] NULL wrong: "+nodeh.RowKey(o.Record.Values), replay)
					break
				}
				c.Count("isnull/ok", 1)
				c.Nontrivial(fmt.Sprintf("isnull|%s|%v", t, isNull))
			}
		}
	}
}

// nullChecked recomputes, from the typechecked call, the argument positions for which
// Materialize compiles a null check (reported in replays; the verdict only looks at values).
func nullChecked(e physical.Expression) []int {
	var out []int
	if !e.FunctionCall.FunctionDescriptor.Strict {
		return out
	}
	for i, a := range e.FunctionCall.Arguments {
		if octosql.Null.Is(a.Type) == octosql.TypeRelationIs {
			out = append(out, i)
		}
	}
	return out
}

package main

import (
	"fmt"
	"math"

	"github.com/cube2222/octosql/aggregates"
	"github.com/cube2222/octosql/octosql"
)

func main() {
	a := aggregates.Aggregates["count_distinct"].Descriptors[0].Prototype()
	a.Add(false, octosql.NewFloat(0))
	a.Add(false, octosql.NewFloat(math.Copysign(0, -1)))
	fmt.Println(a.Trigger())
	fmt.Println(octosql.NewFloat(0).Hash(), octosql.NewFloat(math.Copysign(0, -1)).Hash())
}

// Package c14: aggregates are invariant under retraction histories.
//
// R: after some valid add/retract history whose net multiset M is non-empty, Trigger() of a real
// aggregate (prototypes taken from aggregates.Aggregates, every overload) differs from the
// aggregate of M computed from scratch by the harness.
// O: own from-scratch aggregate of M (exact big.Float sums; Int/Duration sums wrap mod 2^64; AVG of
// Int/Duration truncates; array_agg ascending; DISTINCT by value equality: floats numerically, times
// by instant). Float results are compared within k*eps*sum|x| over the whole history.
// W: exhaustive: every valid history of length L over 3-value domains per overload (checked after
// every step, so every shorter history is covered as a prefix); random: long histories over
// edge-heavy pools with grow/shrink/drain phases.
package c14

import (
	"fmt"
	"math"
	"math/big"
	"math/rand"
	"os"
	"sort"
	"strings"
	"time"

	"github.com/cube2222/octosql/aggregates"
	"github.com/cube2222/octosql/execution/nodes"
	"github.com/cube2222/octosql/octosql"

	"github.com/cube2222/octosql/plugins/verifharness/core"
	"github.com/cube2222/octosql/plugins/verifharness/props/c09/vals"
)

func init() { core.Register("C14", Run) }

// ---------------------------------------------------------------------------------------------
// own value order / equality (numeric floats, instants), independent of octosql.Value.Compare

func cmpRef(a, b octosql.Value) int {
	if a.TypeID != b.TypeID {
		if a.TypeID < b.TypeID {
			return -1
		}
		return 1
	}
	switch a.TypeID {
	case octosql.TypeIDInt:
		return cmpI(a.Int, b.Int)
	case octosql.TypeIDFloat:
		switch {
		case a.Float < b.Float:
			return -1
		case a.Float > b.Float:
			return 1
		}
		return 0
	case octosql.TypeIDBoolean:
		x, y := 0, 0
		if a.Boolean {
			x = 1
		}
		if b.Boolean {
			y = 1
		}
		return x - y
	case octosql.TypeIDString:
		return strings.Compare(a.Str, b.Str)
	case octosql.TypeIDTime:
		switch {
		case a.Time.Before(b.Time):
			return -1
		case a.Time.After(b.Time):
			return 1
		}
		return 0
	case octosql.TypeIDDuration:
		return cmpI(int64(a.Duration), int64(b.Duration))
	}
	return 0
}

func cmpI(a, b int64) int {
	switch {
	case a < b:
		return -1
	case a > b:
		return 1
	}
	return 0
}

// ---------------------------------------------------------------------------------------------
// from-scratch aggregates

type want struct {
	v        octosql.Value
	floatish bool // compare within tolerance
}

// refAgg computes aggregate `name` of the multiset M from scratch. bitsDistinct makes DISTINCT use
// bit identity instead of value equality (only to recognise the signed-zero finding's symptom).
func refAgg(name string, M []octosql.Value, bitsDistinct bool) want {
	base := strings.TrimSuffix(name, "_distinct")
	if base != name {
		var d []octosql.Value
		for _, v := range M {
			dup := false
			for _, x := range d {
				if bitsDistinct {
					if vals.BitKey(x) == vals.BitKey(v) {
						dup = true
					}
				} else if cmpRef(x, v) == 0 {
					dup = true
				}
			}
			if !dup {
				d = append(d, v)
			}
		}
		M = d
	}
	switch base {
	case "count":
		return want{v: octosql.NewInt(int64(len(M)))}
	case "sum", "avg":
		switch M[0].TypeID {
		case octosql.TypeIDInt:
			var s int64
			for _, v := range M {
				s += v.Int // wraps
			}
			if base == "avg" {
				s /= int64(len(M))
			}
			return want{v: octosql.NewInt(s)}
		case octosql.TypeIDDuration:
			var s int64
			for _, v := range M {
				s += int64(v.Duration)
			}
			if base == "avg" {
				s /= int64(len(M))
			}
			return want{v: octosql.NewDuration(time.Duration(s))}
		case octosql.TypeIDFloat:
			s := new(big.Float).SetPrec(2300)
			for _, v := range M {
				s.Add(s, new(big.Float).SetPrec(2300).SetFloat64(v.Float))
			}
			if base == "avg" {
				s.Quo(s, new(big.Float).SetPrec(2300).SetInt64(int64(len(M))))
			}
			f, _ := s.Float64()
			return want{v: octosql.NewFloat(f), floatish: true}
		}
	case "min", "max":
		best := M[0]
		for _, v := range M[1:] {
			c := cmpRef(v, best)
			if (base == "min" && c < 0) || (base == "max" && c > 0) {
				best = v
			}
		}
		return want{v: best}
	case "array_agg":
		out := make([]octosql.Value, len(M))
		copy(out, M)
		sort.SliceStable(out, func(i, j int) bool { return cmpRef(out[i], out[j]) < 0 })
		return want{v: octosql.NewList(out)}
	}
	panic("refAgg: unknown aggregate " + name)
}

func sameResult(got octosql.Value, w want, tol float64) bool {
	if got.TypeID != w.v.TypeID {
		return false
	}
	switch got.TypeID {
	case octosql.TypeIDFloat:
		if math.IsNaN(got.Float) || math.IsNaN(w.v.Float) {
			return false
		}
		if got.Float == w.v.Float {
			return true
		}
		if !w.floatish {
			return false
		}
		return math.Abs(got.Float-w.v.Float) <= tol
	case octosql.TypeIDList:
		if len(got.List) != len(w.v.List) {
			return false
		}
		for i := range got.List {
			if got.List[i].TypeID != w.v.List[i].TypeID || cmpRef(got.List[i], w.v.List[i]) != 0 {
				return false
			}
		}
		return true
	default:
		return cmpRef(got, w.v) == 0
	}
}

// ---------------------------------------------------------------------------------------------
// specs and domains

type domain struct {
	name   string
	typeID octosql.TypeID // TypeIDAny = mixed
	small  []octosql.Value
	pool   []octosql.Value
	noSum  bool // not for sum/avg (infinities)
	// growOnly: random histories start with a long growth phase, so that more than 64 distinct
	// values are present at once (the DISTINCT wrapper's hashmap starts with 128 slots and doubles
	// when half full; only then do +0.0 and -0.0 stop sharing a bucket)
	growOnly bool
}

func manyFloats(nz float64) []octosql.Value {
	out := fl(0, nz)
	for i := 1; i <= 150; i++ {
		out = append(out, octosql.NewFloat(float64(i)*0.5))
	}
	return out
}

func fl(xs ...float64) []octosql.Value {
	out := make([]octosql.Value, len(xs))
	for i, x := range xs {
		out[i] = octosql.NewFloat(x)
	}
	return out
}
func in(xs ...int64) []octosql.Value {
	out := make([]octosql.Value, len(xs))
	for i, x := range xs {
		out[i] = octosql.NewInt(x)
	}
	return out
}
func du(xs ...int64) []octosql.Value {
	out := make([]octosql.Value, len(xs))
	for i, x := range xs {
		out[i] = octosql.NewDuration(time.Duration(x))
	}
	return out
}

func domains() []domain {
	nz := math.Copysign(0, -1)
	t0 := time.Date(2021, 3, 4, 5, 6, 7, 0, time.UTC)
	east := time.FixedZone("east", 7200)
	tm := func(ts ...time.Time) []octosql.Value {
		out := make([]octosql.Value, len(ts))
		for i, x := range ts {
			out[i] = octosql.NewTime(x)
		}
		return out
	}
	str := func(xs ...string) []octosql.Value {
		out := make([]octosql.Value, len(xs))
		for i, x := range xs {
			out[i] = octosql.NewString(x)
		}
		return out
	}
	return []domain{
		{name: "int-small", typeID: octosql.TypeIDInt, small: in(1, 2, -3), pool: in(0, 1, -1, 2, 3, 7, -7, 100)},
		{name: "int-extreme", typeID: octosql.TypeIDInt, small: in(math.MaxInt64, math.MinInt64, 1),
			pool: in(math.MaxInt64, math.MinInt64, math.MaxInt64-1, 1, -1, 0, 1<<62, -(1 << 62), 1<<53+1, 3)},
		{name: "float-small", typeID: octosql.TypeIDFloat, small: fl(0.5, 1.5, -2.25), pool: fl(0.5, 1.5, -2.25, 1, -1, 3, 0.1, 0.2, 0.3)},
		{name: "float-mixed-magnitude", typeID: octosql.TypeIDFloat, small: fl(1e300, 1e-300, 1),
			pool: fl(1e300, -1e300, 1e-300, 1, -1, 0.1, 1e16, 1e-16, 3.3e150, math.SmallestNonzeroFloat64, 1<<53, 1<<53+2)},
		{name: "float-signed-zero", typeID: octosql.TypeIDFloat, small: fl(0, nz, 1), pool: fl(0, nz, 1, -1, 0.5, 2)},
		{name: "float-signed-zero-many", typeID: octosql.TypeIDFloat, small: fl(0, nz, 2), pool: manyFloats(nz), growOnly: true},
		{name: "float-inf", typeID: octosql.TypeIDFloat, small: fl(math.Inf(1), math.Inf(-1), 1), noSum: true,
			pool: fl(math.Inf(1), math.Inf(-1), 1, -1, 0, math.MaxFloat64, -math.MaxFloat64, math.SmallestNonzeroFloat64)},
		{name: "duration-small", typeID: octosql.TypeIDDuration, small: du(1e9, 2e9, -3e9), pool: du(0, 1, -1, 1e9, 2e9, -3e9, 3600e9)},
		{name: "duration-extreme", typeID: octosql.TypeIDDuration, small: du(math.MaxInt64, math.MinInt64, 1),
			pool: du(math.MaxInt64, math.MinInt64, 1, -1, 0, 1<<62, -(1 << 62))},
		{name: "time", typeID: octosql.TypeIDTime, small: tm(t0, t0.In(east), t0.Add(1)),
			pool: tm(t0, t0.In(east), t0.In(time.Local), t0.Add(1), t0.Add(-1), t0.Add(time.Hour), time.Date(1960, 1, 1, 0, 0, 0, 0, time.UTC), time.Date(3000, 1, 1, 0, 0, 0, 0, east))},
		{name: "string", typeID: octosql.TypeIDString, small: str("a", "A", "ab"), pool: str("", "a", "A", "ab", "a\x00", "\xff", "é", "b")},
		{name: "mixed", typeID: octosql.TypeIDAny, small: []octosql.Value{octosql.NewInt(1), octosql.NewFloat(1), octosql.NewString("1")},
			pool: []octosql.Value{octosql.NewInt(1), octosql.NewFloat(1), octosql.NewString("1"), octosql.NewInt(2), octosql.NewBoolean(true), octosql.NewBoolean(false),
				octosql.NewDuration(1), octosql.NewTime(t0), octosql.NewFloat(0.5)}},
	}
}

type spec struct {
	name  string // aggregate name
	idx   int    // overload index
	proto func() nodes.Aggregate
	dom   domain
}

func (s spec) id() string { return fmt.Sprintf("%s#%d/%s", s.name, s.idx, s.dom.name) }

func specs() []spec {
	names := make([]string, 0, len(aggregates.Aggregates))
	for k := range aggregates.Aggregates {
		names = append(names, k)
	}
	sort.Strings(names)
	var out []spec
	for _, name := range names {
		base := strings.TrimSuffix(name, "_distinct")
		for i, d := range aggregates.Aggregates[name].Descriptors {
			for _, dom := range domains() {
				ok := false
				if d.TypeFn != nil || d.ArgumentType.TypeID == octosql.TypeIDAny {
					ok = true
				} else if d.ArgumentType.TypeID == dom.typeID {
					ok = true
				}
				if (base == "sum" || base == "avg") && dom.noSum {
					ok = false
				}
				if ok {
					out = append(out, spec{name: name, idx: i, proto: d.Prototype, dom: dom})
				}
			}
		}
	}
	return out
}

// ---------------------------------------------------------------------------------------------
// running one history

type step struct {
	retract bool
	v       octosql.Value
	k       string // vals.BitKey(v), precomputed
}

func mk(retract bool, v octosql.Value) step { return step{retract, v, vals.BitKey(v)} }

// compact identity of a history (for distinct counting)
func histKey(h []step) string {
	var sb strings.Builder
	for _, s := range h {
		if s.retract {
			sb.WriteByte('-')
		} else {
			sb.WriteByte('+')
		}
		sb.WriteString(s.k)
		sb.WriteByte(' ')
	}
	return sb.String()
}

func histString(h []step) string {
	var sb strings.Builder
	for i, s := range h {
		if i > 0 {
			sb.WriteByte(' ')
		}
		if s.retract {
			sb.WriteByte('-')
		} else {
			sb.WriteByte('+')
		}
		sb.WriteString(vals.Describe(s.v))
	}
	return sb.String()
}

// mutant aggregates for the self-test
type mutDistinctForwardsAll struct{ inner nodes.Aggregate }

func (m *mutDistinctForwardsAll) Add(r bool, v octosql.Value) bool { return m.inner.Add(r, v) }
func (m *mutDistinctForwardsAll) Trigger() octosql.Value           { return m.inner.Trigger() }

type mutIgnoreRetraction struct{ inner nodes.Aggregate }

func (m *mutIgnoreRetraction) Add(r bool, v octosql.Value) bool {
	if r {
		return false
	}
	return m.inner.Add(r, v)
}
func (m *mutIgnoreRetraction) Trigger() octosql.Value { return m.inner.Trigger() }

type runner struct {
	c        *core.Ctx
	selftest string // "", "ignore-retraction", "distinct-forwards-all", "wrong-expectation"
}

// runHistory feeds h to a fresh aggregate, checking after every step with non-empty M.
// It returns the number of checked steps.
func (r *runner) runHistory(s spec, h []step, caseID string) int {
	agg := s.proto()
	keyPrefix := ""
	switch r.selftest {
	case "ignore-retraction":
		agg = &mutIgnoreRetraction{inner: agg}
		keyPrefix = "selftest:"
	case "distinct-forwards-all":
		// the wrapped aggregate without the DISTINCT wrapper
		base := strings.TrimSuffix(s.name, "_distinct")
		agg = &mutDistinctForwardsAll{inner: aggregates.Aggregates[base].Descriptors[s.idx].Prototype()}
		keyPrefix = "selftest:"
	case "wrong-expectation":
		keyPrefix = "selftest:"
	}
	var M []octosql.Value
	var MK []string
	sumAbs := 0.0
	checked := 0
	bothZerosSeen := false
	for i, st := range h {
		if st.retract {
			found := false
			for j := range MK {
				if MK[j] == st.k {
					M = append(M[:j], M[j+1:]...)
					MK = append(MK[:j], MK[j+1:]...)
					found = true
					break
				}
			}
			if !found {
				panic("harness bug: invalid history generated")
			}
		} else {
			M = append(M, st.v)
			MK = append(MK, st.k)
			if st.v.TypeID == octosql.TypeIDFloat && st.v.Float == 0 && hasBothZeros(M) {
				bothZerosSeen = true
			}
		}
		if st.v.TypeID == octosql.TypeIDFloat && !math.IsInf(st.v.Float, 0) {
			sumAbs += math.Abs(st.v.Float)
		}
		var got octosql.Value
		panicked, msg := core.Try(func() {
			agg.Add(st.retract, st.v)
			if len(M) > 0 {
				got = agg.Trigger()
			}
		})
		replay := func() map[string]interface{} {
			return map[string]interface{}{"id": caseID, "aggregate": s.name, "overload": s.idx, "domain": s.dom.name,
				"history": histString(h[:i+1]), "step": i, "net_multiset": vals.Describe(octosql.NewList(M))}
		}
		if panicked {
			r.c.Violation(keyPrefix+"panic:"+s.name, fmt.Sprintf("%s panicked at step %d: %s", s.name, i, msg), replay())
			return checked
		}
		if len(M) == 0 {
			continue
		}
		checked++
		w := refAgg(s.name, M, false)
		if r.selftest == "wrong-expectation" && i == len(h)-1 {
			// deliberately wrong expectation: the aggregate of M without its last element's sign
			w = refAgg(s.name, append(append([]octosql.Value{}, M...), M[0], M[0]), false)
		}
		tol := float64(i+3) * 0x1p-52 * sumAbs
		if strings.HasPrefix(s.name, "avg") {
			tol = tol + 4*0x1p-52*math.Abs(w.v.Float)
		}
		if sameResult(got, w, tol) {
			continue
		}
		// classify
		key := keyPrefix + "aggregate-mismatch:" + s.name
		what := fmt.Sprintf("%s over M=%s: Trigger()=%s, from scratch %s (tolerance %g)", s.name, vals.Describe(octosql.NewList(M)), vals.Describe(got), vals.Describe(w.v), tol)
		if keyPrefix == "" && strings.HasSuffix(s.name, "_distinct") && bothZerosSeen {
			// symptom model: everything is right except the multiplicity k of float zero in the
			// DISTINCT set (truth: 1 if M holds a zero, else 0). Compare()==0 but Hash() differs for
			// +0.0/-0.0, so the wrapper's hashmap can hold zero twice, merge the two entries when it
			// re-inserts a cluster, drop the entry while zeros remain, or retract a zero twice.
			for _, k := range []int{-1, 0, 1, 2, 3} {
				if alt, ok := refAggZeroK(s.name, M, k); ok && sameResult(got, alt, tol) {
					key = "signed-zero-distinct"
					what += fmt.Sprintf("; equals the aggregate with float zero counted %d times in the distinct set (+0.0 and -0.0 were present together earlier in the history)", k)
					break
				}
			}
		}
		rp := replay()
		rp["got"] = vals.Describe(got)
		rp["want"] = vals.Describe(w.v)
		r.c.Violation(key, what, rp)
		return checked
	}
	return checked
}

func hasBothZeros(M []octosql.Value) bool {
	pos, neg := false, false
	for _, v := range M {
		if v.TypeID == octosql.TypeIDFloat && v.Float == 0 {
			if math.Signbit(v.Float) {
				neg = true
			} else {
				pos = true
			}
		}
	}
	return pos && neg
}

// refAggZeroK: the DISTINCT aggregate of M from scratch, except that float zero is given
// multiplicity k in the distinct set.
func refAggZeroK(name string, M []octosql.Value, k int) (want, bool) {
	var D []octosql.Value
	for _, v := range M {
		if v.TypeID == octosql.TypeIDFloat && v.Float == 0 {
			continue
		}
		dup := false
		for _, x := range D {
			if cmpRef(x, v) == 0 {
				dup = true
			}
		}
		if !dup {
			D = append(D, v)
		}
	}
	n := len(D) + k
	switch strings.TrimSuffix(name, "_distinct") {
	case "count":
		return want{v: octosql.NewInt(int64(n))}, true
	case "sum":
		if len(D) == 0 {
			return want{v: octosql.NewFloat(0), floatish: true}, true
		}
		return refAgg("sum", D, false), true
	case "avg":
		if n <= 0 {
			return want{}, false
		}
		sum := 0.0
		if len(D) > 0 {
			sum = refAgg("sum", D, false).v.Float
		}
		return want{v: octosql.NewFloat(sum / float64(n)), floatish: true}, true
	case "array_agg":
		out := append([]octosql.Value{}, D...)
		for i := 0; i < k; i++ {
			out = append(out, octosql.NewFloat(0))
		}
		return refAgg("array_agg", out, false), true
	}
	return want{}, false
}

// nontrivial: at least one retraction followed later by a step with non-empty M, and at least two
// different values.
func nontrivial(h []step) bool {
	retr := false
	first := ""
	two := false
	for _, s := range h {
		if s.retract {
			retr = true
		}
		k := s.k
		if first == "" {
			first = k
		} else if k != first {
			two = true
		}
	}
	return retr && two
}

// ---------------------------------------------------------------------------------------------

func Run(c *core.Ctx) core.FinishOpts {
	r := &runner{c: c}
	all := specs()
	if os.Getenv("VERIF_SELFTEST") == "1" {
		selfTest(c, all)
	}
	c.Note("aggregate_overloads_x_domains", len(all))
	names := map[string]bool{}
	for _, s := range all {
		names[fmt.Sprintf("%s#%d", s.name, s.idx)] = true
	}
	c.Note("aggregate_overloads", len(names))

	// exhaustive part: every valid history of length exactly L over the 3-value domain (each is
	// checked after every step, so every shorter valid history is covered as a prefix)
	L := c.Pick(6, 7)
	type task struct {
		s     spec
		first int
	}
	var tasks []task
	for _, s := range all {
		for f := 0; f < 3; f++ {
			tasks = append(tasks, task{s, f})
		}
	}
	totals := make([]int, len(tasks))
	core.Parallel(len(tasks), 16, func(ti int) {
		t := tasks[ti]
		s := t.s
		cnt := [3]int{}
		h := make([]step, 0, L)
		small := [3]step{mk(false, s.dom.small[0]), mk(false, s.dom.small[1]), mk(false, s.dom.small[2])}
		h = append(h, small[t.first])
		cnt[t.first] = 1
		leaves, nontriv, steps := 0, 0, 0
		var rec func()
		rec = func() {
			if len(h) == L {
				leaves++
				id := fmt.Sprintf("ex/%s/%d/%d", s.id(), t.first, leaves)
				if c.Only != "" && c.Only != id {
					return
				}
				steps += r.runHistory(s, h, id)
				if nontrivial(h) {
					nontriv++
					c.Nontrivial(s.id() + "|" + histKey(h))
				}
				if leaves%9973 == 1 && t.first == 1 {
					c.Sample(map[string]interface{}{"aggregate": s.name, "overload": s.idx, "domain": s.dom.name, "history": histString(h), "kind": "exhaustive"})
				}
				return
			}
			for v := 0; v < 3; v++ {
				h = append(h, small[v])
				cnt[v]++
				rec()
				cnt[v]--
				h = h[:len(h)-1]
				if cnt[v] > 0 {
					h = append(h, step{true, small[v].v, small[v].k})
					cnt[v]--
					rec()
					cnt[v]++
					h = h[:len(h)-1]
				}
			}
		}
		rec()
		totals[ti] = leaves
		c.Eval(leaves)
		c.Count("exhaustive_histories/"+s.name, leaves)
		c.Count("exhaustive_steps_checked", steps)
		c.Count("exhaustive_nontrivial", nontriv)
	})
	perSpec := 0
	for i := 0; i < 3 && i < len(totals); i++ {
		perSpec += totals[i]
	}
	c.Note("exhaustive_bound", fmt.Sprintf("all valid add/retract histories of length %d (hence every length <= %d as a prefix) over each 3-value domain: %d per overload x domain", L, L, perSpec))

	// random part
	perSpecN := c.Pick(6, 120)
	length := 1000
	type rtask struct {
		s spec
		i int
	}
	var rtasks []rtask
	for _, s := range all {
		for i := 0; i < perSpecN; i++ {
			rtasks = append(rtasks, rtask{s, i})
		}
	}
	core.Parallel(len(rtasks), 16, func(ti int) {
		t := rtasks[ti]
		id := fmt.Sprintf("rnd/%s/%d", t.s.id(), t.i)
		if c.Only != "" && c.Only != id {
			return
		}
		rng := c.Rng(id)
		h := randomHistory(rng, t.s.dom.pool, length, t.s.dom.growOnly)
		steps := r.runHistory(t.s, h, id)
		c.Eval(1)
		c.Count("random_histories/"+t.s.name, 1)
		c.Count("random_steps_checked", steps)
		if nontrivial(h) {
			c.Nontrivial(id + "|" + histKey(h))
		}
		if t.i == 0 && ti%7 == 0 {
			c.Sample(map[string]interface{}{"aggregate": t.s.name, "overload": t.s.idx, "domain": t.s.dom.name, "history_prefix": histString(h[:12]), "length": len(h), "kind": "random"})
		}
	})
	return core.FinishOpts{
		Level: "exploration",
		Rule: "case = (aggregate overload, value domain, valid add/retract history); a retraction is valid only of a bit-identical value currently present; " +
			"exhaustive: all valid histories of length L over a 3-value domain, Trigger() compared with the from-scratch aggregate after every step with non-empty M; " +
			"random: length-1000 histories over edge-heavy pools with grow/shrink/drain phases; non-trivial = at least one retraction and two different values; distinct by (overload, domain, history)",
		Floor:       c.Pick(200000, 1000000),
		Assumptions: []string{"oracle: own from-scratch aggregates (big.Float sums, wrapping Int/Duration sums, truncating integer average, array_agg ascending, DISTINCT by numeric/instant equality)", "NaN inputs are not generated (C09's subject)", "Go toolchain"},
		Exhaustive:  true,
	}
}

func randomHistory(rng *rand.Rand, pool []octosql.Value, n int, growFirst bool) []step {
	var h []step
	var M []step
	ps := make([]step, len(pool))
	for i := range pool {
		ps[i] = mk(false, pool[i])
	}
	mode := 0 // 0 grow, 1 shrink, 2 drain
	left := 0
	for len(h) < n {
		if left == 0 {
			mode = rng.Intn(3)
			left = 5 + rng.Intn(60)
			if growFirst && len(h) == 0 {
				mode, left = 0, 300+rng.Intn(200)
			}
		}
		left--
		pRetract := 30
		switch mode {
		case 1:
			pRetract = 65
		case 2:
			pRetract = 100
		}
		if len(M) > 0 && rng.Intn(100) < pRetract {
			j := rng.Intn(len(M))
			h = append(h, step{true, M[j].v, M[j].k})
			M[j] = M[len(M)-1]
			M = M[:len(M)-1]
			continue
		}
		if mode == 2 {
			left = 0
		}
		// a few values dominate so that duplicates (count > 1 per tree item) are frequent
		var v step
		if growFirst {
			// zeros often, the rest uniformly
			if rng.Intn(8) == 0 {
				v = ps[rng.Intn(2)]
			} else {
				v = ps[rng.Intn(len(ps))]
			}
		} else if rng.Intn(3) == 0 {
			v = ps[rng.Intn(len(ps))]
		} else {
			v = ps[rng.Intn(1+len(ps)/2)]
		}
		h = append(h, v)
		M = append(M, v)
	}
	return h
}

// selfTest: the oracle must fire on mutants and on a deliberately wrong expectation.
func selfTest(c *core.Ctx, all []spec) {
	h := []step{}
	fired := map[string]int{}
	for _, mode := range []string{"ignore-retraction", "distinct-forwards-all", "wrong-expectation"} {
		r := &runner{c: c, selftest: mode}
		for _, s := range all {
			if mode == "distinct-forwards-all" && !strings.HasSuffix(s.name, "_distinct") {
				continue
			}
			d := s.dom.small
			h = []step{mk(false, d[0]), mk(false, d[0]), mk(false, d[1]), mk(true, d[0]), mk(false, d[2]), mk(true, d[1]), mk(false, d[2])}
			before := c.Violations()
			r.runHistory(s, h, "selftest/"+mode+"/"+s.id())
			if c.Violations() > before {
				fired[mode]++
			} else {
				c.Count("selftest_not_fired/"+mode+"/"+s.name, 1)
			}
		}
	}
	c.Note("selftest_fired", fired)
}

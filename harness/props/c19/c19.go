// Package c19: stream joins are internally consistent under every schedule.
//
// R: at a forwarded watermark W, consolidated output != join of all input records with event time
// <= W; or at end of stream != join of the complete inputs (whichever input ends first).
// O: reference join (own code) over the consolidated inputs.
// W: two gated ScriptSources; hook H2 (verifhook.OnJoinRecv) tells the controller when the join
// has dequeued a message, so that exactly one message is ever in flight and the order in which the
// join sees records, watermarks and each side's end of stream is exactly the chosen merge order.
// All merge orders are enumerated for small script pairs; seeded samples for longer ones.
package c19

import (
	"bytes"
	"fmt"
	"math/rand"
	"os"
	"os/exec"
	"path/filepath"
	"sort"
	"strings"
	"time"

	"github.com/cube2222/octosql/execution"
	"github.com/cube2222/octosql/execution/nodes"
	"github.com/cube2222/octosql/octosql"
	"github.com/cube2222/octosql/verifhook"

	"github.com/cube2222/octosql/plugins/verifharness/core"
	"github.com/cube2222/octosql/plugins/verifharness/nodeh"
)

func init() { core.Register("C19", Run) }

var base = time.Date(2021, 6, 1, 12, 0, 0, 0, time.UTC)

func ts(i int) time.Time {
	if i == 0 {
		return time.Time{}
	}
	return base.Add(time.Duration(i) * time.Second)
}

// ev is one scripted event of one side.
type ev struct {
	wm   bool
	t    int // time index (0 = zero event time); for wm: the watermark's time index
	retr bool
	key  int
	tag  int
}

func (e ev) String() string {
	if e.wm {
		return fmt.Sprintf("~%d", e.t)
	}
	s := "+"
	if e.retr {
		s = "-"
	}
	return fmt.Sprintf("%sk%d%c@%d", s, e.key, 'a'+e.tag, e.t)
}

func evsString(es []ev) string {
	p := make([]string, len(es))
	for i, e := range es {
		p[i] = e.String()
	}
	return strings.Join(p, " ")
}

func (e ev) event(side int) nodeh.Event {
	if e.wm {
		return nodeh.WM(ts(e.t))
	}
	tag := string(rune('a' + e.tag))
	if side == 1 {
		tag = strings.ToUpper(tag)
	}
	return nodeh.Rec([]octosql.Value{octosql.NewInt(int64(e.key)), octosql.NewString(tag)}, e.retr, ts(e.t))
}

// validSide: (1) no late records: a record's time is above the last watermark of its side, zero
// times only before the first watermark; watermarks strictly increasing; (2) the history is a
// valid changelog in arrival order and in the order a join processes it (zero-time records at
// once, the others stably sorted by event time), i.e. every sub-history "time <= T" is valid.
func validSide(es []ev, nTimes int) bool {
	w := 0
	for _, e := range es {
		if e.wm {
			if e.t <= w {
				return false
			}
			w = e.t
			continue
		}
		if e.t == 0 {
			if w != 0 {
				return false
			}
		} else if e.t <= w {
			return false
		}
	}
	for T := 0; T <= nTimes; T++ {
		c := map[[2]int]int{}
		for _, e := range es {
			if e.wm || e.t > T {
				continue
			}
			k := [2]int{e.key, e.tag}
			if e.retr {
				c[k]--
				if c[k] < 0 {
					return false
				}
			} else {
				c[k]++
			}
		}
	}
	// processing order: stable sort by time
	idx := make([]int, 0, len(es))
	for i, e := range es {
		if !e.wm {
			idx = append(idx, i)
		}
	}
	sort.SliceStable(idx, func(a, b int) bool { return es[idx[a]].t < es[idx[b]].t })
	c := map[[2]int]int{}
	for _, i := range idx {
		e := es[i]
		k := [2]int{e.key, e.tag}
		if e.retr {
			c[k]--
			if c[k] < 0 {
				return false
			}
		} else {
			c[k]++
		}
	}
	return true
}

type kind struct {
	name           string
	outerL, outerR bool
	inner          bool
}

var kinds = []kind{
	{name: "inner", inner: true},
	{name: "left", outerL: true},
	{name: "right", outerR: true},
	{name: "full", outerL: true, outerR: true},
}

func buildJoin(k kind, l, r execution.Node) execution.Node {
	kl := []execution.Expression{execution.NewVariable(0, 0)}
	kr := []execution.Expression{execution.NewVariable(0, 0)}
	if k.inner {
		return nodes.NewStreamJoin(l, r, kl, kr)
	}
	return nodes.NewOuterJoin(l, r, 2, 2, kl, kr, k.outerL, k.outerR)
}

// refJoin: join of two consolidated sides (maps row -> multiplicity), as a multiset of output rows
// encoded like nodeh.RowKey does.
func refJoin(k kind, L, R []ev, upTo int) nodeh.Multiset {
	cons := func(es []ev) map[[2]int]int {
		m := map[[2]int]int{}
		for _, e := range es {
			if e.wm || (upTo >= 0 && e.t > upTo) {
				continue
			}
			if e.retr {
				m[[2]int{e.key, e.tag}]--
			} else {
				m[[2]int{e.key, e.tag}]++
			}
		}
		return m
	}
	lm, rm := cons(L), cons(R)
	out := nodeh.Multiset{}
	row := func(lk *[2]int, rk *[2]int) string {
		vals := make([]octosql.Value, 4)
		if lk != nil {
			vals[0] = octosql.NewInt(int64(lk[0]))
			vals[1] = octosql.NewString(string(rune('a' + lk[1])))
		}
		if rk != nil {
			vals[2] = octosql.NewInt(int64(rk[0]))
			vals[3] = octosql.NewString(strings.ToUpper(string(rune('a' + rk[1]))))
		}
		return nodeh.RowKey(vals)
	}
	for lk, lc := range lm {
		if lc == 0 {
			continue
		}
		matched := 0
		for rk, rc := range rm {
			if rc != 0 && rk[0] == lk[0] {
				matched += rc
				lk2, rk2 := lk, rk
				out.Add(row(&lk2, &rk2), lc*rc)
			}
		}
		if matched == 0 && k.outerL {
			lk2 := lk
			out.Add(row(&lk2, nil), lc)
		}
	}
	if k.outerR {
		for rk, rc := range rm {
			if rc == 0 {
				continue
			}
			matched := 0
			for lk, lc := range lm {
				if lc != 0 && lk[0] == rk[0] {
					matched += lc
				}
			}
			if matched == 0 {
				rk2 := rk
				out.Add(row(nil, &rk2), rc)
			}
		}
	}
	return out
}

type recvMsg struct {
	side   int
	closed bool
}

type outcome struct {
	outs     []nodeh.Out
	res      nodeh.RunResult
	stuck    string // non-empty: the controller's wait timed out
	protocol string // non-empty: the join dequeued something else than what was released
}

// runSchedule executes one (script pair, merge order, join kind).
func runSchedule(k kind, L, R []ev, order string) outcome {
	gl := make(chan struct{})
	gr := make(chan struct{})
	toEvents := func(es []ev, side int) []nodeh.Event {
		o := make([]nodeh.Event, len(es))
		for i, e := range es {
			o[i] = e.event(side)
		}
		return o
	}
	ls := &nodeh.ScriptSource{Events: toEvents(L, 0), Gate: gl}
	rs := &nodeh.ScriptSource{Events: toEvents(R, 1), Gate: gr}
	col := &nodeh.Collector{}
	recv := make(chan recvMsg)
	quit := make(chan struct{})
	step := 0
	verifhook.OnJoinRecv = func(side int, closed bool) {
		col.SetStep(step)
		select {
		case recv <- recvMsg{side, closed}:
		case <-quit:
		}
	}
	defer func() { verifhook.OnJoinRecv = nil }()
	join := buildJoin(k, ls, rs)
	done := make(chan nodeh.RunResult, 1)
	go func() { done <- nodeh.RunNode(join, col, 40*time.Second) }()
	var out outcome
	sent := [2]int{}
	total := [2]int{len(L) + 1, len(R) + 1}
	finished := false
loop:
	for i := 0; i < len(order); i++ {
		side := 0
		gate := gl
		if order[i] == 'R' {
			side = 1
			gate = gr
		}
		step = i + 1
		select {
		case gate <- struct{}{}:
		case res := <-done:
			out.res = res
			finished = true
			break loop
		case <-time.After(20 * time.Second):
			out.stuck = fmt.Sprintf("source %d did not take token %d", side, i)
			break loop
		}
		sent[side]++
		wantClosed := sent[side] == total[side]
		select {
		case m := <-recv:
			if m.side != side || m.closed != wantClosed {
				out.protocol = fmt.Sprintf("step %d released side %d (closed=%v) but the join dequeued side %d (closed=%v)", i, side, wantClosed, m.side, m.closed)
				break loop
			}
		case res := <-done:
			out.res = res
			finished = true
			break loop
		case <-time.After(20 * time.Second):
			out.stuck = fmt.Sprintf("join did not dequeue the message of step %d (side %d)", i, side)
			break loop
		}
	}
	close(quit)
	if !finished {
		if out.stuck != "" || out.protocol != "" {
			// let the sources finish so goroutines do not pile up
			go func() {
				for {
					select {
					case gl <- struct{}{}:
					case gr <- struct{}{}:
					case <-time.After(2 * time.Second):
						return
					}
				}
			}()
		}
		select {
		case out.res = <-done:
		case <-time.After(45 * time.Second):
			out.stuck += " (join never returned)"
		}
	}
	out.outs = col.Snapshot()
	return out
}

type pair struct {
	L, R []ev
	id   string
}

func judge(c *core.Ctx, k kind, p pair, order string, selftest bool) {
	id := fmt.Sprintf("%s/%s/%s", p.id, k.name, order)
	if c.Only != "" && c.Only != "race-leg" && c.Only != id {
		return
	}
	c.LogCase(id, "L: "+evsString(p.L)+" | R: "+evsString(p.R))
	c.Eval(1)
	o := runSchedule(k, p.L, p.R, order)
	replay := map[string]interface{}{"id": id, "kind": k.name, "left": evsString(p.L), "right": evsString(p.R), "order": order, "output": nodeh.OutsString(o.outs)}
	if o.stuck != "" {
		c.Inconclusive("watchdog:" + o.stuck)
		return
	}
	if o.protocol != "" {
		c.Violation("schedule-protocol", o.protocol, replay)
		return
	}
	if o.res.TimedOut {
		c.Inconclusive("watchdog")
		return
	}
	if o.res.Panicked {
		c.Violation("panic:"+core.PanicSite(o.res.Stack), "join panicked: "+o.res.PanicMsg, replay)
		return
	}
	if o.res.Err != nil {
		c.Violation("error", "join returned error: "+o.res.Err.Error(), replay)
		return
	}
	outs := o.outs
	if selftest && len(outs) > 0 {
		// corrupt the recording: drop the last record output
		for i := len(outs) - 1; i >= 0; i-- {
			if !outs[i].IsWatermark {
				outs = append(append([]nodeh.Out{}, outs[:i]...), outs[i+1:]...)
				break
			}
		}
	}
	wms := 0
	for n, x := range outs {
		if !x.IsWatermark {
			continue
		}
		wms++
		// time index of W
		wi := int(x.Watermark.Sub(base) / time.Second)
		if x.Watermark.Before(base) {
			wi = 0
		}
		got := nodeh.ConsolidateOuts(outs, n)
		want := refJoin(k, p.L, p.R, wi)
		if !got.Equal(want) {
			c.Violation(classify(p, order), fmt.Sprintf("%s join at watermark %s (schedule step %d): consolidated output %s, join of inputs <= W is %s; output-expected = %s",
				k.name, nodeh.FmtTime(x.Watermark), x.Step, got, want, got.Diff(want)), replay)
			return
		}
	}
	got := nodeh.ConsolidateOuts(outs, -1)
	want := refJoin(k, p.L, p.R, -1)
	if !got.Equal(want) {
		c.Violation(classify(p, order), fmt.Sprintf("%s join at end of stream: consolidated output %s, join of complete inputs is %s; output-expected = %s", k.name, got, want, got.Diff(want)), replay)
		return
	}
	c.Count("kind:"+k.name, 1)
	c.Count("watermark_checks", wms)
	first := "L"
	if strings.LastIndex(order, "L") > strings.LastIndex(order, "R") {
		first = "R"
	}
	c.Count("ends_first:"+first, 1)
	nontrivial := len(want) > 0 && len(p.L) > 0 && len(p.R) > 0
	if nontrivial {
		c.Nontrivial(id)
	}
	c.Sample(replay)
}

// classify: nothing is attributed to a known finding at the moment (the drain defect was fixed).
func classify(p pair, order string) string { return "join-inconsistent" }

// mergeOrders enumerates all strings with nl L's and nr R's in lexicographic order.
func mergeOrders(nl, nr int) []string {
	var out []string
	var rec func(pre []byte, l, r int)
	rec = func(pre []byte, l, r int) {
		if l == 0 && r == 0 {
			out = append(out, string(pre))
			return
		}
		if l > 0 {
			rec(append(pre, 'L'), l-1, r)
		}
		if r > 0 {
			rec(append(pre, 'R'), l, r-1)
		}
	}
	rec(nil, nl, nr)
	return out
}

// genSide draws one valid side script with n events.
func genSide(rng *rand.Rand, n, nTimes, nKeys, nTags int) []ev {
	for attempt := 0; attempt < 200; attempt++ {
		var es []ev
		w := 0
		type ins struct{ key, tag, t int }
		var present []ins
		for iter := 0; len(es) < n && iter < 100; iter++ {
			r := rng.Intn(10)
			switch {
			case r < 3 && w < nTimes:
				w = w + 1 + rng.Intn(nTimes-w)
				es = append(es, ev{wm: true, t: w})
			case r < 6 && len(present) > 0:
				i := rng.Intn(len(present))
				p := present[i]
				lo := p.t
				if w+1 > lo {
					lo = w + 1
				}
				if p.t == 0 && w == 0 && rng.Intn(2) == 0 {
					lo = 0
				}
				if lo > nTimes {
					continue
				}
				t := lo
				if lo > 0 {
					t = lo + rng.Intn(nTimes-lo+1)
				}
				present = append(present[:i], present[i+1:]...)
				es = append(es, ev{retr: true, key: p.key, tag: p.tag, t: t})
			default:
				t := 0
				if !(w == 0 && rng.Intn(5) == 0) {
					if w+1 > nTimes {
						continue
					}
					t = w + 1 + rng.Intn(nTimes-w)
				}
				e := ev{key: 1 + rng.Intn(nKeys), tag: rng.Intn(nTags), t: t}
				present = append(present, ins{e.key, e.tag, t})
				es = append(es, e)
			}
		}
		if len(es) == n && validSide(es, nTimes) {
			return es
		}
	}
	return []ev{{key: 1, tag: 0, t: 1}}
}

func Run(c *core.Ctx) core.FinishOpts {
	selftest := os.Getenv("VERIF_SELFTEST") == "1"
	raceLeg := c.Only == "race-leg"
	rng := c.Rng("pairs")
	distinctSchedules := map[string]struct{}{}

	// fixed pairs aimed at the close/drain paths, then random small pairs; all merge orders each
	fixed := []pair{
		// a side ends holding a buffered record at or below the other side's watermark
		{L: []ev{{key: 1, tag: 0, t: 1}}, R: []ev{{key: 1, tag: 0, t: 1}, {wm: true, t: 2}}, id: "fx0"},
		{L: []ev{{key: 1, tag: 0, t: 2}, {wm: true, t: 1}}, R: []ev{{key: 1, tag: 0, t: 1}, {wm: true, t: 3}, {key: 1, tag: 1, t: 4}}, id: "fx1"},
		{L: []ev{{key: 1, tag: 0, t: 1}, {key: 2, tag: 0, t: 3}}, R: []ev{{wm: true, t: 2}, {key: 1, tag: 0, t: 3}, {key: 2, tag: 1, t: 4}}, id: "fx2"},
		{L: []ev{{key: 1, tag: 0, t: 1}, {retr: true, key: 1, tag: 0, t: 2}, {wm: true, t: 3}}, R: []ev{{key: 1, tag: 0, t: 1}, {wm: true, t: 1}, {wm: true, t: 3}}, id: "fx3"},
		{L: []ev{{key: 1, tag: 0, t: 0}, {key: 1, tag: 0, t: 0}, {retr: true, key: 1, tag: 0, t: 0}}, R: []ev{{key: 1, tag: 0, t: 0}, {key: 2, tag: 0, t: 1}}, id: "fx4"},
		{L: []ev{}, R: []ev{{key: 1, tag: 0, t: 1}, {wm: true, t: 2}}, id: "fx5"},
	}
	pairs := append([]pair{}, fixed...)
	nPairs := c.Pick(150, 1500)
	if raceLeg {
		nPairs = 25
	}
	for i := 0; i < nPairs; i++ {
		nl := rng.Intn(4)
		nr := rng.Intn(4)
		if nl+nr == 0 {
			nl = 1
		}
		pairs = append(pairs, pair{L: genSide(rng, nl, 3, 2, 2), R: genSide(rng, nr, 3, 2, 2), id: fmt.Sprintf("p%d", i)})
	}
	for _, p := range pairs {
		if !validSide(p.L, 4) || !validSide(p.R, 4) {
			continue
		}
		orders := mergeOrders(len(p.L)+1, len(p.R)+1)
		for _, k := range kinds {
			for _, o := range orders {
				judge(c, k, p, o, selftest)
				distinctSchedules[fmt.Sprintf("%d/%d/%s", len(p.L), len(p.R), o)] = struct{}{}
			}
		}
	}
	c.Note("exhaustive_bound", "all merge orders of (|L|+1)+(|R|+1) messages for script pairs with <= 3 events a side, 4 join kinds")
	c.Note("script_pairs_exhaustive", len(pairs))

	// longer scripts, sampled schedules
	nLong := c.Pick(300, 20000)
	if raceLeg {
		nLong = 60
	}
	srng := c.Rng("long")
	for i := 0; i < nLong; i++ {
		nl := 3 + srng.Intn(10)
		nr := 3 + srng.Intn(10)
		p := pair{L: genSide(srng, nl, 6, 3, 2), R: genSide(srng, nr, 6, 3, 2), id: fmt.Sprintf("long%d", i)}
		if !validSide(p.L, 6) || !validSide(p.R, 6) {
			continue
		}
		for rep := 0; rep < 3; rep++ {
			// random merge order; rep 0: fully random, 1: left ends early, 2: right ends early
			l, r := len(p.L)+1, len(p.R)+1
			var sb strings.Builder
			for l > 0 || r > 0 {
				pl := l
				pr := r
				if rep == 1 {
					pl *= 4
				}
				if rep == 2 {
					pr *= 4
				}
				if r == 0 || (l > 0 && srng.Intn(pl+pr) < pl) {
					sb.WriteByte('L')
					l--
				} else {
					sb.WriteByte('R')
					r--
				}
			}
			k := kinds[srng.Intn(len(kinds))]
			judge(c, k, p, sb.String(), selftest)
			distinctSchedules[fmt.Sprintf("%s/%s", p.id, sb.String())] = struct{}{}
		}
	}
	c.Note("distinct_schedules", len(distinctSchedules))

	if !raceLeg && c.Only == "" {
		raceChild(c)
	}
	return core.FinishOpts{
		Level: "exploration",
		Rule: "case = (left script, right script, exact merge order of all messages incl. both ends of stream, join kind inner/left/right/full); scripts are valid changelogs with monotone watermarks and no late records, non-NULL keys; " +
			"all merge orders for small pairs, sampled for long ones; non-trivial = both sides non-empty and the final join result non-empty; distinct by (pair, kind, order)",
		Floor:       c.Pick(5000, 50000),
		Assumptions: []string{"hook H2 (verifhook.JoinRecv) reports every dequeue of the join's two channels; at most one message is in flight", "reference nested-loop join over consolidated inputs (own code)", "NULL join keys are C02's subject and are not generated here", "Go race detector for the child leg"},
		Exhaustive:  true,
	}
}

// raceChild runs a reduced version of this driver inside the race-detector build of the harness
// and counts the detector's reports.
func raceChild(c *core.Ctx) {
	bin := os.Getenv("VERIF_VHARNESS_RACE")
	if bin == "" {
		bin = filepath.Join(c.BinDir, "vharness-race")
	}
	if _, err := os.Stat(bin); err != nil {
		c.Inconclusive("race-build-missing")
		return
	}
	logBase := filepath.Join(c.Scratch, "race")
	cmd := exec.Command(bin, "-prop", "C19", "-tier", c.Tier, "-seed", fmt.Sprint(c.Seed), "-root", c.Root, "-only", "race-leg")
	cmd.Env = append(os.Environ(), "GORACE=halt_on_error=0 log_path="+logBase)
	var stdout, stderr bytes.Buffer
	cmd.Stdout = &stdout
	cmd.Stderr = &stderr
	done := make(chan error, 1)
	if err := cmd.Start(); err != nil {
		c.Inconclusive("race-child-start")
		return
	}
	go func() { done <- cmd.Wait() }()
	select {
	case <-done:
	case <-time.After(20 * time.Minute):
		_ = cmd.Process.Kill()
		c.Inconclusive("race-child-watchdog")
		return
	}
	reports := 0
	logs, _ := filepath.Glob(logBase + ".*")
	var first string
	for _, l := range logs {
		data, _ := os.ReadFile(l)
		n := bytes.Count(data, []byte("WARNING: DATA RACE"))
		reports += n
		if n > 0 && first == "" {
			first = string(data)
			if len(first) > 6000 {
				first = first[:6000]
			}
		}
	}
	c.Count("race_leg_reports", reports)
	evals := 0
	for _, line := range strings.Split(stdout.String(), "\n") {
		if strings.HasPrefix(line, "SUMMARY ") {
			fmt.Sscanf(line[strings.Index(line, "evaluations="):], "evaluations=%d", &evals)
		}
	}
	c.Count("race_leg_schedules", evals)
	if reports > 0 {
		c.Violation("race-in-join", fmt.Sprintf("%d data race report(s) while running controlled join schedules under the race detector", reports), map[string]interface{}{"first_report": first})
	}
	if strings.Contains(stdout.String(), "VIOLATION property=C19") {
		c.Violation("race-leg-violation", "the race-build leg reported a violation of its own", map[string]interface{}{"stdout": tail(stdout.String(), 4000)})
	}
	if evals == 0 {
		c.Inconclusive("race-leg-no-evaluations")
	}
}

func tail(s string, n int) string {
	if len(s) > n {
		return s[len(s)-n:]
	}
	return s
}

// Package c09: value ordering, equality and hashing agree.
//
// R: a triple violating reflexivity / antisymmetry / transitivity of Value.Compare (as a total
// preorder: leq(a,b) := Compare(a,b) <= 0); a pair with Compare == 0 and different Hash or
// HashManyValues; two operators disagreeing on whether two non-NULL values are equal or on how
// they order.
// O: the laws themselves; for the operator leg the verdict of every operator (=, !=, IN, NOT IN,
// <, <=, >, >=, ORDER BY, SimpleGroupBy, CustomTriggerGroupBy, Distinct node, count_distinct,
// array_agg_distinct, StreamJoin, OuterJoin, min/max) on the pair, run as real SQL through the
// real pipeline over memdb tables, against the verdict of Compare.
// W: exhaustive: all triples of the universe vals.Universe(); random: seeded triples of related
// deep values; operator leg: every ordered pair of same-kind universe values and (a sample of)
// the cross-kind pairs.
package c09

import (
	"fmt"
	"math/rand"
	"os"
	"sort"
	"strings"
	"time"

	"github.com/cube2222/octosql/octosql"
	"github.com/cube2222/octosql/physical"

	"github.com/cube2222/octosql/plugins/verifharness/core"
	"github.com/cube2222/octosql/plugins/verifharness/nodeh"
	"github.com/cube2222/octosql/plugins/verifharness/props/c09/vals"
)

func init() { core.Register("C09", Run) }

func sign(x int) int {
	switch {
	case x < 0:
		return -1
	case x > 0:
		return 1
	}
	return 0
}

// ---------------------------------------------------------------------------------------------
// law leg

type lawChecker struct {
	c        *core.Ctx
	selftest bool
}

func cmp(a, b octosql.Value) (r int, panicMsg string) {
	p, msg := core.Try(func() { r = a.Compare(b) })
	if p {
		return 0, msg
	}
	return r, ""
}

func tripleReplay(id string, vs ...octosql.Value) map[string]interface{} {
	m := map[string]interface{}{"id": id}
	for i, v := range vs {
		m[string(rune('a'+i))] = vals.Describe(v)
	}
	return m
}

var hashPrefix = octosql.NewString("p")
var hashSuffix = octosql.NewInt(7)

// checkPairLaws: reflexivity of each, sign symmetry, range, Compare==0 => equal hashes, Equal
// consistent with Compare. Returns Compare(a,b).
func (l *lawChecker) checkPairLaws(id string, a, b octosql.Value, corrupt bool) {
	c := l.c
	pfx := ""
	if corrupt {
		pfx = "selftest:"
	}
	ab, p1 := cmp(a, b)
	ba, p2 := cmp(b, a)
	if p1 != "" || p2 != "" {
		c.Violation("panic:Compare", "Compare panicked: "+p1+p2, tripleReplay(id, a, b))
		return
	}
	if corrupt {
		ab = -ab
		if ab == 0 {
			ab = 1
		}
	}
	if ab < -1 || ab > 1 {
		c.Violation(pfx+"compare-range", fmt.Sprintf("Compare = %d, the btree-based operators test == -1", ab), tripleReplay(id, a, b))
	}
	if sign(ab) != -sign(ba) {
		c.Violation(pfx+"compare-not-antisymmetric", fmt.Sprintf("Compare(a,b) = %d but Compare(b,a) = %d", ab, ba), tripleReplay(id, a, b))
	}
	c.Count("law/antisymmetry/checked", 1)
	if ab == 0 {
		c.Count("law/equal-implies-equal-hash/checked", 1)
		h1, h2 := a.Hash(), b.Hash()
		m1 := octosql.HashManyValues([]octosql.Value{a})
		m2 := octosql.HashManyValues([]octosql.Value{b})
		n1 := octosql.HashManyValues([]octosql.Value{hashPrefix, a, hashSuffix})
		n2 := octosql.HashManyValues([]octosql.Value{hashPrefix, b, hashSuffix})
		if h1 != h2 || m1 != m2 || n1 != n2 {
			key := pfx + "equal-but-hash-differs"
			switch {
			case corrupt:
			case vals.DiffersOnlyBySignedZero(a, b):
				key = "signed-zero-hash"
			case vals.ContainsNaN(a) || vals.ContainsNaN(b):
				key = "nan-compare-equal-hash-differs"
			}
			c.Violation(key, fmt.Sprintf("Compare(%s, %s) == 0 but Hash %d != %d (HashManyValues %d / %d)", vals.Describe(a), vals.Describe(b), h1, h2, m1, m2), tripleReplay(id, a, b))
		}
	}
	// Equal: Compare == 0, except that NULL is never equal to NULL
	want := ab == 0 && !(a.TypeID == octosql.TypeIDNull && b.TypeID == octosql.TypeIDNull)
	if a.Equal(b) != want {
		c.Violation(pfx+"equal-inconsistent-with-compare", fmt.Sprintf("Equal = %v, Compare = %d", a.Equal(b), ab), tripleReplay(id, a, b))
	}
}

func (l *lawChecker) checkReflexive(id string, a octosql.Value) {
	aa, p := cmp(a, a)
	if p != "" {
		l.c.Violation("panic:Compare", "Compare panicked: "+p, tripleReplay(id, a))
		return
	}
	if aa != 0 {
		l.c.Violation("compare-not-reflexive", fmt.Sprintf("Compare(a,a) = %d", aa), tripleReplay(id, a))
	}
	l.c.Count("law/reflexive/checked", 1)
}

// checkTransitive judges one ordered triple given the three comparison results.
func (l *lawChecker) checkTransitive(id string, a, b, cc octosql.Value, ab, bc, ac int, corrupt bool) {
	c := l.c
	pfx := ""
	if corrupt {
		pfx = "selftest:"
		ac = 1
		ab, bc = -1, -1
	}
	law := ""
	if ab == 0 && bc == 0 && ac != 0 {
		law = "equality is not transitive: a == b, b == c, but Compare(a,c) = " + fmt.Sprint(ac)
	} else if ab <= 0 && bc <= 0 && ac > 0 {
		law = "<= is not transitive: a <= b, b <= c, but Compare(a,c) = " + fmt.Sprint(ac)
	}
	if law == "" {
		return
	}
	key := pfx + "compare-intransitive"
	if !corrupt && (vals.ContainsNaN(a) || vals.ContainsNaN(b) || vals.ContainsNaN(cc)) {
		key = "nan-compare-intransitive"
	}
	c.Violation(key, law, tripleReplay(id, a, b, cc))
}

func (l *lawChecker) exhaustive(u []vals.Named) {
	c := l.c
	n := len(u)
	m := make([][]int, n)
	for i := range u {
		m[i] = make([]int, n)
		l.checkReflexive("refl/"+u[i].Name, u[i].V)
		for j := range u {
			r, p := cmp(u[i].V, u[j].V)
			if p != "" {
				r = 0
			}
			m[i][j] = r
		}
	}
	for i := range u {
		for j := range u {
			l.checkPairLaws("pair/"+u[i].Name+"/"+u[j].Name, u[i].V, u[j].V, l.selftest && i == 3 && j == 3)
		}
	}
	bits := make([]string, n)
	for i := range u {
		bits[i] = vals.BitKey(u[i].V)
	}
	core.Parallel(n, 16, func(i int) {
		nontriv := 0
		for j := 0; j < n; j++ {
			for k := 0; k < n; k++ {
				l.checkTransitive("triple/"+u[i].Name+"/"+u[j].Name+"/"+u[k].Name, u[i].V, u[j].V, u[k].V, m[i][j], m[j][k], m[i][k], l.selftest && i == 5 && j == 6 && k == 7)
				if u[i].V.TypeID == u[j].V.TypeID && u[j].V.TypeID == u[k].V.TypeID && bits[i] != bits[j] && bits[j] != bits[k] && bits[i] != bits[k] {
					nontriv++
					c.Nontrivial("t|" + bits[i] + "|" + bits[j] + "|" + bits[k])
				}
			}
		}
		c.Eval(n * n)
		c.Count("law/transitivity/triples", n*n)
		c.Count("law/transitivity/triples_same_kind_distinct", nontriv)
	})
	c.Note("universe_size", n)
	c.Note("exhaustive_bound", fmt.Sprintf("all %d^3 = %d ordered triples of the universe", n, n*n*n))
}

func (l *lawChecker) random(n int) {
	c := l.c
	core.Parallel(16, 16, func(w int) {
		rng := c.Rng(fmt.Sprintf("law-random-%d", w))
		o := vals.GenOpts{NaN: true, Zeros: true}
		for i := w; i < n; i += 16 {
			a := vals.Random(rng, 3, o)
			b := related(rng, a, o)
			var cc octosql.Value
			if rng.Intn(2) == 0 {
				cc = related(rng, b, o)
			} else {
				cc = related(rng, a, o)
			}
			id := fmt.Sprintf("rnd/%d", i)
			if c.Only != "" && c.Only != id {
				continue
			}
			l.checkReflexive(id, a)
			vs := [3]octosql.Value{a, b, cc}
			var m [3][3]int
			bad := false
			for x := 0; x < 3; x++ {
				for y := 0; y < 3; y++ {
					r, p := cmp(vs[x], vs[y])
					if p != "" {
						c.Violation("panic:Compare", "Compare panicked: "+p, tripleReplay(id, vs[x], vs[y]))
						bad = true
					}
					m[x][y] = r
				}
			}
			if bad {
				continue
			}
			l.checkPairLaws(id, a, b, false)
			l.checkPairLaws(id, b, cc, false)
			l.checkPairLaws(id, a, cc, false)
			for _, p := range [][3]int{{0, 1, 2}, {0, 2, 1}, {1, 0, 2}, {1, 2, 0}, {2, 0, 1}, {2, 1, 0}} {
				l.checkTransitive(id, vs[p[0]], vs[p[1]], vs[p[2]], m[p[0]][p[1]], m[p[1]][p[2]], m[p[0]][p[2]], false)
			}
			c.Eval(1)
			c.Count("law/random_triples", 1)
			if a.TypeID == b.TypeID && b.TypeID == cc.TypeID {
				c.Count("law/random_triples_same_kind", 1)
				if a.TypeID >= octosql.TypeIDList {
					c.Nontrivial("r|" + vals.BitKey(a) + "|" + vals.BitKey(b) + "|" + vals.BitKey(cc))
				}
			}
			if i < 3 {
				c.Sample(map[string]interface{}{"kind": "random-triple", "a": vals.Describe(a), "b": vals.Describe(b), "c": vals.Describe(cc),
					"compare_ab": m[0][1], "compare_bc": m[1][2], "compare_ac": m[0][2]})
			}
		}
	})
}

func related(rng *rand.Rand, v octosql.Value, o vals.GenOpts) octosql.Value {
	switch rng.Intn(6) {
	case 0:
		return vals.Random(rng, 3, o)
	case 1:
		return v
	default:
		return vals.Mutate(rng, v, o)
	}
}

// ---------------------------------------------------------------------------------------------
// operator leg

const nFillers = 70

var hashBased = map[string]bool{"simple-group-by": true, "distinct-node": true, "count_distinct": true, "array_agg_distinct": true}

type verdicts struct {
	obs  map[string]string // operator -> "lt" | "eq" | "gt" | "ne"
	errs map[string]string
}

func rec(vs ...octosql.Value) nodeh.Event { return nodeh.Rec(vs, false, time.Time{}) }

func buildDB(a, b octosql.Value) *nodeh.DB {
	j := vals.Join([]octosql.Type{vals.TypeOf(a), vals.TypeOf(b)})
	jf := vals.Join([]octosql.Type{vals.TypeOf(a), vals.TypeOf(b), octosql.Int})
	var evs []nodeh.Event
	evs = append(evs, rec(vals.I(1), a))
	for i := 0; i < nFillers; i++ {
		evs = append(evs, rec(vals.I(int64(100+i)), vals.I(int64(1000+i))))
	}
	evs = append(evs, rec(vals.I(2), b))
	idv := func(t octosql.Type) []physical.SchemaField {
		return []physical.SchemaField{{Name: "id", Type: octosql.Int}, {Name: "v", Type: t}}
	}
	return &nodeh.DB{Tables: map[string]*nodeh.Table{
		"t":  {Fields: idv(jf), TimeField: -1, NoRetractions: true, Events: evs},
		"t2": {Fields: idv(j), TimeField: -1, NoRetractions: true, Events: []nodeh.Event{evs[0], evs[len(evs)-1]}},
		"p":  {Fields: []physical.SchemaField{{Name: "x", Type: j}, {Name: "y", Type: j}}, TimeField: -1, NoRetractions: true, Events: []nodeh.Event{rec(a, b)}},
		"l":  {Fields: idv(j), TimeField: -1, NoRetractions: true, Events: []nodeh.Event{evs[0]}},
		"r":  {Fields: idv(j), TimeField: -1, NoRetractions: true, Events: []nodeh.Event{evs[len(evs)-1]}},
	}}
}

type row struct {
	vals []octosql.Value
	n    int
}

// runQuery returns the consolidated output rows in first-emission order.
func runQuery(db *nodeh.DB, sql string) ([]row, *nodeh.Planned, string) {
	p, outs, res, perr := nodeh.RunSQL(nodeh.Ctx(), sql, db, nodeh.PlanOpts{Optimize: true, Output: "stream_native"}, 30*time.Second)
	if perr != nil {
		return nil, nil, "plan: " + perr.Error()
	}
	if res.TimedOut {
		return nil, p, "watchdog"
	}
	if res.Panicked {
		return nil, p, "panic: " + res.PanicMsg + " at " + core.PanicSite(res.Stack)
	}
	if res.Err != nil {
		return nil, p, "error: " + res.Err.Error()
	}
	idx := map[string]int{}
	var rows []row
	for _, o := range outs {
		if o.IsWatermark {
			continue
		}
		var sb strings.Builder
		for _, v := range o.Record.Values {
			sb.WriteString(vals.BitKey(v))
			sb.WriteByte('|')
		}
		k := sb.String()
		i, ok := idx[k]
		if !ok {
			i = len(rows)
			idx[k] = i
			rows = append(rows, row{vals: o.Record.Values})
		}
		if o.Record.Retraction {
			rows[i].n--
		} else {
			rows[i].n++
		}
	}
	var live []row
	for _, r := range rows {
		if r.n != 0 {
			live = append(live, r)
		}
	}
	return live, p, ""
}

func hasJoinKey(n physical.Node) bool {
	switch n.NodeType {
	case physical.NodeTypeStreamJoin:
		return len(n.StreamJoin.LeftKey) == 1
	case physical.NodeTypeOuterJoin:
		return len(n.OuterJoin.LeftKey) == 1
	case physical.NodeTypeMap:
		return hasJoinKey(n.Map.Source)
	case physical.NodeTypeFilter:
		return hasJoinKey(n.Filter.Source)
	}
	return false
}

func observe(a, b octosql.Value) verdicts {
	v := verdicts{obs: map[string]string{}, errs: map[string]string{}}
	db := buildDB(a, b)
	eqne := func(eq bool) string {
		if eq {
			return "eq"
		}
		return "ne"
	}
	// scalar operators
	if rows, _, e := runQuery(db, "SELECT x = y AS eq, x != y AS ne, x IN (y, y) AS inn, x NOT IN (y, y) AS nin, x < y AS lt, x <= y AS le, x > y AS gt, x >= y AS ge FROM m.p"); e != "" {
		v.errs["scalar"] = e
	} else if len(rows) != 1 || len(rows[0].vals) != 8 {
		v.errs["scalar"] = fmt.Sprintf("unexpected shape: %d rows", len(rows))
	} else {
		r := rows[0].vals
		bad := false
		for _, x := range r {
			if x.TypeID != octosql.TypeIDBoolean {
				bad = true
			}
		}
		if bad {
			v.errs["scalar"] = "non-boolean result"
		} else {
			v.obs["="] = eqne(r[0].Boolean)
			v.obs["!="] = eqne(!r[1].Boolean)
			v.obs["IN"] = eqne(r[2].Boolean)
			v.obs["NOT IN"] = eqne(!r[3].Boolean)
			lt, le, gt, ge := r[4].Boolean, r[5].Boolean, r[6].Boolean, r[7].Boolean
			switch {
			case lt && le && !gt && !ge:
				v.obs["< <= > >="] = "lt"
			case !lt && le && !gt && ge:
				v.obs["< <= > >="] = "eq"
			case !lt && !le && gt && ge:
				v.obs["< <= > >="] = "gt"
			default:
				v.obs["< <= > >="] = fmt.Sprintf("inconsistent(<%v <=%v >%v >=%v)", lt, le, gt, ge)
			}
		}
	}
	// group-bys: which ids share the group of id 1
	group := func(name, sql string) {
		rows, _, e := runQuery(db, sql)
		if e != "" {
			v.errs[name] = e
			return
		}
		if len(rows) != nFillers+1 && len(rows) != nFillers+2 {
			v.obs[name] = fmt.Sprintf("unexpected(%d groups)", len(rows))
			return
		}
		for _, r := range rows {
			if r.vals[2].Int == 1 { // lo
				v.obs[name] = eqne(r.vals[3].Int == 2 && r.vals[1].Int == 2)
			}
		}
		if len(rows) == nFillers+1 && v.obs[name] != "eq" || len(rows) == nFillers+2 && v.obs[name] != "ne" {
			v.obs[name] = fmt.Sprintf("unexpected(%d groups, %s)", len(rows), v.obs[name])
		}
	}
	group("simple-group-by", "SELECT v, count(id) AS c, min(id) AS lo, max(id) AS hi FROM m.t GROUP BY v")
	group("trigger-group-by", "SELECT v, count(id) AS c, min(id) AS lo, max(id) AS hi FROM m.t GROUP BY v TRIGGER COUNTING 1000")
	// distinct node
	if rows, _, e := runQuery(db, "SELECT DISTINCT v FROM m.t"); e != "" {
		v.errs["distinct-node"] = e
	} else {
		n := 0
		for _, r := range rows {
			n += r.n
		}
		switch n - nFillers {
		case 1:
			v.obs["distinct-node"] = "eq"
		case 2:
			v.obs["distinct-node"] = "ne"
		default:
			v.obs["distinct-node"] = fmt.Sprintf("unexpected(%d rows)", n)
		}
	}
	// distinct aggregates
	if rows, _, e := runQuery(db, "SELECT count(DISTINCT v) AS c, array_agg(DISTINCT v) AS arr FROM m.t"); e != "" {
		v.errs["count_distinct"] = e
	} else if len(rows) != 1 {
		v.errs["count_distinct"] = "unexpected shape"
	} else {
		for i, name := range []string{"count_distinct", "array_agg_distinct"} {
			n := int(rows[0].vals[0].Int)
			if i == 1 {
				n = len(rows[0].vals[1].List)
			}
			switch n - nFillers {
			case 1:
				v.obs[name] = "eq"
			case 2:
				v.obs[name] = "ne"
			default:
				v.obs[name] = fmt.Sprintf("unexpected(%d)", n)
			}
		}
	}
	// order by: tie-break on id ascending and descending
	first := func(sql string) (int64, string) {
		rows, _, e := runQuery(db, sql)
		if e != "" {
			return 0, e
		}
		if len(rows) != 2 {
			return 0, "unexpected shape"
		}
		return rows[0].vals[0].Int, ""
	}
	f1, e1 := first("SELECT id, v FROM m.t2 ORDER BY v, id")
	f2, e2 := first("SELECT id, v FROM m.t2 ORDER BY v, id DESC")
	switch {
	case e1 != "" || e2 != "":
		v.errs["order-by"] = e1 + e2
	case f1 == 1 && f2 == 1:
		v.obs["order-by"] = "lt"
	case f1 == 1 && f2 == 2:
		v.obs["order-by"] = "eq"
	case f1 == 2 && f2 == 2:
		v.obs["order-by"] = "gt"
	default:
		v.obs["order-by"] = "inconsistent"
	}
	// joins
	if rows, p, e := runQuery(db, "SELECT l.id AS lid, r.id AS rid FROM m.l l JOIN m.r r ON l.v = r.v"); e != "" {
		v.errs["stream-join"] = e
	} else if !hasJoinKey(p.Physical) {
		v.errs["stream-join"] = "plan has no stream join key"
	} else {
		v.obs["stream-join"] = eqne(len(rows) == 1)
		if len(rows) > 1 {
			v.obs["stream-join"] = "unexpected"
		}
	}
	if rows, p, e := runQuery(db, "SELECT l.id AS lid, r.id AS rid FROM m.l l LEFT JOIN m.r r ON l.v = r.v"); e != "" {
		v.errs["outer-join"] = e
	} else if !hasJoinKey(p.Physical) {
		v.errs["outer-join"] = "plan has no outer join key"
	} else if len(rows) != 1 {
		v.obs["outer-join"] = "unexpected"
	} else {
		v.obs["outer-join"] = eqne(rows[0].vals[1].TypeID == octosql.TypeIDInt)
	}
	// min / max
	if a.TypeID == b.TypeID && (a.TypeID == octosql.TypeIDInt || a.TypeID == octosql.TypeIDFloat || a.TypeID == octosql.TypeIDDuration || a.TypeID == octosql.TypeIDTime) {
		sql := "SELECT min(v) AS mn, max(v) AS mx FROM m.t2"
		name := "min/max"
		if a.TypeID == octosql.TypeIDTime {
			sql = "SELECT max(v) AS mn, max(v) AS mx FROM m.t2"
			name = "max"
		}
		if rows, _, e := runQuery(db, sql); e != "" {
			v.errs[name] = e
		} else if len(rows) != 1 {
			v.errs[name] = "unexpected shape"
		} else {
			mn, mx := vals.BitKey(rows[0].vals[0]), vals.BitKey(rows[0].vals[1])
			ka, kb := vals.BitKey(a), vals.BitKey(b)
			switch {
			case name == "max" && ka == kb:
				v.obs[name] = "eq"
			case name == "max" && mx == kb:
				v.obs[name] = "lt-or-eq"
			case name == "max" && mx == ka:
				v.obs[name] = "gt-or-eq"
			case mn == mx && (mn == ka || mn == kb):
				v.obs[name] = "eq"
			case mn == ka && mx == kb:
				v.obs[name] = "lt"
			case mn == kb && mx == ka:
				v.obs[name] = "gt"
			default:
				v.obs[name] = "unexpected(" + vals.Describe(rows[0].vals[0]) + "," + vals.Describe(rows[0].vals[1]) + ")"
			}
		}
	}
	return v
}

func agrees(obs string, s int) bool {
	switch obs {
	case "eq":
		return s == 0
	case "ne":
		return s != 0
	case "lt":
		return s < 0
	case "gt":
		return s > 0
	case "lt-or-eq":
		return s <= 0
	case "gt-or-eq":
		return s >= 0
	}
	return false
}

func (l *lawChecker) operatorPair(id string, na, nb vals.Named, corrupt bool) {
	c := l.c
	a, b := na.V, nb.V
	c.LogCase(id, na.Name, " vs ", nb.Name)
	s, p := cmp(a, b)
	if p != "" {
		return // reported by the law leg
	}
	s = sign(s)
	v := observe(a, b)
	c.Eval(1)
	pfx := ""
	if corrupt {
		pfx = "selftest:"
		v.obs["="] = map[bool]string{true: "ne", false: "eq"}[v.obs["="] == "eq"]
	}
	ops := make([]string, 0, len(v.obs))
	for k := range v.obs {
		ops = append(ops, k)
	}
	sort.Strings(ops)
	var dissent []string
	allHashNe := true
	for _, op := range ops {
		c.Count("operator/"+op, 1)
		if !agrees(v.obs[op], s) {
			dissent = append(dissent, op+"="+v.obs[op])
			if !(hashBased[op] && v.obs[op] == "ne") {
				allHashNe = false
			}
		}
	}
	enames := make([]string, 0, len(v.errs))
	for k := range v.errs {
		enames = append(enames, k)
	}
	sort.Strings(enames)
	replay := map[string]interface{}{"id": id, "a": vals.Describe(a), "b": vals.Describe(b), "compare": s, "observed": v.obs, "errors": v.errs}
	for _, k := range enames {
		e := v.errs[k]
		switch {
		case e == "watchdog":
			c.Inconclusive("watchdog")
		case strings.HasPrefix(e, "panic: "):
			c.Violation("operator-panic:"+k+":"+e[strings.LastIndex(e, " at ")+4:], k+" over the pair: "+e, replay)
		default:
			c.Count("operator_not_applicable/"+k, 1)
			c.Violation("operator-error:"+k, k+" over the pair failed: "+e, replay)
		}
	}
	if len(dissent) > 0 {
		key := pfx + "operators-disagree:" + strings.Join(dissent, ",")
		if !corrupt && s == 0 && allHashNe {
			switch {
			case vals.DiffersOnlyBySignedZero(a, b):
				key = "signed-zero-hash"
			case vals.ContainsNaN(a) || vals.ContainsNaN(b):
				key = "nan-compare-equal-hash-differs"
			}
		}
		c.Violation(key, fmt.Sprintf("Compare(%s, %s) = %d but %s (all verdicts: %v)", vals.Describe(a), vals.Describe(b), s, strings.Join(dissent, ", "), v.obs), replay)
	}
	if a.TypeID == b.TypeID && vals.BitKey(a) != vals.BitKey(b) {
		c.Nontrivial("op|" + vals.BitKey(a) + "|" + vals.BitKey(b))
		c.Count("operator_pairs/same_kind_distinct", 1)
	} else if a.TypeID == b.TypeID {
		c.Count("operator_pairs/identical", 1)
	} else {
		c.Count("operator_pairs/cross_kind", 1)
	}
	if na.Name == "1.0" || (na.Name == "[1]" && nb.Name == "[1,2]") {
		if nb.Name == "2.0" || nb.Name == "[1,2]" {
			c.Sample(map[string]interface{}{"kind": "operator-pair", "a": na.Name, "b": nb.Name, "compare": s, "observed": v.obs})
		}
	}
}

func Run(c *core.Ctx) core.FinishOpts {
	l := &lawChecker{c: c, selftest: os.Getenv("VERIF_SELFTEST") == "1"}
	u := vals.Universe()
	t0 := time.Now()
	if c.Only == "" || !strings.HasPrefix(c.Only, "op") {
		l.exhaustive(u)
		c.Note("wall_exhaustive_s", time.Since(t0).Seconds())
		t0 = time.Now()
		l.random(c.Pick(60000, 1000000))
		c.Note("wall_random_s", time.Since(t0).Seconds())
	}
	t0 = time.Now()

	// operator leg: ordered pairs of non-NULL values
	type pair struct{ i, j int }
	var pairs []pair
	crossEvery := c.Pick(6, 1)
	cross := 0
	for i := range u {
		for j := range u {
			if u[i].V.TypeID == octosql.TypeIDNull || u[j].V.TypeID == octosql.TypeIDNull {
				continue
			}
			if u[i].V.TypeID == u[j].V.TypeID {
				// quick tier: one order per pair, both orders where Compare says equal although the
				// bits differ (the first-inserted value decides what tree- and hash-based operators keep)
				if c.Tier != "thorough" && i > j {
					if r, _ := cmp(u[i].V, u[j].V); r != 0 || vals.BitKey(u[i].V) == vals.BitKey(u[j].V) {
						continue
					}
				}
				pairs = append(pairs, pair{i, j})
			} else if i < j {
				cross++
				if cross%crossEvery == 0 {
					pairs = append(pairs, pair{i, j})
				}
			}
		}
	}
	c.Note("operator_pairs", len(pairs))
	core.Parallel(len(pairs), 16, func(pi int) {
		p := pairs[pi]
		id := "op/" + u[p.i].Name + "/" + u[p.j].Name
		if c.Only != "" && c.Only != id {
			return
		}
		l.operatorPair(id, u[p.i], u[p.j], l.selftest && pi%500 == 7)
	})
	// random deep pairs through the same operator leg
	nr := c.Pick(40, 800)
	rr := c.Rng("operator-random")
	o := vals.GenOpts{NaN: true, Zeros: true}
	var rps [][2]vals.Named
	for guard := 0; len(rps) < nr && guard < nr*50; guard++ {
		a := vals.Random(rr, 2, o)
		if a.TypeID == octosql.TypeIDNull {
			continue
		}
		var b octosql.Value
		if rr.Intn(5) == 0 {
			b = a
		} else {
			b = vals.Mutate(rr, a, o)
		}
		if b.TypeID == octosql.TypeIDNull {
			continue
		}
		rps = append(rps, [2]vals.Named{{Name: vals.Describe(a), V: a}, {Name: vals.Describe(b), V: b}})
	}
	core.Parallel(len(rps), 16, func(pi int) {
		id := fmt.Sprintf("opr/%d", pi)
		if c.Only != "" && c.Only != id {
			return
		}
		l.operatorPair(id, rps[pi][0], rps[pi][1], false)
		c.Count("operator_pairs/random_deep", 1)
	})
	c.Note("wall_operators_s", time.Since(t0).Seconds())
	return core.FinishOpts{
		Level: "exploration",
		Rule: "law leg: all ordered triples of the value universe (exhaustive) plus seeded random triples of related deep values; operator leg: every ordered pair of same-kind non-NULL universe values (quick: one order, both orders when Compare==0 with different bits) and every (quick: every 6th) cross-kind pair, " +
			"each run through 11 SQL queries over memdb tables (70 filler keys between the two rows so hash tables grow past their initial size); non-trivial = three (two) bit-distinct values of the same kind; distinct by value bits",
		Floor:       c.Pick(10000, 60000),
		Assumptions: []string{"oracle: the order laws and agreement of every operator's verdict with Compare's", "memdb tables declare the harness' own type of the values", "Go toolchain"},
		Exhaustive:  true,
	}
}

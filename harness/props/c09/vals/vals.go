// Package vals holds the value universe and the value-level helpers shared by the C09, C10 and C14
// drivers: an exhaustive small universe of octosql values, a random deep-value generator, a
// bit-exact identity, own (independent of octosql.Value.Type / Compare / Hash) type-of and
// matches(value, type), and input predicates used to key findings (contains NaN, differs only by
// the sign of float zeros).
package vals

import (
	"fmt"
	"math"
	"math/rand"
	"strconv"
	"strings"
	"time"

	"github.com/cube2222/octosql/octosql"
)

type Named struct {
	Name string
	V    octosql.Value
}

// NaN2 is a NaN with a payload and sign different from math.NaN().
var NaN2 = math.Float64frombits(0xfff8000000000001)

var instant = time.Date(2021, 3, 4, 5, 6, 7, 123456789, time.UTC)

func n(name string, v octosql.Value) Named { return Named{name, v} }

func I(x int64) octosql.Value   { return octosql.NewInt(x) }
func F(x float64) octosql.Value { return octosql.NewFloat(x) }
func S(x string) octosql.Value  { return octosql.NewString(x) }
func L(x ...octosql.Value) octosql.Value {
	if x == nil {
		x = []octosql.Value{}
	}
	return octosql.NewList(x)
}
func O(x ...octosql.Value) octosql.Value {
	if x == nil {
		x = []octosql.Value{}
	}
	return octosql.NewStruct(x)
}
func T(x ...octosql.Value) octosql.Value {
	if x == nil {
		x = []octosql.Value{}
	}
	return octosql.NewTuple(x)
}

// Universe returns the exhaustive universe U (the same list in the same order on every call).
func Universe() []Named {
	null := octosql.NewNull()
	negZero := math.Copysign(0, -1)
	east := time.FixedZone("east", 2*3600)
	west := time.FixedZone("west", -5*3600-1800)
	far := time.Date(3000, 1, 1, 0, 0, 0, 0, time.UTC)
	u := []Named{
		n("NULL", null),
		// Int
		n("0", I(0)), n("1", I(1)), n("-1", I(-1)), n("2", I(2)),
		n("minint", I(math.MinInt64)), n("maxint", I(math.MaxInt64)), n("2^53+1", I(1<<53+1)),
		// Float
		n("+0.0", F(0)), n("-0.0", F(negZero)), n("1.0", F(1)), n("-1.0", F(-1)), n("0.5", F(0.5)),
		n("2.0", F(2)), n("1e-300", F(1e-300)), n("1e300", F(1e300)), n("maxfloat", F(math.MaxFloat64)),
		n("denormal", F(math.SmallestNonzeroFloat64)), n("+Inf", F(math.Inf(1))), n("-Inf", F(math.Inf(-1))),
		n("NaN", F(math.NaN())), n("NaN2", F(NaN2)), n("2^53f", F(1<<53)),
		// Boolean
		n("false", octosql.NewBoolean(false)), n("true", octosql.NewBoolean(true)),
		// String
		n("''", S("")), n("'a'", S("a")), n("'A'", S("A")), n("'ab'", S("ab")), n("'b'", S("b")), n("'B'", S("B")),
		n("'a\\x00'", S("a\x00")), n("'a '", S("a ")), n("'\\xff'", S("\xff")), n("'\\xc3('", S("\xc3\x28")),
		n("'é'", S("é")), n("'É'", S("É")), n("'1'", S("1")),
		// Time: the same instant in three locations, neighbours, zero, pre-epoch, beyond UnixNano
		n("t@utc", octosql.NewTime(instant)), n("t@east", octosql.NewTime(instant.In(east))), n("t@west", octosql.NewTime(instant.In(west))),
		n("t@local", octosql.NewTime(instant.In(time.Local))),
		n("t+1ns", octosql.NewTime(instant.Add(1))), n("t-1s", octosql.NewTime(instant.Add(-time.Second))),
		n("t0", octosql.NewTime(time.Time{})), n("t1960", octosql.NewTime(time.Date(1960, 1, 1, 0, 0, 0, 0, time.UTC))),
		n("t3000@utc", octosql.NewTime(far)), n("t3000@east", octosql.NewTime(far.In(east))),
		// Duration
		n("0s", octosql.NewDuration(0)), n("1ns", octosql.NewDuration(1)), n("-1ns", octosql.NewDuration(-1)),
		n("1s", octosql.NewDuration(time.Second)), n("maxdur", octosql.NewDuration(math.MaxInt64)), n("mindur", octosql.NewDuration(math.MinInt64)),
		// List
		n("[]", L()), n("[NULL]", L(null)), n("[1]", L(I(1))), n("[2]", L(I(2))), n("[1,2]", L(I(1), I(2))), n("[1,1]", L(I(1), I(1))),
		n("[[1]]", L(L(I(1)))), n("[[]]", L(L())), n("[+0.0]", L(F(0))), n("[-0.0]", L(F(negZero))), n("[NaN]", L(F(math.NaN()))),
		n("[1.0]", L(F(1))), n("[2.0]", L(F(2))), n("['a']", L(S("a"))), n("[1,'a']", L(I(1), S("a"))), n("[NULL,1]", L(null, I(1))),
		n("[-0.0,1.0]", L(F(negZero), F(1))), n("[+0.0,1.0]", L(F(0), F(1))), n("[NaN,2.0]", L(F(math.NaN()), F(2))), n("[1.0,3.0]", L(F(1), F(3))),
		// Object (fields are positional in a value)
		n("{}", O()), n("{1}", O(I(1))), n("{2}", O(I(2))), n("{1,'a'}", O(I(1), S("a"))), n("{NULL}", O(null)),
		n("{+0.0}", O(F(0))), n("{-0.0}", O(F(negZero))), n("{NaN}", O(F(math.NaN()))), n("{1.0}", O(F(1))), n("{{1}}", O(O(I(1)))), n("{[1]}", O(L(I(1)))),
		// Tuple
		n("()", T()), n("(1)", T(I(1))), n("(2)", T(I(2))), n("(1,2)", T(I(1), I(2))), n("(NULL)", T(null)), n("(1,'a')", T(I(1), S("a"))),
		n("((1))", T(T(I(1)))), n("(+0.0)", T(F(0))), n("(-0.0)", T(F(negZero))), n("(NaN)", T(F(math.NaN()))), n("(1.0)", T(F(1))), n("({1},[1])", T(O(I(1)), L(I(1)))),
	}
	return u
}

// BitKey is a bit-exact identity: floats by their bits, times by instant AND zone offset, strings
// by their bytes. Two values with the same BitKey are indistinguishable to any operator.
func BitKey(v octosql.Value) string {
	var sb strings.Builder
	bitKey(&sb, v)
	return sb.String()
}

func bitKey(sb *strings.Builder, v octosql.Value) {
	switch v.TypeID {
	case octosql.TypeIDNull:
		sb.WriteString("NULL")
	case octosql.TypeIDInt:
		sb.WriteString("i")
		sb.WriteString(strconv.FormatInt(v.Int, 10))
	case octosql.TypeIDFloat:
		sb.WriteString("f")
		sb.WriteString(strconv.FormatUint(math.Float64bits(v.Float), 16))
	case octosql.TypeIDBoolean:
		sb.WriteString(strconv.FormatBool(v.Boolean))
	case octosql.TypeIDString:
		sb.WriteString(strconv.Quote(v.Str))
	case octosql.TypeIDTime:
		_, off := v.Time.Zone()
		fmt.Fprintf(sb, "t%d.%d%+d", v.Time.Unix(), v.Time.Nanosecond(), off)
	case octosql.TypeIDDuration:
		sb.WriteString("d")
		sb.WriteString(strconv.FormatInt(int64(v.Duration), 10))
	case octosql.TypeIDList:
		seq(sb, "[", "]", v.List)
	case octosql.TypeIDStruct:
		seq(sb, "{", "}", v.Struct)
	case octosql.TypeIDTuple:
		seq(sb, "(", ")", v.Tuple)
	default:
		fmt.Fprintf(sb, "?%d", int(v.TypeID))
	}
}

func seq(sb *strings.Builder, open, cl string, vs []octosql.Value) {
	sb.WriteString(open)
	for i := range vs {
		if i > 0 {
			sb.WriteString(",")
		}
		bitKey(sb, vs[i])
	}
	sb.WriteString(cl)
}

// Describe renders a value unambiguously for replays and witnesses.
func Describe(v octosql.Value) string {
	var sb strings.Builder
	describe(&sb, v)
	return sb.String()
}

func describe(sb *strings.Builder, v octosql.Value) {
	switch v.TypeID {
	case octosql.TypeIDNull:
		sb.WriteString("NULL")
	case octosql.TypeIDInt:
		fmt.Fprintf(sb, "Int(%d)", v.Int)
	case octosql.TypeIDFloat:
		switch {
		case math.IsNaN(v.Float):
			fmt.Fprintf(sb, "Float(NaN bits=%#x)", math.Float64bits(v.Float))
		case v.Float == 0 && math.Signbit(v.Float):
			sb.WriteString("Float(-0.0)")
		case v.Float == 0:
			sb.WriteString("Float(+0.0)")
		default:
			fmt.Fprintf(sb, "Float(%s)", strconv.FormatFloat(v.Float, 'g', -1, 64))
		}
	case octosql.TypeIDBoolean:
		fmt.Fprintf(sb, "Boolean(%v)", v.Boolean)
	case octosql.TypeIDString:
		fmt.Fprintf(sb, "String(%q)", v.Str)
	case octosql.TypeIDTime:
		if v.Time.IsZero() {
			sb.WriteString("Time(zero)")
		} else {
			fmt.Fprintf(sb, "Time(%s)", v.Time.Format(time.RFC3339Nano))
		}
	case octosql.TypeIDDuration:
		fmt.Fprintf(sb, "Duration(%dns)", int64(v.Duration))
	case octosql.TypeIDList:
		dseq(sb, "[", "]", v.List)
	case octosql.TypeIDStruct:
		dseq(sb, "{", "}", v.Struct)
	case octosql.TypeIDTuple:
		dseq(sb, "(", ")", v.Tuple)
	default:
		fmt.Fprintf(sb, "?%d", int(v.TypeID))
	}
}

func dseq(sb *strings.Builder, open, cl string, vs []octosql.Value) {
	sb.WriteString(open)
	for i := range vs {
		if i > 0 {
			sb.WriteString(", ")
		}
		describe(sb, vs[i])
	}
	sb.WriteString(cl)
}

func children(v octosql.Value) []octosql.Value {
	switch v.TypeID {
	case octosql.TypeIDList:
		return v.List
	case octosql.TypeIDStruct:
		return v.Struct
	case octosql.TypeIDTuple:
		return v.Tuple
	}
	return nil
}

// ContainsNaN reports whether v is, or contains at any depth, a NaN float.
func ContainsNaN(v octosql.Value) bool {
	if v.TypeID == octosql.TypeIDFloat {
		return math.IsNaN(v.Float)
	}
	for _, c := range children(v) {
		if ContainsNaN(c) {
			return true
		}
	}
	return false
}

// ContainsFloat reports whether v is or contains a Float.
func ContainsFloat(v octosql.Value) bool {
	if v.TypeID == octosql.TypeIDFloat {
		return true
	}
	for _, c := range children(v) {
		if ContainsFloat(c) {
			return true
		}
	}
	return false
}

// ContainsStruct reports whether v is or contains an object with at least one non-NULL field.
func ContainsStructWithNonNullField(v octosql.Value) bool {
	if v.TypeID == octosql.TypeIDStruct {
		for _, f := range v.Struct {
			if f.TypeID != octosql.TypeIDNull {
				return true
			}
		}
	}
	for _, c := range children(v) {
		if ContainsStructWithNonNullField(c) {
			return true
		}
	}
	return false
}

// DiffersOnlyBySignedZero: a and b have the same shape and the same leaves bit for bit, except
// that at one or more float leaves one holds +0.0 and the other -0.0 (and there is at least one
// such leaf). Times must denote the same instant (the location is not a value difference).
func DiffersOnlyBySignedZero(a, b octosql.Value) bool {
	n := 0
	return sameExceptZeros(a, b, &n) && n > 0
}

func sameExceptZeros(a, b octosql.Value, n *int) bool {
	if a.TypeID != b.TypeID {
		return false
	}
	switch a.TypeID {
	case octosql.TypeIDFloat:
		if math.Float64bits(a.Float) == math.Float64bits(b.Float) {
			return true
		}
		if a.Float == 0 && b.Float == 0 {
			*n++
			return true
		}
		return false
	case octosql.TypeIDList, octosql.TypeIDStruct, octosql.TypeIDTuple:
		ca, cb := children(a), children(b)
		if len(ca) != len(cb) {
			return false
		}
		for i := range ca {
			if !sameExceptZeros(ca[i], cb[i], n) {
				return false
			}
		}
		return true
	case octosql.TypeIDTime:
		return a.Time.Equal(b.Time)
	default:
		return BitKey(a) == BitKey(b)
	}
}

// ---------------------------------------------------------------------------------------------
// own type-of and matches

func ListOf(t octosql.Type) octosql.Type {
	return octosql.Type{TypeID: octosql.TypeIDList, List: struct{ Element *octosql.Type }{Element: &t}}
}

func EmptyList() octosql.Type { return octosql.Type{TypeID: octosql.TypeIDList} }

func ObjectOf(fields ...octosql.StructField) octosql.Type {
	if fields == nil {
		fields = []octosql.StructField{}
	}
	return octosql.Type{TypeID: octosql.TypeIDStruct, Struct: struct{ Fields []octosql.StructField }{Fields: fields}}
}

func TupleOf(elems ...octosql.Type) octosql.Type {
	if elems == nil {
		elems = []octosql.Type{}
	}
	return octosql.Type{TypeID: octosql.TypeIDTuple, Tuple: struct{ Elements []octosql.Type }{Elements: elems}}
}

func Field(name string, t octosql.Type) octosql.StructField {
	return octosql.StructField{Name: name, Type: t}
}

// UnionOf builds a union in octosql's normal form (alternatives sorted by type id, one per id is
// the caller's business) without going through TypeSum.
func UnionOf(alts ...octosql.Type) octosql.Type {
	return octosql.Type{TypeID: octosql.TypeIDUnion, Union: struct{ Alternatives []octosql.Type }{Alternatives: alts}}
}

// Matches is the harness' own definition of "value v is an instance of type t".
func Matches(v octosql.Value, t octosql.Type) bool {
	switch t.TypeID {
	case octosql.TypeIDAny:
		return true
	case octosql.TypeIDUnion:
		for _, a := range t.Union.Alternatives {
			if Matches(v, a) {
				return true
			}
		}
		return false
	case octosql.TypeIDList:
		if v.TypeID != octosql.TypeIDList {
			return false
		}
		if t.List.Element == nil {
			return len(v.List) == 0
		}
		for _, e := range v.List {
			if !Matches(e, *t.List.Element) {
				return false
			}
		}
		return true
	case octosql.TypeIDStruct:
		if v.TypeID != octosql.TypeIDStruct || len(v.Struct) != len(t.Struct.Fields) {
			return false
		}
		for i := range v.Struct {
			if !Matches(v.Struct[i], t.Struct.Fields[i].Type) {
				return false
			}
		}
		return true
	case octosql.TypeIDTuple:
		if v.TypeID != octosql.TypeIDTuple || len(v.Tuple) != len(t.Tuple.Elements) {
			return false
		}
		for i := range v.Tuple {
			if !Matches(v.Tuple[i], t.Tuple.Elements[i]) {
				return false
			}
		}
		return true
	default:
		return v.TypeID == t.TypeID
	}
}

// WhyNot names the innermost reason why v does not match t ("" if it matches):
// object-arity, object-field, tuple-arity, list-element, empty-list-type, type-id.
func WhyNot(v octosql.Value, t octosql.Type) string {
	if Matches(v, t) {
		return ""
	}
	switch t.TypeID {
	case octosql.TypeIDUnion:
		// the reason under the alternative with the same type id, if any
		for _, a := range t.Union.Alternatives {
			if a.TypeID == v.TypeID {
				return WhyNot(v, a)
			}
		}
		return "type-id"
	case octosql.TypeIDList:
		if v.TypeID != octosql.TypeIDList {
			return "type-id"
		}
		if t.List.Element == nil {
			return "empty-list-type"
		}
		for _, e := range v.List {
			if w := WhyNot(e, *t.List.Element); w != "" {
				return w
			}
		}
	case octosql.TypeIDStruct:
		if v.TypeID != octosql.TypeIDStruct {
			return "type-id"
		}
		if len(v.Struct) != len(t.Struct.Fields) {
			return "object-arity"
		}
		for i := range v.Struct {
			if !Matches(v.Struct[i], t.Struct.Fields[i].Type) {
				// is the declared field type the zero Type (NULL, no name)? that is the Value.Type() slip
				f := t.Struct.Fields[i]
				if f.Name == "" && f.Type.TypeID == octosql.TypeIDNull {
					return "object-field-null-typed"
				}
				return WhyNot(v.Struct[i], f.Type)
			}
		}
	case octosql.TypeIDTuple:
		if v.TypeID != octosql.TypeIDTuple {
			return "type-id"
		}
		if len(v.Tuple) != len(t.Tuple.Elements) {
			return "tuple-arity"
		}
		for i := range v.Tuple {
			if w := WhyNot(v.Tuple[i], t.Tuple.Elements[i]); w != "" {
				return w
			}
		}
	}
	return "type-id"
}

// TypeOf is the harness' own most specific type of a value (object fields are named f0, f1, ...).
// Unions are built by hand (sorted by type id, one alternative per id; same-id alternatives are
// merged only when identical, otherwise the element type becomes Any), so it does not depend on
// TypeSum.
func TypeOf(v octosql.Value) octosql.Type {
	switch v.TypeID {
	case octosql.TypeIDList:
		if len(v.List) == 0 {
			return EmptyList()
		}
		ts := make([]octosql.Type, len(v.List))
		for i := range v.List {
			ts[i] = TypeOf(v.List[i])
		}
		return ListOf(Join(ts))
	case octosql.TypeIDStruct:
		fs := make([]octosql.StructField, len(v.Struct))
		for i := range v.Struct {
			fs[i] = Field("f"+strconv.Itoa(i), TypeOf(v.Struct[i]))
		}
		return ObjectOf(fs...)
	case octosql.TypeIDTuple:
		es := make([]octosql.Type, len(v.Tuple))
		for i := range v.Tuple {
			es[i] = TypeOf(v.Tuple[i])
		}
		return TupleOf(es...)
	}
	return octosql.Type{TypeID: v.TypeID}
}

// Join returns a type every ts[i] is an instance-subset of: the type itself if all are
// structurally identical, a sorted union if the type ids are distinct, Any otherwise.
func Join(ts []octosql.Type) octosql.Type {
	var distinct []octosql.Type
	for _, t := range ts {
		dup := false
		for _, d := range distinct {
			if d.String() == t.String() && d.TypeID == t.TypeID {
				dup = true
			}
		}
		if !dup {
			distinct = append(distinct, t)
		}
	}
	if len(distinct) == 1 {
		return distinct[0]
	}
	seen := map[octosql.TypeID]bool{}
	for _, d := range distinct {
		if seen[d.TypeID] || d.TypeID == octosql.TypeIDUnion || d.TypeID == octosql.TypeIDAny {
			return octosql.Any
		}
		seen[d.TypeID] = true
	}
	// insertion sort by type id
	for i := 1; i < len(distinct); i++ {
		for j := i; j > 0 && distinct[j].TypeID < distinct[j-1].TypeID; j-- {
			distinct[j], distinct[j-1] = distinct[j-1], distinct[j]
		}
	}
	return UnionOf(distinct...)
}

// ---------------------------------------------------------------------------------------------
// random deep values

var intPool = []int64{0, 1, -1, 2, 3, 7, math.MinInt64, math.MaxInt64, 1 << 31, -(1 << 31), 1<<53 + 1, -(1<<53 + 1)}
var floatPool = []float64{0, math.Copysign(0, -1), 1, -1, 0.5, 2, 1e-300, 1e300, math.Inf(1), math.Inf(-1), math.NaN(), NaN2, 1 << 53, math.MaxFloat64, math.SmallestNonzeroFloat64}
var strPool = []string{"", "a", "A", "ab", "b", "a\x00", "a ", "\xff", "\xc3\x28", "é", "É", "日", "😀", "1", "%", "_"}
var durPool = []time.Duration{0, 1, -1, time.Second, time.Hour, math.MaxInt64, math.MinInt64}

type GenOpts struct {
	NaN    bool // allow NaN floats
	Zeros  bool // allow -0.0
	MaxLen int  // max children per container (default 3)
}

func locs() []*time.Location {
	return []*time.Location{time.UTC, time.FixedZone("east", 7200), time.FixedZone("west", -19800), time.Local}
}

// Random returns a random value of depth <= depth.
func Random(rng *rand.Rand, depth int, o GenOpts) octosql.Value {
	if o.MaxLen == 0 {
		o.MaxLen = 3
	}
	k := rng.Intn(10)
	if depth <= 0 && k >= 7 {
		k = rng.Intn(7)
	}
	switch k {
	case 0:
		return octosql.NewNull()
	case 1:
		return I(intPool[rng.Intn(len(intPool))])
	case 2:
		for i := 0; i < 100; i++ {
			f := floatPool[rng.Intn(len(floatPool))]
			if math.IsNaN(f) && !o.NaN {
				continue
			}
			if f == 0 && math.Signbit(f) && !o.Zeros {
				continue
			}
			return F(f)
		}
		return F(1)
	case 3:
		return octosql.NewBoolean(rng.Intn(2) == 0)
	case 4:
		return S(strPool[rng.Intn(len(strPool))])
	case 5:
		ls := locs()
		t := instant.Add(time.Duration(rng.Intn(3)-1) * time.Duration([]int64{1, 1e9, 86400e9}[rng.Intn(3)]))
		return octosql.NewTime(t.In(ls[rng.Intn(len(ls))]))
	case 6:
		return octosql.NewDuration(durPool[rng.Intn(len(durPool))])
	default:
		nn := rng.Intn(o.MaxLen + 1)
		cs := make([]octosql.Value, nn)
		for i := range cs {
			cs[i] = Random(rng, depth-1, o)
		}
		switch k {
		case 7:
			return octosql.NewList(cs)
		case 8:
			return octosql.NewStruct(cs)
		default:
			return octosql.NewTuple(cs)
		}
	}
}

// Mutate returns a value close to v: one leaf replaced by a neighbour of the same type, one child
// dropped/added/duplicated, or (rarely) a fresh value.
func Mutate(rng *rand.Rand, v octosql.Value, o GenOpts) octosql.Value {
	cs := children(v)
	if len(cs) > 0 && rng.Intn(4) != 0 {
		out := make([]octosql.Value, len(cs))
		copy(out, cs)
		switch rng.Intn(5) {
		case 0: // drop last
			out = out[:len(out)-1]
		case 1: // append
			out = append(out, Random(rng, 1, o))
		default:
			i := rng.Intn(len(out))
			out[i] = Mutate(rng, out[i], o)
		}
		switch v.TypeID {
		case octosql.TypeIDList:
			return octosql.NewList(out)
		case octosql.TypeIDStruct:
			return octosql.NewStruct(out)
		default:
			return octosql.NewTuple(out)
		}
	}
	switch v.TypeID {
	case octosql.TypeIDInt:
		return I(intPool[rng.Intn(len(intPool))])
	case octosql.TypeIDFloat:
		for i := 0; i < 100; i++ {
			f := floatPool[rng.Intn(len(floatPool))]
			if (math.IsNaN(f) && !o.NaN) || (f == 0 && math.Signbit(f) && !o.Zeros) {
				continue
			}
			return F(f)
		}
		return F(2)
	case octosql.TypeIDString:
		return S(strPool[rng.Intn(len(strPool))])
	case octosql.TypeIDBoolean:
		return octosql.NewBoolean(!v.Boolean)
	case octosql.TypeIDTime:
		ls := locs()
		if rng.Intn(2) == 0 {
			return octosql.NewTime(v.Time.In(ls[rng.Intn(len(ls))]))
		}
		return octosql.NewTime(v.Time.Add(time.Duration(rng.Intn(3) - 1)))
	case octosql.TypeIDDuration:
		return octosql.NewDuration(durPool[rng.Intn(len(durPool))])
	}
	return Random(rng, 2, o)
}

// Package c15: operators keep a valid changelog and compute incrementally what batch computes.
//
// R (refutation): an output retraction of a row that is not currently present (running signed
// multiset of the output < 0); or, at end of stream, consolidated output != the operator applied
// (batch, from scratch) to the consolidated input; for ORDER BY (+LIMIT) the emitted rows are not
// a valid sorted (first-n) rendering of the consolidated input; the batch OutputPrinter panics
// ("retraction before value") or prints something else than the consolidation of a VALID changelog.
// O: nodeh.ChangelogValid online over the recording; own batch semantics of every operator
// (chlog/ref.go, keyed by nodeh.RowKey encodings, never octosql's Compare/Hash) applied to the
// consolidated input. W: the real execution nodes built with their constructors (or planned from
// SQL over a memdb by octosql's own planner) over scripted changelogs of 5-60 events on <= 4
// distinct rows (random valid interleavings of insertions and retractions with monotone
// watermarks, no late record, zero event times only before the first watermark). Joins run on
// free random schedules; every verdict is schedule-independent.
package c15

import (
	"fmt"
	"os"
	"runtime/debug"
	"strings"
	"time"

	"github.com/cube2222/octosql/octosql"

	"github.com/cube2222/octosql/plugins/verifharness/core"
	"github.com/cube2222/octosql/plugins/verifharness/nodeh"
	"github.com/cube2222/octosql/plugins/verifharness/props/chlog"
)

func init() { core.Register("C15", Run) }

func Run(c *core.Ctx) core.FinishOpts {
	chlog.SilenceLiveWriter()
	// every join allocates two 10 000-slot channels (2 MB): collect less often
	debug.SetGCPercent(400)
	n := c.Pick(300, 20000)
	only := chlog.OnlyID(c.Only, c.Replay)
	selftest := os.Getenv("VERIF_SELFTEST") == "1"
	kinds := 0
	for _, k := range chlog.Kinds() {
		if !k.C15 {
			continue
		}
		if only != "" && chlog.KindOfID(only) != k.Name {
			continue
		}
		kinds++
		k := k
		workers := 16
		t0 := time.Now()
		core.Parallel(n, workers, func(i int) {
			id := fmt.Sprintf("%s#%d", k.Name, i)
			if only != "" && id != only {
				return
			}
			cs := k.Gen(c.Rng("case/"+id), id)
			judge(c, cs, int64(i), selftest && i%40 == 7)
		})
		if os.Getenv("VERIF_TIMING") == "1" {
			fmt.Fprintf(os.Stderr, "timing %s %.2fs\n", k.Name, time.Since(t0).Seconds())
		}
	}
	c.Note("node_kinds", kinds)
	c.Note("cases_per_kind", n)
	return core.FinishOpts{
		Level: "exploration",
		Rule: "per node kind, seeded random valid changelogs (5-60 events over <= 4 distinct rows; retraction only of a present row with event time >= its insertion's; " +
			"monotone watermarks, no late record, zero event times only before the first watermark); non-trivial = the inputs hold >= 3 records of which >= 1 retraction " +
			"and the node emitted >= 1 record; distinct by (kind, variant, input scripts)",
		Floor: c.Pick(2500, 150000),
		Assumptions: []string{
			"oracle: own batch semantics of filter/map/distinct/unnest/group-by/join/order-by over consolidated inputs keyed by nodeh.RowKey (no octosql Compare/Hash)",
			"expressions inside hand-built nodes are Go closures wrapped in octosql's FunctionCall/Variable/Constant; aggregates are octosql's count and sum(Int) (C14 judges aggregates)",
			"join schedules are free-running (Go scheduler + seeded yields); verdicts do not depend on the schedule; controlled schedules are C19's",
			"NULL join keys are not generated (C02's finding)",
		},
	}
}

func judge(c *core.Ctx, cs *chlog.Case, jitter int64, corrupt bool) {
	c.Eval(1)
	replay := cs.Describe()
	for i, in := range cs.Inputs {
		if cs.Kind == "sql/max_diff_watermark" {
			break
		}
		if bad := chlog.ValidHistory(in); bad != "" {
			c.Violation("harness:generator-invalid-script", fmt.Sprintf("input %d: %s", i, bad), replay)
			return
		}
	}
	if cs.Meta.TwoInput || cs.Meta.Foreign {
		chlog.Enter(c, cs.ID)
	}
	ex := cs.Run(jitter)
	if cs.Meta.TwoInput || cs.Meta.Foreign {
		chlog.Leave(cs.ID)
	}
	outs := ex.Outs
	replay["output"] = nodeh.OutsString(outs)
	kind := cs.Kind
	c.Count(kind+"/cases", 1)
	switch {
	case ex.PlanErr != nil:
		c.Violation("harness:plan-error", ex.PlanErr.Error(), replay)
		return
	case ex.Res.TimedOut:
		c.Inconclusive("watchdog")
		return
	case ex.Res.Panicked:
		c.Violation("panic:"+core.PanicSite(ex.Res.Stack), kind+" panicked: "+ex.Res.PanicMsg, replay)
		return
	case ex.Res.Err != nil:
		c.Violation("error:"+kind, "node returned an error on a valid changelog: "+ex.Res.Err.Error(), replay)
		return
	}
	if corrupt {
		outs = corruptRecording(outs, jitter)
		replay["selftest_corrupted_output"] = nodeh.OutsString(outs)
	}

	in := make([]chlog.Rel, len(cs.Inputs))
	for i := range cs.Inputs {
		in[i] = chlog.Consolidate(cs.Inputs[i])
	}

	// (1) the output is a valid changelog at every prefix
	validOut := true
	if bad, key := nodeh.ChangelogValid(outs); bad >= 0 {
		validOut = false
		c.Violation(classify(cs, "retraction-of-absent-row", in, outs),
			fmt.Sprintf("%s: output #%d retracts row %s which is not present at that point", kind, bad, key), replay)
	}

	// (2) consolidated output == operator(consolidated input)
	got := nodeh.ConsolidateOuts(outs, -1)
	if cs.Ref != nil {
		want := cs.Ref(in)
		if !got.Equal(want) {
			c.Violation(classify(cs, "consolidated-mismatch", in, outs),
				fmt.Sprintf("%s [%s]: consolidated output %s, batch reference %s (output - reference = %s)", kind, cs.Variant, got, want, got.Diff(want)), replay)
		}
	}
	if cs.Order != nil {
		for _, o := range outs {
			if !o.IsWatermark && o.Record.Retraction {
				c.Violation("order-by-emits-retraction", kind+": an ordered result contains a retraction", replay)
				break
			}
		}
		if what, sym := chlog.CheckOrdered(chlog.OutRows(outs), in[0], cs.Order.KeyCols, cs.Order.Dirs, cs.Order.Limit); what != "" {
			c.Violation(classifyOrder(cs, sym, in[0], outs), kind+" ["+cs.Variant+"]: "+what, replay)
		}
	}

	// (3) the batch OutputPrinter over the same changelogs: the input scripts (valid by
	// construction) and the node's recorded output (if it is a valid changelog)
	for i, evs := range cs.Inputs {
		if cs.Kind == "unnest" || cs.Kind == "sql/max_diff_watermark" {
			break // list-valued columns: the printer orders by value, which is not judged here
		}
		probePrinter(c, cs, fmt.Sprintf("input%d", i), evs, int(jitter)+i, replay)
	}
	if validOut && len(outs) > 0 {
		probePrinter(c, cs, "output", chlog.OutsAsEvents(outs), int(jitter)+7, replay)
	}

	// coverage
	recs, retr, maxMult := 0, 0, 0
	for _, evs := range cs.Inputs {
		s := chlog.ShapeOf(evs)
		recs += s.Records
		retr += s.Retractions
		if s.MaxMultiplicity > maxMult {
			maxMult = s.MaxMultiplicity
		}
		c.Count(kind+"/in_watermarks", s.Watermarks)
	}
	outRecs, outRetr := 0, 0
	for _, o := range outs {
		if !o.IsWatermark {
			outRecs++
			if o.Record.Retraction {
				outRetr++
			}
		}
	}
	c.Count(kind+"/in_records", recs)
	c.Count(kind+"/in_retractions", retr)
	c.Count(kind+"/out_records", outRecs)
	c.Count(kind+"/out_retractions", outRetr)
	if maxMult >= 2 {
		c.Count(kind+"/multiplicity_collisions", 1)
	}
	if len(got) > 0 {
		c.Count(kind+"/final_result_nonempty", 1)
	}
	if recs >= 3 && retr >= 1 && outRecs >= 1 {
		var sb strings.Builder
		sb.WriteString(kind + "|" + cs.Variant)
		for _, evs := range cs.Inputs {
			sb.WriteString("|" + nodeh.EventsString(evs))
		}
		for _, r := range cs.Static {
			sb.WriteString("|" + nodeh.RowKey(r))
		}
		c.Nontrivial(sb.String())
		c.Count(kind+"/nontrivial", 1)
	}
	if jitter == 0 && chlog.SampledKinds[kind] {
		c.Sample(chlog.Truncated(replay, 1500))
	}
}

// probePrinter feeds a VALID changelog to outputs/batch.OutputPrinter: it must not panic
// ("received retraction before value"), must not fail, and the table it prints at the end must be
// the consolidation of the changelog, ordered (and limited) as asked.
func probePrinter(c *core.Ctx, cs *chlog.Case, which string, evs []nodeh.Event, variant int, replay map[string]interface{}) {
	ncols := -1
	for _, e := range evs {
		if !e.IsWatermark {
			ncols = len(e.Record.Values)
			break
		}
	}
	if ncols < 0 {
		return
	}
	// ordering variants: by all values (no keys) | by column 0 asc/desc | with a limit
	var order *chlog.OrderSpec
	if ncols > 0 {
		switch variant % 4 {
		case 1:
			order = &chlog.OrderSpec{KeyCols: []int{0}, Dirs: []int{1}, Limit: -1}
		case 2:
			order = &chlog.OrderSpec{KeyCols: []int{ncols - 1}, Dirs: []int{-1}, Limit: -1}
		case 3:
			order = &chlog.OrderSpec{KeyCols: []int{0}, Dirs: []int{-1}, Limit: variant / 4 % 5}
		}
	}
	c.Count("printer/"+which+"_runs", 1)
	res := chlog.RunPrinter(evs, ncols, order)
	rp := map[string]interface{}{"case": replay, "printer_fed": which, "changelog": nodeh.EventsString(evs)}
	if order != nil {
		rp["order"] = fmt.Sprintf("%+v", *order)
	}
	rp["id"] = cs.ID
	switch {
	case res.Panicked:
		c.Violation("printer-panic:"+core.PanicSite(res.Stack), "batch OutputPrinter panicked on a valid changelog ("+which+" of "+cs.Kind+"): "+res.PanicMsg, rp)
		return
	case res.Err != nil:
		c.Violation("printer-error", "batch OutputPrinter failed on a valid changelog: "+res.Err.Error(), rp)
		return
	}
	rel := chlog.Consolidate(evs)
	var spec chlog.OrderSpec
	if order != nil {
		spec = *order
	} else {
		// no ORDER BY: the printer sorts by the row values, column by column ascending
		spec = chlog.OrderSpec{Limit: -1}
		for i := 0; i < ncols; i++ {
			spec.KeyCols = append(spec.KeyCols, i)
			spec.Dirs = append(spec.Dirs, 1)
		}
	}
	if !comparableRows(rel) {
		// values outside the oracle's small ordered domain: judge the multiset only
		spec.KeyCols, spec.Dirs = nil, nil
	}
	if what, _ := chlog.CheckOrdered(res.Rows, rel, spec.KeyCols, spec.Dirs, spec.Limit); what != "" {
		c.Violation("printer-table-mismatch", "batch OutputPrinter over "+which+" of "+cs.Kind+": "+what, rp)
	}
}

func comparableRows(rel chlog.Rel) bool {
	for _, r := range rel {
		for _, v := range r.Values {
			switch v.TypeID {
			case octosql.TypeIDNull, octosql.TypeIDInt, octosql.TypeIDString, octosql.TypeIDTime:
			default:
				return false
			}
		}
	}
	return true
}

// classify attributes a discrepancy to a finding key from the INPUT of the case (node kind and
// configuration, shape of the inputs) and the kind of symptom. Nothing is attributed unless the
// predicate of a recorded finding holds; everything else is reported under a descriptive key.
func classify(cs *chlog.Case, symptom string, in []chlog.Rel, outs []nodeh.Out) string {
	return symptom + ":" + cs.Kind
}

// classifyOrder: OrderSensitiveTransform's LIMIT counts distinct rows (btree items) instead of
// rows. Predicate: a limit is set and the consolidated input holds a row more than once; symptom:
// too many rows, and the rows emitted are exactly all copies of the first `limit` distinct rows.
func classifyOrder(cs *chlog.Case, symptom string, in chlog.Rel, outs []nodeh.Out) string {
	if symptom == "limit-surplus" && cs.Order.Limit >= 0 {
		dup := false
		for _, r := range in {
			if r.N > 1 {
				dup = true
			}
		}
		if dup && chlog.IsFirstNDistinct(chlog.OutRows(outs), in, cs.Order.KeyCols, cs.Order.Dirs, cs.Order.Limit) {
			return "order-by-limit-counts-distinct-rows"
		}
	}
	return "order-by-" + symptom + ":" + cs.Kind
}

// corruptRecording (VERIF_SELFTEST=1): a deliberately wrong recording the oracle must reject.
func corruptRecording(outs []nodeh.Out, variant int64) []nodeh.Out {
	cp := append([]nodeh.Out{}, outs...)
	last := -1
	for i, o := range cp {
		if !o.IsWatermark {
			last = i
		}
	}
	if last < 0 {
		// nothing emitted: invent a retraction of a row that was never there
		return append(cp, nodeh.Out{Record: nodeh.Rec([]octosql.Value{octosql.NewString("ghost")}, true, chlog.TS(0)).Record})
	}
	switch variant % 3 {
	case 0: // drop the last record
		return append(cp[:last], cp[last+1:]...)
	case 1: // flip the sign of the last record
		o := cp[last]
		o.Record.Retraction = !o.Record.Retraction
		cp[last] = o
		return cp
	default: // duplicate the last record
		return append(cp, cp[last])
	}
}

package c25

import (
	"bytes"
	"encoding/json"
	"fmt"
	"math"
	"math/rand"
	"strconv"
	"strings"
	"time"

	"github.com/cube2222/octosql/plugins/verifharness/cli"
	"github.com/cube2222/octosql/plugins/verifharness/core"
	"github.com/cube2222/octosql/plugins/verifharness/props/fileh"
)

// CLI leg: the same two formatters behind eager.OutputPrinter, fed by the real datasources and by
// SQL literals. Inputs avoid what C23/C24 report about the datasources (numbers have no exponent
// part, nested values hold no nulls, times are whole seconds), so that the expectation "the output
// decodes to the input's values" is about the output encoding only.

func plainNum(rng *rand.Rand) fileh.Num {
	switch rng.Intn(4) {
	case 0:
		return fileh.NumOf(strconv.Itoa(rng.Intn(2001) - 1000))
	case 1:
		return fileh.NumOf(strconv.FormatFloat(float64(rng.Intn(2000001)-1000000)/1000, 'f', -1, 64))
	case 2:
		return fileh.NumOf([]string{"0", "-0.0", "9007199254740993", "0.1", "123456789012345678", "0.000001", "100000000000000000000", "-2.5"}[rng.Intn(8)])
	default:
		return fileh.NumOf(strconv.FormatFloat(rng.Float64(), 'f', -1, 64))
	}
}

func modelStrings(v interface{}, fn func(string)) {
	switch x := v.(type) {
	case string:
		fn(x)
	case []interface{}:
		for _, e := range x {
			modelStrings(e, fn)
		}
	case *fileh.Obj:
		for _, e := range x.Vals {
			modelStrings(e, fn)
		}
	}
}

func splitLines(out []byte) [][]byte {
	if len(out) == 0 {
		return nil
	}
	lines := bytes.Split(out, []byte("\n"))
	if len(lines[len(lines)-1]) == 0 {
		lines = lines[:len(lines)-1]
	}
	return lines
}

// cliEdgeFloats: whole numbers at the integer-conversion edges as JSON numbers (the JSON source
// reads every number as a Float: 9223372036854775807 becomes 2^63) and as cells of a Float CSV
// column, printed with -o json and -o csv.
func cliEdgeFloats(c *core.Ctx, runner *cli.Runner) {
	lits := []string{"9223372036854775807", "9223372036854775808", "-9223372036854775808", "-9223372036854775809", "9223372036854774784", "9223372036854777856",
		"4611686018427387904", "9007199254740992", "9007199254740994", "-9007199254740992", "2147483648", "-2147483648", "4294967296", "18446744073709551615", "18446744073709551616",
		"1000000000000000", "10000000000000000", "100000000000000000", "1000000000000000000", "10000000000000000000", "100000000000000000000", "1000000000000000000000",
		"10000000000000000000000", "-10000000000000000000000", "9000000000000000000", "9300000000000000000", "123000000000", "-0", "0", "7"}
	for _, fl := range wholeEdgeFloats() {
		if a := math.Abs(fl); a >= 1e15 && a < 1e25 {
			lits = append(lits, strconv.FormatFloat(fl, 'f', 0, 64))
		}
	}
	big := strconv.FormatFloat(math.MaxFloat64, 'f', 0, 64)
	lits = append(lits, big, "-"+big)
	for _, kind := range []string{"json", "csv"} {
		id := "cli-edge-" + kind
		if c.Only != "" && c.Only != id {
			continue
		}
		var rows []*fileh.Obj
		var b bytes.Buffer
		if kind == "csv" {
			b.WriteString("id,x\n0.5,first\n") // the first cell makes the column a Float
			o := &fileh.Obj{}
			o.Set("id", fileh.NumOf("0.5"))
			o.Set("x", "first")
			rows = append(rows, o)
		}
		for i, l := range lits {
			o := &fileh.Obj{}
			o.Set("id", fileh.NumOf(l))
			o.Set("x", "r"+strconv.Itoa(i))
			rows = append(rows, o)
			if kind == "csv" {
				fmt.Fprintf(&b, "%s,r%d\n", l, i)
			} else {
				fmt.Fprintf(&b, "{\"id\":%s,\"x\":\"r%d\"}\n", l, i)
			}
		}
		name := "t." + kind
		files := map[string][]byte{name: b.Bytes()}
		sql := "SELECT * FROM " + name
		base := map[string]interface{}{"id": id, "input": name, "file": trunc(b.String(), 20000), "sql": sql, "rerun": "./check C25 <tier> --only " + id}
		c.Count("cli/edge-floats/"+kind+"/literals", len(lits))
		if res, ok := execOK(c, runner, cli.Run{Args: []string{sql, "-o", "json"}, Files: files}, base); ok {
			judgeJSONLines(c, "cli/edge-floats-"+kind, res.Stdout, rows, base)
		}
		rp := map[string]interface{}{"id": id, "input": name, "file": base["file"], "sql": sql, "rerun": base["rerun"]}
		if res, ok := execOK(c, runner, cli.Run{Args: []string{sql, "-o", "csv"}, Files: files}, rp); ok {
			judgeCSVOut(c, "cli/edge-floats-"+kind, res.Stdout, []string{"id", "x"}, len(rows), func(i int, col string) (interface{}, bool) { return rows[i].Get(col) }, rp)
		}
	}
}

func runCLI(c *core.Ctx) {
	runner := cli.NewRunner(c.BinDir, c.Scratch)
	cliEdgeFloats(c, runner)
	n := c.Pick(36, 900)
	core.Parallel(n, 12, func(i int) {
		id := fmt.Sprintf("cli-%d", i)
		if c.Only != "" && c.Only != id {
			return
		}
		rng := c.Rng("cli/" + id)
		switch i % 3 {
		case 0:
			cliJSONInput(c, runner, id, rng)
		case 1:
			cliCSVInput(c, runner, id, rng)
		default:
			cliLiterals(c, runner, id, rng)
		}
	})
}

func execOK(c *core.Ctx, runner *cli.Runner, run cli.Run, replay map[string]interface{}) (cli.Result, bool) {
	res := runner.Exec(run)
	switch {
	case res.TimedOut:
		c.Inconclusive("watchdog")
		return res, false
	case res.Panicked():
		site, msg := res.PanicSite()
		replay["stderr"] = trunc(string(res.Stderr), 3000)
		c.Violation("panic:"+site, "octosql crashed: "+msg, replay)
		return res, false
	case res.Exit != 0:
		replay["stderr"] = trunc(string(res.Stderr), 2000)
		c.Violation("cli:error", fmt.Sprintf("octosql exited %d: %s", res.Exit, trunc(strings.TrimSpace(string(res.Stderr)), 300)), replay)
		return res, false
	}
	return res, true
}

// judgeJSONLines decodes every output line separately and compares it with the model row.
func judgeJSONLines(c *core.Ctx, leg string, out []byte, rows []*fileh.Obj, replay map[string]interface{}) {
	lines := splitLines(out)
	if len(lines) != len(rows) {
		c.Eval(1)
		c.Violation("cli-json:line-count", fmt.Sprintf("%d rows printed as %d lines", len(rows), len(lines)), replay)
		return
	}
	for i, line := range lines {
		c.Eval(1)
		c.Count(leg+"/json_rows", 1)
		goEsc := false
		modelStrings(rows[i], func(s string) {
			if needsGoEscape(s) {
				goEsc = true
			}
		})
		rp := map[string]interface{}{}
		for k, v := range replay {
			rp[k] = v
		}
		rp["row_index"], rp["row"], rp["printed"] = i, fileh.Show(rows[i]), string(line)
		dec, err := cli.DecodeJSONLines(line)
		if err != nil || len(dec) != 1 {
			what := "printed line is not valid JSON"
			if err != nil {
				what += ": " + err.Error()
			}
			if goEsc {
				c.Count(leg+"/json_rows_with_go_escape_string", 1)
				c.Violation("json-string-go-escape", what, rp)
			} else {
				c.Violation("json:invalid-line", what, rp)
			}
			continue
		}
		ds := &fileh.DiffSet{}
		for _, k := range rows[i].Keys {
			if _, ok := dec[0].Values[k]; !ok {
				ds.Add(fileh.Diff{Path: "row", Class: "structure", What: "column " + k + " is not printed"})
			}
		}
		for _, k := range dec[0].Keys {
			mv, ok := rows[i].Get(k)
			fileh.CompareDecodedJSON(fileh.Row(i).Field(k), nil, dec[0].Values[k], mv, ok, ds)
		}
		if selftest && i%4 == 0 {
			ds.Add(fileh.Diff{Path: "selftest", Class: "value", What: "deliberately wrong expectation"})
		}
		if !ds.Empty() {
			for _, class := range ds.Classes() {
				c.Violation("cli-json:"+class, "the printed line decodes to other values than the input row: "+ds.Describe(class), rp)
			}
			continue
		}
		c.Nontrivial(leg + "|json|" + string(line))
		c.Sample(rp)
	}
}

// richStr: plain rows use the alphabet without control characters (still quotes, backslashes,
// separators, newlines, non-ASCII), so that most rows' values are actually compared.
func richStr(rng *rand.Rand, plain bool) string {
	return fileh.RandStr(rng, fileh.StrOpts{NoCRLF: true, Plain: plain})
}

func cliJSONInput(c *core.Ctx, runner *cli.Runner, id string, rng *rand.Rand) {
	n := 1 + rng.Intn(30)
	var rows []*fileh.Obj
	for i := 0; i < n; i++ {
		plain := rng.Intn(3) != 0
		richStr := func(rng *rand.Rand) string { return richStr(rng, plain) }
		o := &fileh.Obj{}
		o.Set("s", richStr(rng))
		o.Set("n", plainNum(rng))
		o.Set("b", rng.Intn(2) == 0)
		if rng.Intn(3) == 0 {
			o.Set("z", nil)
		} else {
			o.Set("z", richStr(rng))
		}
		l := []interface{}{}
		for k := rng.Intn(3); k >= 0; k-- {
			l = append(l, richStr(rng))
		}
		o.Set("l", l)
		inner := &fileh.Obj{}
		inner.Set("p", richStr(rng))
		inner.Set("q", plainNum(rng))
		o.Set("o", inner)
		ts, _ := fileh.RandTimeStr(rng, true)
		o.Set("t", ts)
		rows = append(rows, o)
	}
	content := fileh.SerialiseJSONRows(rng, rows, 1, false, false)
	base := map[string]interface{}{"id": id, "input": "t.json", "file": trunc(string(content), 20000), "rerun": "./check C25 <tier> --only " + id}
	// -o json
	sql := "SELECT * FROM t.json"
	base["sql"] = sql
	if res, ok := execOK(c, runner, cli.Run{Args: []string{sql, "-o", "json"}, Files: map[string][]byte{"t.json": content}}, base); ok {
		judgeJSONLines(c, "cli/json-input", res.Stdout, rows, base)
	}
	// -o csv: scalar columns only (nested columns in CSV output are C07's subject)
	sql = "SELECT s, n, b, z, t FROM t.json"
	rp := map[string]interface{}{"id": id, "input": "t.json", "file": base["file"], "sql": sql, "rerun": base["rerun"]}
	if res, ok := execOK(c, runner, cli.Run{Args: []string{sql, "-o", "csv"}, Files: map[string][]byte{"t.json": content}}, rp); ok {
		judgeCSVOut(c, "cli/json-input", res.Stdout, []string{"s", "n", "b", "z", "t"}, n, func(i int, col string) (interface{}, bool) {
			return rows[i].Get(col)
		}, rp)
	}
}

// judgeCSVOut compares `-o csv` output with model values (nil, bool, Num, string).
func judgeCSVOut(c *core.Ctx, leg string, out []byte, cols []string, n int, get func(i int, col string) (interface{}, bool), replay map[string]interface{}) {
	recs, err := cli.DecodeCSV(out, ',')
	if err != nil {
		c.Eval(1)
		c.Violation("cli-csv:invalid", "output is not RFC 4180: "+err.Error(), replay)
		return
	}
	if len(recs) != n+1 {
		c.Eval(1)
		c.Violation("cli-csv:record-count", fmt.Sprintf("%d rows (+header) printed as %d records", n, len(recs)), replay)
		return
	}
	if strings.Join(recs[0], "\x00") != strings.Join(cols, "\x00") {
		c.Eval(1)
		c.Violation("cli-csv:header", fmt.Sprintf("header is %q, columns are %q", recs[0], cols), replay)
		return
	}
	for i := 0; i < n; i++ {
		c.Eval(1)
		c.Count(leg+"/csv_rows", 1)
		rec := recs[i+1]
		var bad []string
		if len(rec) != len(cols) {
			bad = append(bad, fmt.Sprintf("%d fields for %d columns", len(rec), len(cols)))
		}
		for j := 0; j < len(cols) && j < len(rec); j++ {
			m, ok := get(i, cols[j])
			field := rec[j]
			switch x := m.(type) {
			case nil:
				if field != "" {
					bad = append(bad, fmt.Sprintf("%s: NULL printed as %q", cols[j], field))
				}
			case bool:
				if field != strconv.FormatBool(x) {
					bad = append(bad, fmt.Sprintf("%s: %v printed as %q", cols[j], x, field))
				}
			case fileh.Num:
				if got, err := strconv.ParseFloat(field, 64); err != nil || !fileh.FloatEq(got, x.Val) {
					bad = append(bad, fmt.Sprintf("%s: number %s printed as %q", cols[j], x.Lit, field))
				}
			case string:
				if field != x {
					if a, err := time.Parse(time.RFC3339Nano, field); err == nil {
						if b, err := time.Parse(time.RFC3339Nano, x); err == nil && a.Equal(b) {
							continue
						}
					}
					bad = append(bad, fmt.Sprintf("%s: string %s printed as %s", cols[j], strconv.Quote(x), strconv.Quote(field)))
				}
			}
			_ = ok
		}
		if selftest && i%4 == 0 {
			bad = append(bad, "deliberately wrong expectation")
		}
		if len(bad) > 0 {
			rp := map[string]interface{}{}
			for k, v := range replay {
				rp[k] = v
			}
			rp["row_index"], rp["record"] = i, fmt.Sprintf("%q", rec)
			c.Violation("cli-csv:value", "the record decodes to other values than the input row: "+strings.Join(bad, "; "), rp)
			continue
		}
		c.Nontrivial(leg + "|csv|" + strings.Join(rec, "\x00"))
	}
}

func cliCSVInput(c *core.Ctx, runner *cli.Runner, id string, rng *rand.Rand) {
	n := 1 + rng.Intn(30)
	header := []string{"s", "i", "f", "b", "z"}
	var cells [][]string
	var rows []*fileh.Obj
	for r := 0; r < n; r++ {
		plain := rng.Intn(3) != 0
		s := fileh.RandStrCell(rng, plain)
		iv := fileh.RandIntCell(rng)
		fv := strconv.FormatFloat(float64(rng.Intn(2000001)-1000000)/1000+0.5, 'f', -1, 64)
		if fileh.CellClass(fv) != "float" {
			fv = "0.5"
		}
		bv := []string{"true", "false"}[rng.Intn(2)]
		z := ""
		if rng.Intn(2) == 0 {
			z = fileh.RandStrCell(rng, plain)
		}
		cells = append(cells, []string{s, iv, fv, bv, z})
		o := &fileh.Obj{}
		o.Set("s", s)
		o.Set("i", fileh.NumOf(iv))
		o.Set("f", fileh.NumOf(fv))
		o.Set("b", bv == "true")
		if z == "" {
			o.Set("z", nil)
		} else {
			o.Set("z", z)
		}
		rows = append(rows, o)
	}
	f := &fileh.CSVFile{Sep: ',', Header: header, Rows: cells}
	content := fileh.SerialiseCSV(rng, f)
	base := map[string]interface{}{"id": id, "input": "t.csv", "file": trunc(string(content), 20000), "rerun": "./check C25 <tier> --only " + id}
	sql := "SELECT * FROM t.csv"
	base["sql"] = sql
	// the Int column must come out as the exact integer
	if res, ok := execOK(c, runner, cli.Run{Args: []string{sql, "-o", "json"}, Files: map[string][]byte{"t.csv": content}}, base); ok {
		judgeJSONLines(c, "cli/csv-input", res.Stdout, rows, base)
		// Int cells must come out as exactly that integer (the float comparison above is not exact beyond 2^53)
		for i, line := range splitLines(res.Stdout) {
			dec, err := cli.DecodeJSONLines(line)
			if err != nil || len(dec) != 1 || i >= len(cells) {
				continue
			}
			want, _ := strconv.ParseInt(cells[i][1], 10, 64)
			tok, _ := dec[0].Values["i"].(json.Number)
			if got, err := strconv.ParseInt(string(tok), 10, 64); err != nil || got != want {
				c.Violation("cli-json:int-token", fmt.Sprintf("Int cell %q printed as token %v", cells[i][1], dec[0].Values["i"]), base)
			}
		}
	}
	rp := map[string]interface{}{"id": id, "input": "t.csv", "file": base["file"], "sql": sql, "rerun": base["rerun"]}
	if res, ok := execOK(c, runner, cli.Run{Args: []string{sql, "-o", "csv"}, Files: map[string][]byte{"t.csv": content}}, rp); ok {
		judgeCSVOut(c, "cli/csv-input", res.Stdout, header, n, func(i int, col string) (interface{}, bool) {
			return rows[i].Get(col)
		}, rp)
	}
}

var litAlphabet = []string{"a", "b", "Z", "0", " ", ",", ";", "\"", "é", "ß", "日", "😀", "%", "_", "|", "{", "}", "[", "]", ":", "/"}

func cliLiterals(c *core.Ctx, runner *cli.Runner, id string, rng *rand.Rand) {
	row := &fileh.Obj{}
	var sel []string
	add := func(name, sqlLit string, m interface{}) {
		sel = append(sel, sqlLit+" AS "+name)
		row.Set(name, m)
	}
	var sb strings.Builder
	for k := rng.Intn(12); k >= 0; k-- {
		sb.WriteString(litAlphabet[rng.Intn(len(litAlphabet))])
	}
	s := sb.String()
	add("s", "'"+s+"'", s)
	iv := []int64{0, 1, 7, 2147483648, 9007199254740993, 9223372036854775807, int64(rng.Intn(100000))}[rng.Intn(7)]
	add("i", strconv.FormatInt(iv, 10), fileh.NumOf(strconv.FormatInt(iv, 10)))
	fl := []string{"1.5", "0.25", "123456.789", "0.1", "3.0", strconv.FormatFloat(float64(rng.Intn(100000))/100+0.001, 'f', -1, 64)}[rng.Intn(6)]
	add("f", fl, fileh.NumOf(fl))
	add("b", []string{"true", "false"}[rng.Intn(2)], nil)
	row.Set("b", strings.HasPrefix(sel[len(sel)-1], "true"))
	add("z", "NULL", nil)
	sql := "SELECT " + strings.Join(sel, ", ") + " FROM one.json"
	files := map[string][]byte{"one.json": []byte("{\"x\":1}\n")}
	base := map[string]interface{}{"id": id, "input": "SQL literals", "sql": sql, "rerun": "./check C25 <tier> --only " + id}
	if res, ok := execOK(c, runner, cli.Run{Args: []string{sql, "-o", "json"}, Files: files}, base); ok {
		judgeJSONLines(c, "cli/literals", res.Stdout, []*fileh.Obj{row}, base)
	}
	rp := map[string]interface{}{"id": id, "input": "SQL literals", "sql": sql, "rerun": base["rerun"]}
	if res, ok := execOK(c, runner, cli.Run{Args: []string{sql, "-o", "csv"}, Files: files}, rp); ok {
		judgeCSVOut(c, "cli/literals", res.Stdout, row.Keys, 1, func(i int, col string) (interface{}, bool) { return row.Get(col) }, rp)
	}
}

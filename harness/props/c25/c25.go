// Package c25: CSV and JSON output faithfully encode results.
//
// R: a `-o json` line that is not valid JSON or does not decode to the row; a `-o csv` record that
// does not decode to the row's scalars.
// O: strict JSON decode (cli.DecodeJSONLines) / RFC-4180 decode (cli.DecodeCSV), then own value
// comparison: Int exact via json.Number, Float numerically equal after strconv.ParseFloat of the
// printed token, strings bytewise, NULL <-> null / empty field, structure of lists/objects/tuples.
// W: in-process formats.NewJSONFormatter / NewCSVFormatter over generated typed rows; CLI leg
// through the real binary (eager.OutputPrinter) with values from JSON/CSV inputs and SQL literals.
package c25

import (
	"bytes"
	"encoding/json"
	"fmt"
	"math"
	"math/rand"
	"os"
	"strconv"
	"strings"
	"time"
	"unicode/utf8"

	"github.com/cube2222/octosql/octosql"
	"github.com/cube2222/octosql/outputs/formats"
	"github.com/cube2222/octosql/physical"

	"github.com/cube2222/octosql/plugins/verifharness/cli"
	"github.com/cube2222/octosql/plugins/verifharness/core"
	"github.com/cube2222/octosql/plugins/verifharness/props/fileh"
)

func init() { core.Register("C25", Run) }

var selftest = os.Getenv("VERIF_SELFTEST") == "1"

// ---------------------------------------------------------------------------------------------
// typed value generator

var colNames = []string{"a", "b", "c", "id", "name", "val", "x1", "Key", "k_2", "col d", "日", "t", "n", "m"}

func scalarType(rng *rand.Rand) octosql.Type {
	return []octosql.Type{octosql.Int, octosql.Float, octosql.Boolean, octosql.String, octosql.String, octosql.Time, octosql.Duration, octosql.Null}[rng.Intn(8)]
}

func union(ts ...octosql.Type) octosql.Type {
	// distinct type ids, sorted by id (the shape TypeSum produces)
	seen := map[octosql.TypeID]bool{}
	var alts []octosql.Type
	for id := octosql.TypeIDNull; id <= octosql.TypeIDTuple; id++ {
		for _, t := range ts {
			if t.TypeID == id && !seen[id] {
				seen[id] = true
				alts = append(alts, t)
			}
		}
	}
	if len(alts) == 1 {
		return alts[0]
	}
	return octosql.Type{TypeID: octosql.TypeIDUnion, Union: struct{ Alternatives []octosql.Type }{Alternatives: alts}}
}

func randType(rng *rand.Rand, depth int, nested bool) octosql.Type {
	k := rng.Intn(10)
	if !nested || depth >= 3 {
		k = rng.Intn(7)
	}
	switch {
	case k < 5:
		return scalarType(rng)
	case k == 5:
		return union(octosql.Null, scalarType(rng))
	case k == 6:
		return union(scalarType(rng), scalarType(rng), scalarType(rng))
	case k == 7:
		e := randType(rng, depth+1, nested)
		return octosql.Type{TypeID: octosql.TypeIDList, List: struct{ Element *octosql.Type }{Element: &e}}
	case k == 8:
		n := 1 + rng.Intn(3)
		perm := rng.Perm(len(colNames))
		fields := make([]octosql.StructField, n)
		for i := range fields {
			fields[i] = octosql.StructField{Name: colNames[perm[i]], Type: randType(rng, depth+1, nested)}
		}
		return octosql.Type{TypeID: octosql.TypeIDStruct, Struct: struct{ Fields []octosql.StructField }{Fields: fields}}
	default:
		n := 1 + rng.Intn(3)
		elems := make([]octosql.Type, n)
		for i := range elems {
			elems[i] = randType(rng, depth+1, nested)
		}
		if rng.Intn(4) == 0 {
			// a nullable nested value
			return union(octosql.Null, octosql.Type{TypeID: octosql.TypeIDTuple, Tuple: struct{ Elements []octosql.Type }{Elements: elems}})
		}
		return octosql.Type{TypeID: octosql.TypeIDTuple, Tuple: struct{ Elements []octosql.Type }{Elements: elems}}
	}
}

var edgeInts = []int64{0, 1, -1, 2, 7, math.MinInt64, math.MaxInt64, 1 << 31, -(1 << 31), 1 << 53, 1<<53 + 1, 1<<53 - 1, -(1<<53 + 1), 1 << 62}
var edgeFloats = []float64{0, math.Copysign(0, -1), 1, -1, 0.5, 0.1, 1e-300, 1e300, math.MaxFloat64, math.SmallestNonzeroFloat64, 2.2250738585072014e-308,
	4.9406564584124654e-320, 1 << 53, 1<<53 + 2, 1<<53 - 1, 1e21, 1e20, 123456789.125, 1e-7, math.NaN(), math.Inf(1), math.Inf(-1)}

// wholeEdgeFloats: whole-number floats at and around every integer-conversion edge (a formatter
// that prints whole floats through an integer type overflows or loses digits exactly here).
func wholeEdgeFloats() []float64 {
	p63, p62, p53, p31, p32, p64 := math.Ldexp(1, 63), math.Ldexp(1, 62), math.Ldexp(1, 53), math.Ldexp(1, 31), math.Ldexp(1, 32), math.Ldexp(1, 64)
	pos := []float64{p63, math.Nextafter(p63, 0), math.Nextafter(p63, math.Inf(1)), p62, math.Nextafter(p62, 0), math.Nextafter(p62, math.Inf(1)),
		p53, p53 + 2, p53 - 1, p53 - 2, p31, p31 - 1, p31 + 1, p32, p32 - 1, p32 + 1, p64, math.Nextafter(p64, 0), math.Nextafter(p64, math.Inf(1)),
		float64(math.MaxInt64), float64(math.MaxUint64), float64(math.MaxInt32), 1e15, 1e16, 1e17, 1e18, 1e19, 1e20, 1e21, 1e22, 1e23, 1e100, 1e300, math.MaxFloat64,
		9e18, 9.3e18, 9223372036854775000, 9223372036854777000, 1.8446744073709552e19, 123000000000, 7e15, 4000000000000000000, 5e18 + 1024, 3, 10, 1000000}
	out := []float64{0, math.Copysign(0, -1)}
	for _, f := range pos {
		out = append(out, f, -f)
	}
	return out
}

// edgeBatches writes every whole-number edge float through both formatters, in a plain Float
// column, a nullable one and inside a list (deterministic; both tiers).
func edgeBatches(c *core.Ctx) {
	w := wholeEdgeFloats()
	lt := octosql.Float
	fsJSON := []physical.SchemaField{{Name: "id", Type: octosql.Float}, {Name: "n", Type: union(octosql.Null, octosql.Float)},
		{Name: "l", Type: octosql.Type{TypeID: octosql.TypeIDList, List: struct{ Element *octosql.Type }{Element: &lt}}}, {Name: "u", Type: union(octosql.Int, octosql.Float, octosql.String)}}
	fsCSV := []physical.SchemaField{{Name: "id", Type: octosql.Float}, {Name: "n", Type: union(octosql.Null, octosql.Float)}, {Name: "u", Type: union(octosql.Int, octosql.Float, octosql.String)}}
	for _, id := range []string{"jsonedge-0", "csvedge-0"} {
		if c.Only != "" && c.Only != id {
			continue
		}
		rng := c.Rng("batch/" + id)
		if id == "jsonedge-0" {
			jsonBatchOf(c, id, rng, len(w), fsJSON, func(i int) []octosql.Value {
				return []octosql.Value{octosql.NewFloat(w[i]), octosql.NewFloat(w[(i+1)%len(w)]), octosql.NewList([]octosql.Value{octosql.NewFloat(w[(i+2)%len(w)]), octosql.NewFloat(w[i])}), octosql.NewFloat(w[(i+3)%len(w)])}
			})
			c.Count("inproc/json/whole_number_edge_floats", len(w))
		} else {
			csvBatchOf(c, id, rng, len(w), fsCSV, func(i int) []octosql.Value {
				return []octosql.Value{octosql.NewFloat(w[i]), octosql.NewFloat(w[(i+1)%len(w)]), octosql.NewFloat(w[(i+3)%len(w)])}
			})
			c.Count("inproc/csv/whole_number_edge_floats", len(w))
		}
	}
}

func randValue(rng *rand.Rand, t octosql.Type) octosql.Value {
	switch t.TypeID {
	case octosql.TypeIDNull:
		return octosql.NewNull()
	case octosql.TypeIDInt:
		if rng.Intn(3) == 0 {
			return octosql.NewInt(edgeInts[rng.Intn(len(edgeInts))])
		}
		return octosql.NewInt(rng.Int63() - rng.Int63())
	case octosql.TypeIDFloat:
		if rng.Intn(4) == 0 {
			return octosql.NewFloat(edgeFloats[rng.Intn(len(edgeFloats))])
		}
		if rng.Intn(6) == 0 {
			w := wholeEdgeFloats()
			return octosql.NewFloat(w[rng.Intn(len(w))])
		}
		return octosql.NewFloat(fileh.RandFloat(rng))
	case octosql.TypeIDBoolean:
		return octosql.NewBoolean(rng.Intn(2) == 0)
	case octosql.TypeIDString:
		s := fileh.RandStr(rng, fileh.StrOpts{Plain: rng.Intn(3) != 0})
		if rng.Intn(12) == 0 {
			s = []string{"", " ", "\n", "\r\n", ",", "\"", "\"\"", "a,b", " lead", "trail ", "null", "\\.", "NULL", "1", "true", "\t", "\x7f", "é\"", "\\u0000", " ", "\U000e0001\""}[rng.Intn(21)]
		}
		return octosql.NewString(s)
	case octosql.TypeIDTime:
		_, tm := fileh.RandTimeStr(rng, rng.Intn(2) == 0)
		return octosql.NewTime(tm)
	case octosql.TypeIDDuration:
		return octosql.NewDuration([]time.Duration{0, 1, -1, time.Second, 90 * time.Minute, 1500 * time.Millisecond, time.Duration(rng.Int63n(1 << 50)), -time.Duration(rng.Int63n(1 << 40)), math.MaxInt64, math.MinInt64}[rng.Intn(10)])
	case octosql.TypeIDList:
		n := rng.Intn(4)
		vs := make([]octosql.Value, n)
		for i := range vs {
			vs[i] = randValue(rng, *t.List.Element)
		}
		return octosql.NewList(vs)
	case octosql.TypeIDStruct:
		vs := make([]octosql.Value, len(t.Struct.Fields))
		for i := range vs {
			vs[i] = randValue(rng, t.Struct.Fields[i].Type)
		}
		return octosql.NewStruct(vs)
	case octosql.TypeIDTuple:
		vs := make([]octosql.Value, len(t.Tuple.Elements))
		for i := range vs {
			vs[i] = randValue(rng, t.Tuple.Elements[i])
		}
		return octosql.NewTuple(vs)
	case octosql.TypeIDUnion:
		return randValue(rng, t.Union.Alternatives[rng.Intn(len(t.Union.Alternatives))])
	}
	panic("c25: bad type")
}

func randSchema(rng *rand.Rand, nested bool) []physical.SchemaField {
	n := 1 + rng.Intn(6)
	perm := rng.Perm(len(colNames))
	fs := make([]physical.SchemaField, n)
	for i := range fs {
		fs[i] = physical.SchemaField{Name: colNames[perm[i]], Type: randType(rng, 0, nested)}
	}
	return fs
}

// ---------------------------------------------------------------------------------------------
// predicates of the anticipated defects (computed from the INPUT row only)

// goEscapeRune: strconv.Quote writes r in a way that is not a JSON escape.
func goEscapeRune(r rune) bool {
	switch {
	case r == '\n' || r == '\r' || r == '\t' || r == '\b' || r == '\f':
		return false
	case r < 0x20 || r == 0x7f:
		return true // \x.., \a, \v
	case r > 0xFFFF && !strconv.IsPrint(r):
		return true // \U........
	}
	return false
}

// needsGoEscape: fastjson takes its slow path (strconv.AppendQuote) for s - s has a quote, a
// backslash or a byte below 0x20 - and s holds a rune Go escapes in non-JSON syntax.
func needsGoEscape(s string) bool {
	slow := strings.ContainsAny(s, "\"\\")
	for i := 0; i < len(s) && !slow; i++ {
		if s[i] < 0x20 {
			slow = true
		}
	}
	if !slow {
		return false
	}
	for _, r := range s {
		if goEscapeRune(r) {
			return true
		}
	}
	return false
}

func walk(v octosql.Value, fn func(octosql.Value)) {
	fn(v)
	for _, x := range v.List {
		walk(x, fn)
	}
	for _, x := range v.Struct {
		walk(x, fn)
	}
	for _, x := range v.Tuple {
		walk(x, fn)
	}
}

func rowHas(row []octosql.Value, pred func(octosql.Value) bool) bool {
	found := false
	for _, v := range row {
		walk(v, func(x octosql.Value) {
			if pred(x) {
				found = true
			}
		})
	}
	return found
}

func isNonFinite(v octosql.Value) bool {
	return v.TypeID == octosql.TypeIDFloat && (math.IsNaN(v.Float) || math.IsInf(v.Float, 0))
}

func isGoEscapeString(v octosql.Value) bool {
	return v.TypeID == octosql.TypeIDString && needsGoEscape(v.Str)
}

// ---------------------------------------------------------------------------------------------
// comparison of decoded output with the value written

type diffs struct {
	list      []string
	sub       int      // sub-second time precision dropped (not judged)
	nonfinite []string // NaN / +-Inf not printed faithfully (attributed to its own finding)
	nfString  int      // NaN / +-Inf printed as a string strconv reads back to the same value (accepted)
}

func (d *diffs) add(path, what string) {
	if len(d.list) < 6 {
		d.list = append(d.list, path+": "+what)
	}
}

func structFields(t octosql.Type) []octosql.StructField {
	if t.TypeID == octosql.TypeIDStruct {
		return t.Struct.Fields
	}
	if t.TypeID == octosql.TypeIDUnion {
		for _, a := range t.Union.Alternatives {
			if a.TypeID == octosql.TypeIDStruct {
				return a.Struct.Fields
			}
		}
	}
	return nil
}

func altOf(t octosql.Type, id octosql.TypeID) octosql.Type {
	if t.TypeID == octosql.TypeIDUnion {
		for _, a := range t.Union.Alternatives {
			if a.TypeID == id {
				return a
			}
		}
	}
	return t
}

func timeEq(s string, want time.Time, d *diffs) bool {
	got, err := time.Parse(time.RFC3339Nano, s)
	if err != nil {
		return false
	}
	if got.Equal(want) {
		return true
	}
	if got.Equal(want.Truncate(time.Second)) {
		d.sub++ // the formats print RFC3339 without fractional seconds; the statement does not list times
		return true
	}
	return false
}

// cmpJSON compares a decoded JSON value with the octosql value it was printed from.
func cmpJSON(path string, t octosql.Type, v octosql.Value, dec interface{}, d *diffs) {
	switch v.TypeID {
	case octosql.TypeIDNull:
		if dec != nil {
			d.add(path, fmt.Sprintf("NULL printed as %v", dec))
		}
	case octosql.TypeIDInt:
		n, ok := dec.(json.Number)
		want := v.Int
		if selftest && want%5 == 0 {
			want++ // deliberately wrong expectation
		}
		if got, err := strconv.ParseInt(string(n), 10, 64); !ok || err != nil || got != want {
			d.add(path, fmt.Sprintf("Int %d printed as %v", want, dec))
		}
	case octosql.TypeIDFloat:
		if math.IsNaN(v.Float) || math.IsInf(v.Float, 0) {
			// JSON has no number for these. A string that strconv reads back to the same value keeps
			// the information and is accepted; null (or anything else) is the non-finite finding.
			if s, ok := dec.(string); ok {
				if got, err := strconv.ParseFloat(s, 64); err == nil && fileh.FloatEq(got, v.Float) {
					d.nfString++
					return
				}
			}
			d.nonfinite = append(d.nonfinite, fmt.Sprintf("%s: Float %s printed as %v", path, strconv.FormatFloat(v.Float, 'g', -1, 64), dec))
			return
		}
		n, ok := dec.(json.Number)
		if got, err := strconv.ParseFloat(string(n), 64); !ok || err != nil || !fileh.FloatEq(got, v.Float) {
			d.add(path, fmt.Sprintf("Float %s printed as %v", strconv.FormatFloat(v.Float, 'g', -1, 64), dec))
		}
	case octosql.TypeIDBoolean:
		if b, ok := dec.(bool); !ok || b != v.Boolean {
			d.add(path, fmt.Sprintf("Boolean %v printed as %v", v.Boolean, dec))
		}
	case octosql.TypeIDString:
		if s, ok := dec.(string); !ok || s != v.Str {
			d.add(path, fmt.Sprintf("String %s printed as %v", strconv.Quote(v.Str), dec))
		}
	case octosql.TypeIDTime:
		if s, ok := dec.(string); !ok || !timeEq(s, v.Time, d) {
			d.add(path, fmt.Sprintf("Time %s printed as %v", v.Time.Format(time.RFC3339Nano), dec))
		}
	case octosql.TypeIDDuration:
		s, ok := dec.(string)
		if got, err := time.ParseDuration(s); !ok || err != nil || got != v.Duration {
			d.add(path, fmt.Sprintf("Duration %d ns printed as %v", int64(v.Duration), dec))
		}
	case octosql.TypeIDList:
		l, ok := dec.([]interface{})
		if !ok || len(l) != len(v.List) {
			d.add(path, fmt.Sprintf("list of %d printed as %v", len(v.List), dec))
			return
		}
		lt := altOf(t, octosql.TypeIDList)
		var et octosql.Type
		if lt.List.Element != nil {
			et = *lt.List.Element
		}
		for i := range l {
			cmpJSON(path+"["+strconv.Itoa(i)+"]", et, v.List[i], l[i], d)
		}
	case octosql.TypeIDStruct:
		o, ok := dec.(map[string]interface{})
		fs := structFields(t)
		if !ok || len(fs) != len(v.Struct) || len(o) != len(fs) {
			d.add(path, fmt.Sprintf("object of %d fields printed as %v", len(v.Struct), dec))
			return
		}
		for i, f := range fs {
			dv, ok := o[f.Name]
			if !ok {
				d.add(path, "field "+f.Name+" is not printed")
				continue
			}
			cmpJSON(path+"."+f.Name, f.Type, v.Struct[i], dv, d)
		}
	case octosql.TypeIDTuple:
		l, ok := dec.([]interface{})
		if !ok || len(l) != len(v.Tuple) {
			d.add(path, fmt.Sprintf("tuple of %d printed as %v", len(v.Tuple), dec))
			return
		}
		tt := altOf(t, octosql.TypeIDTuple)
		for i := range l {
			var et octosql.Type
			if i < len(tt.Tuple.Elements) {
				et = tt.Tuple.Elements[i]
			}
			cmpJSON(path+"("+strconv.Itoa(i)+")", et, v.Tuple[i], l[i], d)
		}
	}
}

func cmpCSV(path string, v octosql.Value, field string, d *diffs) {
	switch v.TypeID {
	case octosql.TypeIDNull:
		if field != "" {
			d.add(path, fmt.Sprintf("NULL printed as %q", field))
		}
	case octosql.TypeIDInt:
		want := v.Int
		if selftest && want%5 == 0 {
			want++
		}
		if got, err := strconv.ParseInt(field, 10, 64); err != nil || got != want {
			d.add(path, fmt.Sprintf("Int %d printed as %q", want, field))
		}
	case octosql.TypeIDFloat:
		if got, err := strconv.ParseFloat(field, 64); err != nil || !fileh.FloatEq(got, v.Float) {
			d.add(path, fmt.Sprintf("Float %s printed as %q", strconv.FormatFloat(v.Float, 'g', -1, 64), field))
		}
	case octosql.TypeIDBoolean:
		if got, err := strconv.ParseBool(field); err != nil || got != v.Boolean || (field != "true" && field != "false") {
			d.add(path, fmt.Sprintf("Boolean %v printed as %q", v.Boolean, field))
		}
	case octosql.TypeIDString:
		if field != v.Str {
			d.add(path, fmt.Sprintf("String %s printed as %s", strconv.Quote(v.Str), strconv.Quote(field)))
		}
	case octosql.TypeIDTime:
		if !timeEq(field, v.Time, d) {
			d.add(path, fmt.Sprintf("Time %s printed as %q", v.Time.Format(time.RFC3339Nano), field))
		}
	case octosql.TypeIDDuration:
		if got, err := time.ParseDuration(field); err != nil || got != v.Duration {
			d.add(path, fmt.Sprintf("Duration %d ns printed as %q", int64(v.Duration), field))
		}
	}
}

func showRow(row []octosql.Value) string {
	parts := make([]string, len(row))
	for i := range row {
		parts[i] = fileh.ShowVal(row[i])
	}
	return strings.Join(parts, " | ")
}

func showSchema(fs []physical.SchemaField) string {
	parts := make([]string, len(fs))
	for i := range fs {
		parts[i] = fs[i].Name + ": " + fileh.TypeText(fs[i].Type)
	}
	return strings.Join(parts, ", ")
}

// ---------------------------------------------------------------------------------------------
// in-process legs

func jsonBatch(c *core.Ctx, id string, rng *rand.Rand, nRows int) {
	jsonBatchOf(c, id, rng, nRows, randSchema(rng, true), nil)
}

// jsonBatchOf: gen == nil draws random rows for fs.
func jsonBatchOf(c *core.Ctx, id string, rng *rand.Rand, nRows int, fs []physical.SchemaField, gen func(i int) []octosql.Value) {
	var buf bytes.Buffer
	var f *formats.JSONFormatter
	p, msg := core.Try(func() {
		f = formats.NewJSONFormatter(&buf)
		f.SetSchema(physical.NewSchema(fs, -1))
	})
	if p {
		c.Eval(1)
		c.Violation("json:setschema-panic", msg, map[string]interface{}{"id": id, "schema": showSchema(fs)})
		return
	}
	for i := 0; i < nRows; i++ {
		row := make([]octosql.Value, len(fs))
		if gen != nil {
			row = gen(i)
		} else {
			for j := range row {
				row[j] = randValue(rng, fs[j].Type)
			}
		}
		c.Eval(1)
		start := buf.Len()
		var werr error
		p, msg := core.Try(func() { werr = f.Write(row) })
		line := append([]byte{}, buf.Bytes()[start:]...)
		buf.Reset()
		replay := map[string]interface{}{"id": id, "row_index": i, "format": "json", "schema": showSchema(fs), "row": showRow(row), "printed": string(line), "rerun": "./check C25 <tier> --only " + id}
		if p {
			c.Violation("json:write-panic", "JSONFormatter.Write panicked: "+msg, replay)
			return
		}
		if werr != nil {
			c.Violation("json:write-error", "JSONFormatter.Write failed: "+werr.Error(), replay)
			continue
		}
		c.Count("inproc/json/rows", 1)
		goEsc, nonFin := rowHas(row, isGoEscapeString), rowHas(row, isNonFinite)
		if goEsc {
			c.Count("inproc/json/rows_with_go_escape_string", 1)
		}
		if nonFin {
			c.Count("inproc/json/rows_with_nonfinite_float", 1)
		}
		if !utf8.Valid(line) {
			c.Violation("json:invalid-utf8", "printed line is not valid UTF-8 although every string is", replay)
			continue
		}
		rows, err := cli.DecodeJSONLines(line)
		if err != nil || len(rows) != 1 {
			what := "one row printed as " + strconv.Itoa(len(rows)) + " lines"
			if err != nil {
				what = "printed line is not valid JSON: " + err.Error()
			}
			// attribution by input predicate; the symptom (undecodable line) is the same for both
			switch {
			case goEsc && nonFin:
				c.Violation("json-string-go-escape", what, replay)
				c.Violation("json-nonfinite-float", what, replay)
			case goEsc:
				c.Violation("json-string-go-escape", what, replay)
			case nonFin:
				c.Violation("json-nonfinite-float", what, replay)
			default:
				c.Violation("json:invalid-line", what, replay)
			}
			continue
		}
		if goEsc || nonFin {
			// predicate holds but the line decoded: then it must also decode to the right values (below)
			c.Count("inproc/json/predicate_rows_that_decoded", 1)
		}
		d := &diffs{}
		dec := rows[0]
		if len(dec.Keys) != len(fs) {
			d.add("row", fmt.Sprintf("%d columns printed for %d", len(dec.Keys), len(fs)))
		} else {
			for j, fld := range fs {
				if dec.Keys[j] != fld.Name {
					d.add("row", fmt.Sprintf("column %d printed as %q, is %q", j, dec.Keys[j], fld.Name))
					continue
				}
				cmpJSON(fld.Name, fld.Type, row[j], dec.Values[fld.Name], d)
			}
		}
		if d.sub > 0 {
			c.Count("inproc/json/subsecond_time_truncated_not_judged", d.sub)
		}
		if d.nfString > 0 {
			c.Count("inproc/json/nonfinite_float_as_string_accepted", d.nfString)
		}
		if len(d.nonfinite) > 0 {
			c.Violation("json-nonfinite-float", "a non-finite float is not printed in a form that decodes back to it: "+strings.Join(d.nonfinite, "; "), replay)
		}
		if len(d.list) > 0 {
			c.Violation("json:value", "the printed line decodes to other values: "+strings.Join(d.list, "; "), replay)
			continue
		}
		if len(d.nonfinite) > 0 {
			continue
		}
		nontrivial(c, "json", fs, row)
		c.Sample(replay)
	}
}

// nontrivial: the row has at least one non-NULL value that is not a plain ASCII-alphanumeric
// string / small int (i.e. something that needs the encoder's attention); distinct by content.
func nontrivial(c *core.Ctx, format string, fs []physical.SchemaField, row []octosql.Value) {
	interesting := rowHas(row, func(v octosql.Value) bool {
		switch v.TypeID {
		case octosql.TypeIDNull, octosql.TypeIDBoolean:
			return false
		case octosql.TypeIDInt:
			return v.Int > 1<<31 || v.Int < -(1<<31)
		case octosql.TypeIDString:
			for _, r := range v.Str {
				if !(r >= 'a' && r <= 'z' || r >= 'A' && r <= 'Z' || r >= '0' && r <= '9') {
					return true
				}
			}
			return false
		}
		return true
	})
	if interesting {
		c.Nontrivial(format + "|" + showSchema(fs) + "|" + showRow(row))
	}
}

func csvBatch(c *core.Ctx, id string, rng *rand.Rand, nRows int) {
	csvBatchOf(c, id, rng, nRows, randSchema(rng, false), nil)
}

func csvBatchOf(c *core.Ctx, id string, rng *rand.Rand, nRows int, fs []physical.SchemaField, gen func(i int) []octosql.Value) {
	var buf bytes.Buffer
	rowsIn := make([][]octosql.Value, nRows)
	var failed string
	p, msg := core.Try(func() {
		f := formats.NewCSVFormatter(&buf)
		f.SetSchema(physical.NewSchema(fs, -1))
		for i := range rowsIn {
			row := make([]octosql.Value, len(fs))
			if gen != nil {
				row = gen(i)
			} else {
				for j := range row {
					row[j] = randValue(rng, fs[j].Type)
				}
			}
			rowsIn[i] = row
			if err := f.Write(row); err != nil {
				failed = err.Error()
				return
			}
		}
		if err := f.Close(); err != nil {
			failed = err.Error()
		}
	})
	c.Eval(nRows)
	out := append([]byte{}, buf.Bytes()...)
	replay := map[string]interface{}{"id": id, "format": "csv", "schema": showSchema(fs), "printed": trunc(string(out), 8000), "rerun": "./check C25 <tier> --only " + id}
	if p {
		c.Violation("csv:write-panic", "CSVFormatter panicked: "+msg, replay)
		return
	}
	if failed != "" {
		c.Violation("csv:write-error", "CSVFormatter failed: "+failed, replay)
		return
	}
	recs, err := cli.DecodeCSV(out, ',')
	if err != nil {
		c.Violation("csv:invalid", "output is not RFC 4180: "+err.Error(), replay)
		return
	}
	if len(recs) != nRows+1 {
		c.Violation("csv:record-count", fmt.Sprintf("%d rows (+header) printed as %d records", nRows, len(recs)), replay)
		return
	}
	for j, fld := range fs {
		if len(recs[0]) != len(fs) || recs[0][j] != fld.Name {
			c.Violation("csv:header", fmt.Sprintf("header is %q", recs[0]), replay)
			return
		}
	}
	for i, row := range rowsIn {
		c.Count("inproc/csv/rows", 1)
		rec := recs[i+1]
		d := &diffs{}
		if len(rec) != len(row) {
			d.add("row", fmt.Sprintf("%d fields for %d values", len(rec), len(row)))
		} else {
			for j := range row {
				cmpCSV(fs[j].Name, row[j], rec[j], d)
			}
		}
		if d.sub > 0 {
			c.Count("inproc/csv/subsecond_time_truncated_not_judged", d.sub)
		}
		if len(d.list) > 0 {
			rp := map[string]interface{}{}
			for k, v := range replay {
				rp[k] = v
			}
			rp["row_index"], rp["row"], rp["record"] = i, showRow(row), fmt.Sprintf("%q", rec)
			c.Violation("csv:value", "record decodes to other values: "+strings.Join(d.list, "; "), rp)
			continue
		}
		nontrivial(c, "csv", fs, row)
		if i == 0 {
			c.Sample(map[string]interface{}{"id": id, "format": "csv", "schema": showSchema(fs), "row": showRow(row), "record": fmt.Sprintf("%q", rec)})
		}
	}
}

func trunc(s string, n int) string {
	if len(s) > n {
		return s[:n] + "..."
	}
	return s
}

// ---------------------------------------------------------------------------------------------

func Run(c *core.Ctx) core.FinishOpts {
	fileh.ApplyReplay(c)
	nBatches := c.Pick(100, 10000)
	perBatch := 25
	ids := []string{}
	for i := 0; i < nBatches; i++ {
		ids = append(ids, fmt.Sprintf("json-%d", i), fmt.Sprintf("csv-%d", i))
	}
	core.Parallel(len(ids), 8, func(k int) {
		id := ids[k]
		if c.Only != "" && c.Only != id {
			return
		}
		rng := c.Rng("batch/" + id)
		if strings.HasPrefix(id, "json-") {
			jsonBatch(c, id, rng, perBatch)
		} else {
			csvBatch(c, id, rng, perBatch)
		}
	})
	edgeBatches(c)
	runCLI(c)
	return core.FinishOpts{
		Level: "exploration",
		Rule: "rows = random typed rows (Int extremes, floats incl. +-0, subnormals, NaN, +-Inf, whole-number floats at and around every integer-conversion edge (+-2^63 and neighbours, 2^62, 2^53, 2^32, 2^31, 2^64, 1e15..1e23, MaxFloat64) - all of them deterministically in both formatters and through the CLI -, valid-UTF-8 strings with control characters, quotes, separators, newlines, " +
			"times, durations, nested lists/objects/tuples to depth 3, union-typed columns) written through the real formatters, 25 rows per formatter instance; CLI leg: JSON/CSV inputs and SQL literals through the binary; " +
			"non-trivial = the row decoded to the written values and holds a value other than NULL/Boolean/small Int/alphanumeric String; distinct by (format, schema, row)",
		Floor: c.Pick(2000, 150000),
		Assumptions: []string{"encoding/json with UseNumber is the reference JSON decoder; cli.DecodeCSV is an own strict RFC-4180 decoder", "strconv.ParseFloat/ParseInt are correctly rounding / exact",
			"Time is judged at second precision (the formats print RFC3339; the statement does not list times), Duration by time.ParseDuration"},
	}
}

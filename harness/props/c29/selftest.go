package c29

import (
	"fmt"
	"os"
	"os/exec"
	"path/filepath"
	"strings"
	"time"

	"github.com/cube2222/octosql/plugins/verifharness/cli"
)

// ---------------------------------------------------------------------------------------------
// Self-test (VERIF_SELFTEST=1): shows that both oracles fire and that the classifier refuses to
// call a dump with live work a deadlock.
//
//  1. canned texts in the exact formats of go1.23 (a race report, an octosql-shaped deadlock dump,
//     the same dump with a goroutine reading stdin, the same with a runnable goroutine);
//  2. live: a tiny Go program with a deliberate race / a deliberate deadlock / a deadlock plus a
//     sleeping or spinning goroutine is compiled with `go build -race` under the scratch directory
//     and run through exactly the code path the CLI leg uses (GORACE log_path, watchdog, SIGQUIT,
//     dump classification).
//
// Expected: VIOLATION lines with race:... and deadlock:... keys, INCONCLUSIVE for the live dumps,
// exit code 1. A self-test expectation that is not met is itself reported (key selftest-broken:...).

const cannedRace = `==================
WARNING: DATA RACE
Write at 0x00c0001a2010 by goroutine 52:
  github.com/valyala/fastjson.(*Parser).ParseBytes()
      /root/go/pkg/mod/github.com/valyala/fastjson@v1.6.3/parser.go:44 +0x84
  github.com/cube2222/octosql/datasources/json.init.func1.1()
      /repo/datasources/json/workers.go:55 +0x2a4

Previous write at 0x00c0001a2010 by goroutine 51:
  github.com/valyala/fastjson.(*Parser).ParseBytes()
      /root/go/pkg/mod/github.com/valyala/fastjson@v1.6.3/parser.go:44 +0x84
  github.com/cube2222/octosql/datasources/json.init.func1.1()
      /repo/datasources/json/workers.go:55 +0x2a4

Goroutine 52 (running) created at:
  github.com/cube2222/octosql/datasources/json.init.func1()
      /repo/datasources/json/workers.go:44 +0x104
  github.com/cube2222/octosql/datasources/json.init()
      /repo/datasources/json/workers.go:86 +0x24

Goroutine 51 (running) created at:
  github.com/cube2222/octosql/datasources/json.init.func1()
      /repo/datasources/json/workers.go:44 +0x104
  github.com/cube2222/octosql/datasources/json.init()
      /repo/datasources/json/workers.go:86 +0x24
==================
==================
WARNING: DATA RACE
Write at 0x00c0001a2018 by goroutine 52:
  github.com/valyala/fastjson.(*Parser).ParseBytes()
      /root/go/pkg/mod/github.com/valyala/fastjson@v1.6.3/parser.go:44 +0x84
  github.com/cube2222/octosql/datasources/json.init.func1.1()
      /repo/datasources/json/workers.go:57 +0x2a4

Previous write at 0x00c0001a2018 by goroutine 53:
  github.com/valyala/fastjson.(*Parser).ParseBytes()
      /root/go/pkg/mod/github.com/valyala/fastjson@v1.6.3/parser.go:44 +0x84
  github.com/cube2222/octosql/datasources/json.init.func1.1()
      /repo/datasources/json/workers.go:57 +0x2a4

Goroutine 52 (running) created at:
  github.com/cube2222/octosql/datasources/json.init.func1()
      /repo/datasources/json/workers.go:44 +0x104

Goroutine 53 (running) created at:
  github.com/cube2222/octosql/datasources/json.init.func1()
      /repo/datasources/json/workers.go:44 +0x104
==================
Found 2 data race(s)
`

// the pool lock-up the token channel exists to prevent, as a go1.23 SIGQUIT dump
const cannedDeadlockCore = `SIGQUIT: quit
PC=0x4b9e21 m=0 sigcode=0

goroutine 0 gp=0x1e0fe00 m=0 mp=0x1e11280 [idle]:
runtime.futex(0x1e113c0, 0x80, 0x0, 0x0, 0x0, 0x0)
	/usr/local/go/src/runtime/sys_linux_amd64.s:557 +0x21 fp=0x7ffdaa045d30 sp=0x7ffdaa045d28 pc=0x4b9e21
runtime.futexsleep(0x7ffdaa045d88?, 0x1e0fe00?, 0x7ffdaa045d88?)
	/usr/local/go/src/runtime/os_linux.go:69 +0x30 fp=0x7ffdaa045d80 sp=0x7ffdaa045d30 pc=0x4764f0

goroutine 1 gp=0xc0000061c0 m=nil [chan receive, 2 minutes]:
runtime.gopark(0xc0004f1170?, 0xc000358a48?, 0x5c?, 0x86?, 0x0?)
	/usr/local/go/src/runtime/proc.go:424 +0xce fp=0xc0003588c0 sp=0xc0003588a0 pc=0x4b14ee
runtime.chanrecv(0xc0004c4850, 0xc000358910, 0x1)
	/usr/local/go/src/runtime/chan.go:639 +0x41c fp=0xc000358938 sp=0xc0003588c0 pc=0x44a0fc
runtime.chanrecv2(0x169b110?, 0xc0004aa240?)
	/usr/local/go/src/runtime/chan.go:494 +0x12 fp=0xc000358960 sp=0xc000358938 pc=0x449cd2
github.com/cube2222/octosql/execution/nodes.(*StreamJoin).Run(0xc000a24730, {{0x169b110?, 0xc0004aa240?}, 0x0?}, 0xc0004f1170, 0x154f0c8)
	/repo/execution/nodes/stream_join.go:293 +0x1a3b fp=0xc000358ee0 sp=0xc000358960 pc=0xc4d9fb
github.com/cube2222/octosql/execution/nodes.(*Map).Run(0xc0004f1110, {{0x169b110?, 0xc0004aa240?}, 0x0?}, 0xc000a30480, 0x154f0c8)
	/repo/execution/nodes/map.go:25 +0x16a fp=0xc000358f58 sp=0xc000358ee0 pc=0xc4590a
github.com/cube2222/octosql/cmd.init.func4(0x1e000c0, {0xc0004aa180, 0x1, 0x14e8a3b?})
	/repo/cmd/root.go:477 +0x6e85 fp=0xc000359c10 sp=0xc000359000 pc=0x1158ee5
main.main()
	/repo/main.go:24 +0x21d fp=0xc000359f50 sp=0xc000359ee8 pc=0x115e5bd
runtime.main()
	/usr/local/go/src/runtime/proc.go:272 +0x29d fp=0xc000359fe0 sp=0xc000359f50 pc=0x47c43d
runtime.goexit({})
	/usr/local/go/src/runtime/asm_amd64.s:1700 +0x1 fp=0xc000359fe8 sp=0xc000359fe0 pc=0x4b8381

goroutine 2 gp=0xc000006c40 m=nil [force gc (idle), 2 minutes]:
runtime.gopark(0x1ce9b40?, 0x1e11280?, 0x0?, 0x0?, 0x0?)
	/usr/local/go/src/runtime/proc.go:424 +0xce fp=0xc000084fa8 sp=0xc000084f88 pc=0x4b14ee
runtime.forcegchelper()
	/usr/local/go/src/runtime/proc.go:337 +0xb8 fp=0xc000084fe0 sp=0xc000084fc8 pc=0x47c778
created by runtime.init.7 in goroutine 1
	/usr/local/go/src/runtime/proc.go:325 +0x1a

goroutine 19 gp=0xc000104540 m=nil [GC scavenge wait]:
runtime.gopark(0xc000112000?, 0x1687488?, 0x0?, 0x0?, 0x0?)
	/usr/local/go/src/runtime/proc.go:424 +0xce fp=0xc000080f78 sp=0xc000080f58 pc=0x4b14ee
runtime.bgscavenge(0xc000112000)
	/usr/local/go/src/runtime/mgcscavenge.go:658 +0x59 fp=0xc000080fc8 sp=0xc000080fa8 pc=0x460d59
created by runtime.gcenable in goroutine 1
	/usr/local/go/src/runtime/mgc.go:204 +0xa5

goroutine 50 gp=0xc00024dc00 m=nil [select, 2 minutes]:
runtime.gopark(0xc00044bb58?, 0x2?, 0x6c?, 0xbc?, 0xc00044e137?)
	/usr/local/go/src/runtime/proc.go:424 +0xce fp=0xc00044b9e8 sp=0xc00044b9c8 pc=0x4b14ee
runtime.selectgo(0xc00044bf60, 0xc00044bb54, 0x0?, 0x0, 0x0?, 0x1)
	/usr/local/go/src/runtime/select.go:335 +0x7a5 fp=0xc00044bb10 sp=0xc00044b9e8 pc=0x48f2a5
github.com/cube2222/octosql/datasources/json.init.func1.1()
	/repo/datasources/json/workers.go:78 +0x8f1 fp=0xc00044bfe0 sp=0xc00044bb10 pc=0xd0e9b1
runtime.goexit({})
	/usr/local/go/src/runtime/asm_amd64.s:1700 +0x1 fp=0xc00044bfe8 sp=0xc00044bfe0 pc=0x4b8381
created by github.com/cube2222/octosql/datasources/json.init.func1 in goroutine 1
	/repo/datasources/json/workers.go:44 +0x105

goroutine 51 gp=0xc00024ddc0 m=nil [chan receive, 2 minutes]:
runtime.gopark(0xc0001bfb58?, 0xc001d00008?, 0x6c?, 0xfc?, 0xc000374377?)
	/usr/local/go/src/runtime/proc.go:424 +0xce fp=0xc0001bfae0 sp=0xc0001bfac0 pc=0x4b14ee
runtime.chanrecv(0xc0003a2fc0, 0xc0001bfda8, 0x1)
	/usr/local/go/src/runtime/chan.go:639 +0x41c fp=0xc0001bfb58 sp=0xc0001bfae0 pc=0x44a0fc
runtime.chanrecv2(0xc0001bfd88?, 0xc0001bfc68?)
	/usr/local/go/src/runtime/chan.go:494 +0x12 fp=0xc0001bfb80 sp=0xc0001bfb58 pc=0x449cd2
github.com/cube2222/octosql/datasources/json.init.func1.1()
	/repo/datasources/json/workers.go:47 +0x94b fp=0xc0001bffe0 sp=0xc0001bfb80 pc=0xd0ea0b
runtime.goexit({})
	/usr/local/go/src/runtime/asm_amd64.s:1700 +0x1 fp=0xc0001bffe8 sp=0xc0001bffe0 pc=0x4b8381
created by github.com/cube2222/octosql/datasources/json.init.func1 in goroutine 1
	/repo/datasources/json/workers.go:44 +0x105

goroutine 82 gp=0xc000480000 m=3 mp=0xc000088e08 [syscall, 2 minutes]:
runtime.notetsleepg(0x1e4ac60, 0xffffffffffffffff)
	/usr/local/go/src/runtime/lock_futex.go:246 +0x29 fp=0xc0001237a0 sp=0xc000123778 pc=0x44e309
os/signal.signal_recv()
	/usr/local/go/src/runtime/sigqueue.go:152 +0x29 fp=0xc0001237c0 sp=0xc0001237a0 pc=0x4b4a09
os/signal.loop()
	/usr/local/go/src/os/signal/signal_unix.go:23 +0x1d fp=0xc0001237e0 sp=0xc0001237c0 pc=0xb5e2bd
created by os/signal.Notify.func1.1 in goroutine 1
	/usr/local/go/src/os/signal/signal.go:151 +0x47

goroutine 83 gp=0xc0004801c0 m=nil [chan receive, 2 minutes]:
runtime.gopark(0x0?, 0x0?, 0x0?, 0x0?, 0x0?)
	/usr/local/go/src/runtime/proc.go:424 +0xce fp=0xc000123f18 sp=0xc000123ef8 pc=0x4b14ee
runtime.chanrecv(0xc000175ce0, 0x0, 0x1)
	/usr/local/go/src/runtime/chan.go:639 +0x41c fp=0xc000123f90 sp=0xc000123f18 pc=0x44a0fc
runtime.chanrecv1(0x0?, 0x0?)
	/usr/local/go/src/runtime/chan.go:489 +0x12 fp=0xc000123fb8 sp=0xc000123f90 pc=0x449cb2
main.main.func1()
	/repo/main.go:17 +0x3b fp=0xc000123fe0 sp=0xc000123fb8 pc=0x115e67b
created by main.main in goroutine 1
	/repo/main.go:16 +0x1d6

goroutine 84 gp=0xc000480380 m=nil [select, 2 minutes]:
runtime.gopark(0xc000129f60?, 0x2?, 0x0?, 0x0?, 0xc000129f2c?)
	/usr/local/go/src/runtime/proc.go:424 +0xce fp=0xc000129dd0 sp=0xc000129db0 pc=0x4b14ee
runtime.selectgo(0xc000129f60, 0xc000129f28, 0xc000129f40?, 0x0, 0x2?, 0x1)
	/usr/local/go/src/runtime/select.go:335 +0x7a5 fp=0xc000129ef8 sp=0xc000129dd0 pc=0x48f2a5
github.com/dgraph-io/ristretto.(*defaultPolicy).processItems(0xc0004aa420)
	/root/go/pkg/mod/github.com/dgraph-io/ristretto@v0.1.0/policy.go:96 +0xd1 fp=0xc000129fc0 sp=0xc000129ef8 pc=0xb93c91
created by github.com/dgraph-io/ristretto.newDefaultPolicy in goroutine 1
	/root/go/pkg/mod/github.com/dgraph-io/ristretto@v0.1.0/policy.go:80 +0x1c5

goroutine 90 gp=0xc000a36000 m=nil [chan send, 2 minutes]:
runtime.gopark(0xc0001c1cf8?, 0x3?, 0x48?, 0x23?, 0xc0001c1baa?)
	/usr/local/go/src/runtime/proc.go:424 +0xce fp=0xc0001c1a80 sp=0xc0001c1a60 pc=0x4b14ee
runtime.chansend(0xc0004c4850, 0xc0001c1b78, 0x1, 0x0?)
	/usr/local/go/src/runtime/chan.go:259 +0x38d fp=0xc0001c1af8 sp=0xc0001c1a80 pc=0x4491ed
runtime.chansend1(0x0?, 0x0?)
	/usr/local/go/src/runtime/chan.go:145 +0x17 fp=0xc0001c1b28 sp=0xc0001c1af8 pc=0x448e37
github.com/cube2222/octosql/execution/nodes.(*StreamJoin).Run.func1.1({0x0?}, {{0xc002b6a000?, 0x5?, 0x8?}, 0x0?, {0x0?, 0x0?, 0x0?}})
	/repo/execution/nodes/stream_join.go:54 +0xe5 fp=0xc0001c1c00 sp=0xc0001c1b28 pc=0xc4f4a5
github.com/cube2222/octosql/datasources/json.(*DatasourceExecuting).Run(0xc0004f1080, {{0x169b110, 0xc0004aa240}, 0x0}, 0xc0004f1200, 0x0?)
	/repo/datasources/json/execution.go:131 +0xa2b fp=0xc0001c1f00 sp=0xc0001c1c00 pc=0xd0c2ab
github.com/cube2222/octosql/execution/nodes.(*StreamJoin).Run.func1()
	/repo/execution/nodes/stream_join.go:53 +0x145 fp=0xc0001c1fe0 sp=0xc0001c1f00 pc=0xc4f2a5
created by github.com/cube2222/octosql/execution/nodes.(*StreamJoin).Run in goroutine 1
	/repo/execution/nodes/stream_join.go:52 +0x3a5

goroutine 93 gp=0xc000a36540 m=nil [chan send, 2 minutes]:
runtime.gopark(0x0?, 0x0?, 0x0?, 0x0?, 0x0?)
	/usr/local/go/src/runtime/proc.go:424 +0xce fp=0xc000124d50 sp=0xc000124d30 pc=0x4b14ee
runtime.chansend(0xc0003a2fc0, 0xc000124e88, 0x1, 0x0?)
	/usr/local/go/src/runtime/chan.go:259 +0x38d fp=0xc000124dc8 sp=0xc000124d50 pc=0x4491ed
runtime.chansend1(0x0?, 0x0?)
	/usr/local/go/src/runtime/chan.go:145 +0x17 fp=0xc000124df8 sp=0xc000124dc8 pc=0x448e37
github.com/cube2222/octosql/datasources/json.(*DatasourceExecuting).Run.func1()
	/repo/datasources/json/execution.go:83 +0x5c5 fp=0xc000124fe0 sp=0xc000124df8 pc=0xd0cc85
created by github.com/cube2222/octosql/datasources/json.(*DatasourceExecuting).Run in goroutine 91
	/repo/datasources/json/execution.go:59 +0x5d2
`

const cannedLiveStdin = `
goroutine 92 gp=0xc000a36380 m=7 mp=0xc000100708 [syscall]:
syscall.Syscall(0x0, 0x0, 0xc000a42000, 0x1000)
	/usr/local/go/src/syscall/syscall_linux.go:73 +0x25 fp=0xc000a2da58 sp=0xc000a2d9f8 pc=0x51d065
syscall.read(0x0, {0xc000a42000, 0x1000, 0x800000?})
	/usr/local/go/src/syscall/zsyscall_linux_amd64.go:736 +0x38 fp=0xc000a2daa0 sp=0xc000a2da58 pc=0x51a8b8
os.(*File).Read(0xc0001a0098, {0xc000a42000, 0x1000, 0x1000})
	/usr/local/go/src/os/file.go:124 +0x52 fp=0xc000a2dbb0 sp=0xc000a2db70 pc=0x54a3d2
github.com/cube2222/octosql/execution/files.(*concurrentReaderDecrementingCloser).Read(0xc000494610, {0xc000a42000, 0x1000, 0x1000})
	<autogenerated>:1 +0x4a fp=0xc000a2dc40 sp=0xc000a2dc00 pc=0xb9a6ea
bufio.(*Scanner).Scan(0xc000a2df28)
	/usr/local/go/src/bufio/scan.go:219 +0x83c fp=0xc000a2de10 sp=0xc000a2dcd8 pc=0x5e5b9c
github.com/cube2222/octosql/datasources/json.(*DatasourceExecuting).Run.func1()
	/repo/datasources/json/execution.go:73 +0x1c5 fp=0xc000a2dfe0 sp=0xc000a2de10 pc=0xd0c885
created by github.com/cube2222/octosql/datasources/json.(*DatasourceExecuting).Run in goroutine 90
	/repo/datasources/json/execution.go:59 +0x5d2
`

const cannedLiveRunnable = `
goroutine 95 gp=0xc000a36700 m=nil [runnable]:
runtime.goschedguarded(...)
	/usr/local/go/src/runtime/proc.go:4070
runtime.mallocgc(0x400000, 0xd1d1e0, 0x1)
	/usr/local/go/src/runtime/malloc.go:1171 +0x5f6 fp=0xc0001279e8 sp=0xc000127960 pc=0x4548f6
github.com/cube2222/octosql/execution/files.OpenLocalFile({0xfed178, 0xc0104c4000}, {0xc000127f16, 0x6}, {0xc00004a868, 0x1, 0x0?})
	/repo/execution/files/files.go:77 +0x3b4 fp=0xc000127c00 sp=0xc000127a38 pc=0xb99f34
created by github.com/cube2222/octosql/execution/nodes.(*StreamJoin).Run in goroutine 1
	/repo/execution/nodes/stream_join.go:76 +0x4a5
`

const selftestProgram = `package main

import (
	"fmt"
	"os"
	"os/signal"
	"sync"
	"time"
)

var shared int
var spin int

func bump(wg *sync.WaitGroup) {
	defer wg.Done()
	for i := 0; i < 1000; i++ {
		shared++ // unsynchronised: the deliberate race
	}
}

func sender(a chan int, b chan int) {
	a <- 1 // nobody receives: parked in "chan send" for ever
	b <- 1
}

func locker(mu *sync.Mutex) {
	mu.Lock() // held by main for ever
}

func main() {
	mode := os.Args[1]
	if mode == "race" {
		var wg sync.WaitGroup
		wg.Add(2)
		go bump(&wg)
		go bump(&wg)
		wg.Wait()
		fmt.Println(shared)
		return
	}
	// like octosql's main.go: a signal handler and a goroutine waiting for SIGINT
	sig := make(chan os.Signal, 1)
	signal.Notify(sig, os.Interrupt)
	go func() { <-sig }()
	a, b := make(chan int), make(chan int)
	var mu sync.Mutex
	mu.Lock()
	go sender(a, b)
	go locker(&mu)
	switch mode {
	case "sleep":
		go func() {
			for {
				time.Sleep(20 * time.Millisecond)
			}
		}()
	case "busy":
		go func() {
			for {
				spin++
			}
		}()
	}
	<-b
}
`

func selfTest(d *driver) {
	c := d.c
	note := map[string]interface{}{}
	expect := func(name string, ok bool, detail string) {
		c.Eval(1)
		if ok {
			c.Count("selftest/expectation_met", 1)
			fmt.Printf("SELFTEST ok: %s: %s\n", name, detail)
		} else {
			c.Violation("selftest-broken:"+name, "a self-test expectation was not met: "+detail, map[string]interface{}{"id": "selftest-" + name})
		}
		note[name] = detail
	}

	// ---- 1. canned texts
	reports := parseRaceLog(cannedRace)
	keys := map[string]bool{}
	for _, r := range reports {
		keys[r.Key()] = true
	}
	wantKey := "race:datasources/json/workers.go:datasources/json.init.func1.1|datasources/json/workers.go:datasources/json.init.func1.1"
	expect("canned-race-parsed", len(reports) == 2 && keys[wantKey] && len(keys) == 1 && reports[0].StackPair() == reports[1].StackPair(),
		fmt.Sprintf("2 reports in the canned log, both keyed %v, equal stack pair once line numbers are stripped", keysOf(keys)))
	before := c.Violations()
	d.judgeRaces(reports, map[string]interface{}{"id": "selftest-canned-race"})
	expect("canned-race-reported-once", c.Violations() == before+1, fmt.Sprintf("%d violation(s) for 2 reports of the same race (de-duplicated)", c.Violations()-before))

	v := classifyDump(cannedDeadlockCore)
	expect("canned-deadlock-classified", v.Verdict == "deadlock" && strings.Contains(v.Key, "stream_join.go") && strings.Contains(v.Key, "json.init.func1.1") && strings.Contains(v.Key, "execution.go"),
		fmt.Sprintf("verdict=%s key=%s parked=%v ignored=%v", v.Verdict, v.Key, v.Parked, v.Ignored))
	before = c.Violations()
	out := d.judgeTermination(cli.Result{TimedOut: true, Exit: 2, Stderr: []byte(cannedDeadlockCore)}, map[string]interface{}{"id": "selftest-canned-deadlock"})
	expect("canned-deadlock-reported", out == "watchdog:deadlock" && c.Violations() == before+1, "watchdog stop + all-parked dump -> "+out)

	for name, extra := range map[string]string{"stdin-reader-in-syscall": cannedLiveStdin, "runnable-goroutine": cannedLiveRunnable} {
		v := classifyDump(cannedDeadlockCore + extra)
		expect("canned-live-"+name, v.Verdict == "inconclusive" && len(v.Live) == 1, fmt.Sprintf("verdict=%s live=%v", v.Verdict, v.Live))
		before = c.Violations()
		out := d.judgeTermination(cli.Result{TimedOut: true, Exit: 2, Stderr: []byte(cannedDeadlockCore + extra)}, map[string]interface{}{"id": "selftest-canned-live-" + name})
		expect("canned-live-"+name+"-not-a-violation", out == "watchdog:inconclusive" && c.Violations() == before, "-> "+out)
	}
	v = classifyDump("Error: something else entirely\n")
	expect("no-dump", v.Verdict == "no-dump", "text without goroutines -> "+v.Verdict)

	// ---- 2. live programs
	goBin, err := exec.LookPath("go")
	if err != nil {
		for _, p := range []string{"/usr/local/go/bin/go", "/usr/lib/go/bin/go"} {
			if _, e := os.Stat(p); e == nil {
				goBin, err = p, nil
			}
		}
	}
	if err != nil {
		c.Count("selftest/live_skipped_no_go_toolchain", 1)
		c.Note("selftest", note)
		return
	}
	dir := filepath.Join(c.Scratch, "selftest")
	_ = os.MkdirAll(dir, 0o755)
	_ = os.WriteFile(filepath.Join(dir, "go.mod"), []byte("module c29selftest\n\ngo 1.18\n"), 0o644)
	_ = os.WriteFile(filepath.Join(dir, "main.go"), []byte(selftestProgram), 0o644)
	bin := filepath.Join(dir, "st-race")
	cmd := exec.Command(goBin, "build", "-race", "-o", bin, ".")
	cmd.Dir = dir
	cmd.Env = append(os.Environ(), "GOFLAGS=-mod=mod", "GOPROXY=off", "GOSUMDB=off", "GOTOOLCHAIN=local", "GOCACHE="+filepath.Join(c.Root, ".cache", "gocache"))
	if outp, err := cmd.CombinedOutput(); err != nil {
		c.Count("selftest/live_skipped_build_failed", 1)
		note["live-build"] = err.Error() + ": " + tail(string(outp), 500)
		c.Note("selftest", note)
		return
	}
	watchdogOverride = 4 * time.Second
	defer func() { watchdogOverride = 0 }()
	runLive := func(mode string) (cli.Result, []raceReport) {
		logPrefix := filepath.Join(c.Scratch, "racelog", "selftest-"+mode)
		_ = os.MkdirAll(filepath.Dir(logPrefix), 0o755)
		res := d.runner.ExecBin(bin, cli.Run{Args: []string{mode}, Env: []string{raceEnv(logPrefix, 0), "GOTRACEBACK=all"}, Timeout: watchdog()})
		reps, _ := readRaceLogs(logPrefix)
		return res, reps
	}
	res, reps := runLive("race")
	before = c.Violations()
	d.judgeRaces(reps, map[string]interface{}{"id": "selftest-live-race"})
	k := ""
	if len(reps) > 0 {
		k = reps[0].Key()
	}
	expect("live-race-detected", len(reps) >= 1 && c.Violations() > before && strings.Contains(k, "main.bump") && !res.TimedOut,
		fmt.Sprintf("race build of the deliberate race: %d report(s) in the log file, key %s, exit %d", len(reps), k, res.Exit))

	res, _ = runLive("deadlock")
	before = c.Violations()
	out = d.judgeTermination(res, map[string]interface{}{"id": "selftest-live-deadlock"})
	v = classifyDump(string(res.Stderr))
	expect("live-deadlock-detected", res.TimedOut && out == "watchdog:deadlock" && c.Violations() == before+1 && strings.Contains(v.Key, "main.sender") && strings.Contains(v.Key, "main.locker"),
		fmt.Sprintf("watchdog fired=%v -> %s key=%s parked=%v ignored=%v", res.TimedOut, out, v.Key, v.Parked, v.Ignored))

	for _, mode := range []string{"sleep", "busy"} {
		res, _ = runLive(mode)
		before = c.Violations()
		out = d.judgeTermination(res, map[string]interface{}{"id": "selftest-live-" + mode})
		v = classifyDump(string(res.Stderr))
		expect("live-"+mode+"-inconclusive", res.TimedOut && out == "watchdog:inconclusive" && c.Violations() == before,
			fmt.Sprintf("same deadlock plus a %s goroutine: watchdog fired=%v -> %s live=%v", mode, res.TimedOut, out, v.Live))
	}
	c.Note("selftest", note)
}

func keysOf(m map[string]bool) []string {
	var out []string
	for k := range m {
		out = append(out, k)
	}
	return out
}

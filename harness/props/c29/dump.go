package c29

import (
	"regexp"
	"sort"
	"strings"
)

// ---------------------------------------------------------------------------------------------
// Goroutine dump classifier (the dump the Go runtime prints on SIGQUIT, or together with
// "fatal error: all goroutines are asleep - deadlock!").

type goroutine struct {
	ID     string
	State  string // "chan receive", "select", "IO wait", "running", ... (without duration etc.)
	Frames []frame
	Raw    string
}

var goroutineHeader = regexp.MustCompile(`^goroutine (\d+)(?: gp=\S+)?(?: m=\S+)?(?: mp=\S+)? \[([^\]]*)\]:`)

// parseDump extracts the goroutines from a dump. Text before the first "goroutine N [" line and
// the register dump after the last goroutine are ignored.
func parseDump(text string) []goroutine {
	var out []goroutine
	lines := strings.Split(text, "\n")
	var cur *goroutine
	var raw []string
	flush := func() {
		if cur != nil {
			cur.Raw = strings.Join(raw, "\n")
			out = append(out, *cur)
		}
		cur = nil
		raw = nil
	}
	for i := 0; i < len(lines); i++ {
		l := lines[i]
		if m := goroutineHeader.FindStringSubmatch(l); m != nil {
			flush()
			st := m[2]
			// "chan receive, 2 minutes", "select, locked to thread", "semacquire (scan)"
			if p := strings.Index(st, ","); p >= 0 {
				st = st[:p]
			}
			st = strings.TrimSpace(strings.TrimSuffix(strings.TrimSpace(st), "(scan)"))
			cur = &goroutine{ID: m[1], State: st}
			raw = append(raw, l)
			continue
		}
		if cur == nil {
			continue
		}
		if strings.TrimSpace(l) == "" {
			flush()
			continue
		}
		raw = append(raw, l)
		t := strings.TrimSpace(l)
		if strings.HasPrefix(l, "\t") || strings.HasPrefix(l, "    ") {
			continue // a location line that was not consumed with its function (should not happen)
		}
		fn := t
		created := false
		if strings.HasPrefix(fn, "created by ") {
			created = true
			fn = strings.TrimPrefix(fn, "created by ")
			if p := strings.Index(fn, " in goroutine "); p > 0 {
				fn = fn[:p]
			}
		} else {
			fn = cutArgs(fn)
		}
		fr := frame{Fn: fn}
		if i+1 < len(lines) && (strings.HasPrefix(lines[i+1], "\t") || strings.HasPrefix(lines[i+1], "    ")) {
			loc := strings.TrimSpace(lines[i+1])
			raw = append(raw, lines[i+1])
			if p := strings.Index(loc, " +0x"); p > 0 {
				loc = loc[:p]
			}
			if p := strings.LastIndex(loc, ":"); p > 0 {
				fr.File, fr.Line = loc[:p], loc[p+1:]
			} else {
				fr.File = loc
			}
			i++
		}
		if created {
			fr.Fn = "created by " + fr.Fn
		}
		cur.Frames = append(cur.Frames, fr)
	}
	flush()
	return out
}

func (g goroutine) has(sub string) bool {
	for _, f := range g.Frames {
		if strings.Contains(f.Fn, sub) {
			return true
		}
	}
	return false
}

// firstUser returns the innermost frame that is not the Go runtime's parking machinery.
func (g goroutine) firstUser() (frame, bool) {
	for _, f := range g.Frames {
		if strings.HasPrefix(f.Fn, "runtime.") || strings.HasPrefix(f.Fn, "runtime/") || strings.HasPrefix(f.Fn, "internal/") ||
			strings.HasPrefix(f.Fn, "sync.") || strings.HasPrefix(f.Fn, "sync/") || strings.HasPrefix(f.Fn, "created by ") {
			continue
		}
		return f, true
	}
	return frame{}, false
}

// innermostOctosql returns the innermost octosql frame of a goroutine (for the deadlock key).
func (g goroutine) innermostOctosql() string {
	for _, f := range g.Frames {
		fn := strings.TrimPrefix(f.Fn, "created by ")
		if isOctosqlFrame(fn) {
			return frame{Fn: fn, File: f.File}.site()
		}
	}
	for _, f := range g.Frames {
		if f.Fn == "main.main" {
			return "main.go:main.main"
		}
	}
	if f, ok := g.firstUser(); ok {
		return f.site()
	}
	return "goroutine[" + g.State + "]"
}

// idleByDesign: goroutines that are parked for the whole life of a healthy process and say
// nothing about whether the query is making progress.
func idleByDesign(g goroutine) (bool, string) {
	st := g.State
	// the runtime's own goroutines (shown with GOTRACEBACK=system) and the scheduler stack
	switch {
	case g.ID == "0", st == "idle":
		return true, "runtime:g0"
	case strings.HasPrefix(st, "GC "), strings.HasPrefix(st, "force gc"), st == "finalizer wait",
		strings.HasPrefix(st, "trace reader"), strings.HasPrefix(st, "debug call"), st == "wait for debug call",
		strings.HasPrefix(st, "cleanup wait"):
		return true, "runtime:" + st
	}
	if len(g.Frames) > 0 {
		all := true
		for _, f := range g.Frames {
			if strings.HasPrefix(f.Fn, "created by ") {
				continue // e.g. "created by unique.runtime_registerUniqueMapCleanup"
			}
			if !strings.HasPrefix(f.Fn, "runtime.") && !strings.HasPrefix(f.Fn, "runtime/") {
				all = false
			}
		}
		// bgsweep, bgscavenge, runfinq, forcegchelper ...: only runtime frames. A *running*
		// goroutine with only runtime frames is not idle, though.
		if all && st != "running" && st != "runnable" && st != "syscall" {
			return true, "runtime:background"
		}
	}
	switch {
	case g.has("os/signal.signal_recv") || g.has("os/signal.loop"):
		return true, "os/signal.loop"
	case g.has("ristretto") && (g.has("processItems") || g.has("(*defaultPolicy)") || g.has("(*lfuPolicy)")):
		return true, "ristretto.processItems"
	case g.has("github.com/golang/glog.(*loggingT).flushDaemon") || g.has("glog.(*loggingT).flushDaemon") || g.has("glog.(*fileSink).flushDaemon"):
		return true, "glog.flushDaemon"
	case g.has("go.opencensus.io/stats/view.(*worker).start"):
		return true, "opencensus.worker"
	case g.has("google.golang.org/grpc"):
		// gRPC client/server background loops (plugin executor): transport readers, the
		// controlbuf loop, resolver/balancer watchers.
		if f, ok := g.firstUser(); ok && (strings.HasPrefix(f.Fn, "google.golang.org/grpc") || strings.HasPrefix(f.Fn, "golang.org/x/net/http2") ||
			strings.HasPrefix(f.Fn, "net.") || strings.HasPrefix(f.Fn, "io.") || strings.HasPrefix(f.Fn, "bufio.")) {
			if !g.has(octoPrefix) || onlyCreatedByOctosql(g) {
				return true, "grpc.background"
			}
		}
	case g.has("net/http.(*persistConn)") || g.has("net/http.(*Transport)") || g.has("net/http.(*Server).Serve") || g.has("net/http.(*http2"):
		if !g.has(octoPrefix) || onlyCreatedByOctosql(g) {
			return true, "net/http.background"
		}
	}
	// the main.go goroutine that waits for SIGINT: "<-signals" in main.main.func1
	if f, ok := g.firstUser(); ok && f.Fn == "main.main.func1" && st == "chan receive" {
		return true, "main.sigint-waiter"
	}
	// JSON parser pool workers parked on the global job channel: `for job := range inChan` is a
	// plain channel receive directly in the worker function (the send of a finished batch is a
	// select, so a worker stuck *there* is not idle and is not matched).
	if f, ok := g.firstUser(); ok && st == "chan receive" &&
		strings.HasPrefix(f.Fn, octoPrefix+"datasources/json.init.func1") {
		return true, "json.pool-worker-idle"
	}
	return false, ""
}

func onlyCreatedByOctosql(g goroutine) bool {
	for _, f := range g.Frames {
		if strings.HasPrefix(f.Fn, "created by ") {
			continue
		}
		if isOctosqlFrame(f.Fn) {
			return false
		}
	}
	return true
}

var blockedStates = map[string]bool{
	"chan send": true, "chan receive": true, "select": true, "select (no cases)": true,
	"chan send (nil chan)": true, "chan receive (nil chan)": true,
	"semacquire": true, "sync.Cond.Wait": true, "sync.Mutex.Lock": true,
	"sync.RWMutex.RLock": true, "sync.RWMutex.Lock": true, "sync.WaitGroup.Wait": true,
}

var liveStates = map[string]bool{
	"running": true, "runnable": true, "syscall": true, "IO wait": true, "sleep": true,
	"preempted": true, "copystack": true, "waiting": true, "timer goroutine (idle)": true,
}

type dumpVerdict struct {
	Verdict    string // "deadlock" | "inconclusive" | "no-dump"
	Key        string // deadlock:<frames> when Verdict == deadlock
	Goroutines int
	Ignored    map[string]int // reason -> count
	Parked     []string       // "state @ innermost octosql frame" of the judged goroutines
	Live       []string       // same for the goroutines that make the dump inconclusive
}

// classifyDump decides between DEADLOCK and INCONCLUSIVE for the dump of a run that the watchdog
// stopped: deadlock iff, after dropping the goroutines that are idle by design, at least one
// goroutine remains and every remaining one is parked on a channel operation, a select, a
// semaphore, a condition variable or a mutex. Any goroutine that is running, runnable, in a
// system call, waiting for IO or sleeping (or in a state this classifier does not know) makes the
// run inconclusive: it may still be making progress, just slowly.
func classifyDump(text string) dumpVerdict {
	gs := parseDump(text)
	v := dumpVerdict{Goroutines: len(gs), Ignored: map[string]int{}}
	if len(gs) == 0 {
		v.Verdict = "no-dump"
		return v
	}
	var parkedSites []string
	for _, g := range gs {
		if idle, why := idleByDesign(g); idle {
			v.Ignored[why]++
			continue
		}
		desc := g.State + " @ " + g.innermostOctosql()
		if blockedStates[g.State] {
			v.Parked = append(v.Parked, desc)
			parkedSites = append(parkedSites, g.innermostOctosql())
		} else {
			// liveStates and anything unknown: never call it a deadlock
			v.Live = append(v.Live, desc)
		}
	}
	sort.Strings(v.Parked)
	sort.Strings(v.Live)
	if len(v.Live) > 0 || len(v.Parked) == 0 {
		v.Verdict = "inconclusive"
		return v
	}
	v.Verdict = "deadlock"
	sort.Strings(parkedSites)
	uniq := parkedSites[:0]
	for i, s := range parkedSites {
		if i == 0 || s != parkedSites[i-1] {
			uniq = append(uniq, s)
		}
	}
	v.Key = "deadlock:" + strings.Join(uniq, "+")
	return v
}

package c29

import (
	"os"
	"path/filepath"
	"sort"
	"strings"
)

// ---------------------------------------------------------------------------------------------
// Race detector log parser.
//
// A report of the Go race detector looks like
//
//	==================
//	WARNING: DATA RACE
//	Write at 0x00c00001c0a8 by goroutine 7:
//	  main.main.func1()
//	      /x/main.go:12 +0x44
//
//	Previous read at 0x00c00001c0a8 by goroutine 6:
//	  main.main.func2()
//	      /x/main.go:17 +0x33
//
//	Goroutine 7 (running) created at:
//	  main.main()
//	      /x/main.go:10 +0x84
//
//	Goroutine 6 (finished) created at:
//	  ...
//	==================
//
// Sections are separated by blank lines; the first two are the conflicting accesses (innermost
// frame first), the rest say where the goroutines were created.

type frame struct {
	Fn   string // function with the argument list cut off
	File string // absolute path as printed
	Line string
}

type raceStack struct {
	Header string // "Write at 0x... by goroutine 7:" with address and goroutine id normalised away
	Frames []frame
}

type raceReport struct {
	Accesses []raceStack // the two conflicting accesses
	Created  []raceStack // "Goroutine N (...) created at:" sections
	Raw      string
}

const raceSep = "=================="

// parseRaceLog extracts every report from the text of one log file (or of stderr).
func parseRaceLog(text string) []raceReport {
	var out []raceReport
	lines := strings.Split(text, "\n")
	for i := 0; i < len(lines); i++ {
		if !strings.HasPrefix(strings.TrimSpace(lines[i]), "WARNING: DATA RACE") {
			continue
		}
		// the block runs until the next separator line (or end of text)
		j := i + 1
		for j < len(lines) && strings.TrimSpace(lines[j]) != raceSep {
			j++
		}
		block := lines[i+1 : j]
		rep := raceReport{Raw: strings.Join(lines[i:j], "\n")}
		var cur *raceStack
		flush := func() {
			if cur == nil {
				return
			}
			h := cur.Header
			if strings.HasPrefix(h, "Goroutine ") {
				rep.Created = append(rep.Created, *cur)
			} else {
				rep.Accesses = append(rep.Accesses, *cur)
			}
			cur = nil
		}
		for k := 0; k < len(block); k++ {
			l := block[k]
			t := strings.TrimSpace(l)
			if t == "" {
				flush()
				continue
			}
			if cur == nil {
				cur = &raceStack{Header: t}
				continue
			}
			// a frame: function line followed by "file:line +0x.."
			fr := frame{Fn: cutArgs(t)}
			if k+1 < len(block) {
				loc := strings.TrimSpace(block[k+1])
				if strings.HasPrefix(loc, "/") || strings.Contains(loc, ".go:") || strings.Contains(loc, ".s:") {
					if p := strings.Index(loc, " +0x"); p > 0 {
						loc = loc[:p]
					}
					if p := strings.LastIndex(loc, ":"); p > 0 {
						fr.File, fr.Line = loc[:p], loc[p+1:]
					} else {
						fr.File = loc
					}
					k++
				}
			}
			cur.Frames = append(cur.Frames, fr)
		}
		flush()
		out = append(out, rep)
		i = j
	}
	return out
}

func cutArgs(fn string) string {
	// "pkg.(*T).method(...)" / "pkg.f.func1()" -> without the trailing argument list
	if strings.HasSuffix(fn, ")") {
		depth := 0
		for p := len(fn) - 1; p >= 0; p-- {
			switch fn[p] {
			case ')':
				depth++
			case '(':
				depth--
				if depth == 0 {
					return fn[:p]
				}
			}
		}
	}
	return fn
}

const octoPrefix = "github.com/cube2222/octosql/"

// isOctosqlFrame: a frame of the engine under test (not the harness, which lives under the
// octosql module path for import reasons, and not vendored dependencies).
func isOctosqlFrame(fn string) bool {
	return strings.HasPrefix(fn, octoPrefix) && !strings.Contains(fn, "/verifharness/")
}

// site renders a frame as "<path below /repo>:<function below the module path>", without the
// line number, so that keys survive unrelated edits.
func (f frame) site() string {
	file := f.File
	fn := strings.TrimPrefix(f.Fn, "created by ")
	if isOctosqlFrame(fn) {
		// derive the directory from the package path, so that the key is the same wherever the
		// source tree is checked out
		rest := strings.TrimPrefix(fn, octoPrefix)
		pkg := rest
		if cut := strings.IndexAny(pkg, "(["); cut >= 0 {
			pkg = pkg[:cut]
		}
		slash := strings.LastIndex(pkg, "/")
		if dot := strings.Index(pkg[slash+1:], "."); dot >= 0 {
			pkg = pkg[:slash+1+dot]
		}
		base := file
		if j := strings.LastIndex(base, "/"); j >= 0 {
			base = base[j+1:]
		}
		return pkg + "/" + base + ":" + rest
	}
	if j := strings.Index(file, "/repo/"); j >= 0 {
		file = file[j+len("/repo/"):]
	} else if j := strings.Index(file, "/pkg/mod/"); j >= 0 {
		file = file[j+len("/pkg/mod/"):]
	} else if j := strings.Index(file, "/go/src/"); j >= 0 {
		file = file[j+len("/go/src/"):]
	} else if parts := strings.Split(file, "/"); len(parts) > 2 {
		// a path under no known root (scratch directories carry process ids): keep the file name
		file = parts[len(parts)-1]
	}
	return file + ":" + strings.TrimPrefix(f.Fn, octoPrefix)
}

// keyFrame picks the frame a stack is named by: the first-printed (innermost) frame that belongs
// to octosql — the place in the engine that performed the access or called the library that did.
// Without any octosql frame in the access stack the goroutine's creation stack is consulted, and
// as the last resort the innermost frame of whatever code raced.
func keyFrame(acc raceStack, created *raceStack) string {
	for _, f := range acc.Frames {
		if isOctosqlFrame(f.Fn) {
			return f.site()
		}
	}
	if created != nil {
		for _, f := range created.Frames {
			if isOctosqlFrame(f.Fn) {
				inner := "?"
				if len(acc.Frames) > 0 {
					inner = acc.Frames[0].site()
				}
				return inner + "@" + f.site()
			}
		}
	}
	if len(acc.Frames) > 0 {
		return acc.Frames[0].site()
	}
	return "unknown-frame"
}

// Key is the finding key of a report: "race:<frameA>|<frameB>", the two frames sorted so that the
// order in which the detector saw the accesses does not matter.
func (r raceReport) Key() string {
	var ks []string
	for i, a := range r.Accesses {
		var cr *raceStack
		if i < len(r.Created) {
			cr = &r.Created[i]
		}
		ks = append(ks, keyFrame(a, cr))
	}
	for len(ks) < 2 {
		ks = append(ks, "unknown-frame")
	}
	sort.Strings(ks)
	return "race:" + ks[0] + "|" + ks[1]
}

// StackPair is the secondary identity: both access stacks with line numbers stripped.
func (r raceReport) StackPair() string {
	var parts []string
	for _, a := range r.Accesses {
		var sb strings.Builder
		kind := a.Header
		if p := strings.Index(kind, " at "); p > 0 {
			kind = kind[:p]
		}
		kind = strings.TrimPrefix(strings.ToLower(kind), "previous ")
		sb.WriteString(kind + ":")
		for _, f := range a.Frames {
			sb.WriteString(f.site())
			sb.WriteString(";")
		}
		parts = append(parts, sb.String())
	}
	sort.Strings(parts)
	return strings.Join(parts, " || ")
}

// readRaceLogs reads every file the race runtime wrote for log_path=<prefix> ("<prefix>.<pid>").
func readRaceLogs(prefix string) (reports []raceReport, files int) {
	matches, _ := filepath.Glob(prefix + ".*")
	sort.Strings(matches)
	for _, m := range matches {
		data, err := os.ReadFile(m)
		if err != nil {
			continue
		}
		files++
		reports = append(reports, parseRaceLog(string(data))...)
	}
	return reports, files
}

package c29

import (
	"encoding/json"
	"fmt"
	"math/rand"
	"os"
	"path/filepath"
	"regexp"
	"runtime"
	"strconv"
	"strings"
	"sync"
	"time"

	"github.com/cube2222/octosql/execution"
	"github.com/cube2222/octosql/functions"
	"github.com/cube2222/octosql/octosql"

	"github.com/cube2222/octosql/plugins/verifharness/cli"
	"github.com/cube2222/octosql/plugins/verifharness/core"
	"github.com/cube2222/octosql/plugins/verifharness/nodeh"
)

// ---------------------------------------------------------------------------------------------
// In-process leg. The driver is also compiled into the race build of the harness; the parent
// starts that binary as a child with VERIF_C29_CHILD=<leg>, and the child
//
//	functions: calls ONE functions.FunctionMap()'s like / ~ / ~* closures (each owns a ristretto
//	           cache) from many goroutines at once, few and many distinct patterns;
//	queries:   runs several SQL queries over JSON files concurrently in one process, all of them
//	           sharing the global parser worker pool (joins, LIMIT at several depths, failing rows).
//
// The race runtime of the child logs to GORACE's log_path; the parent parses those logs with the
// same parser as the CLI leg. Results are verified against own expectations so that a run that
// silently did nothing does not count.

type childQuery struct {
	SQL      string `json:"sql"`
	Rows     int    `json:"rows"`
	Want     int    `json:"want"`
	Err      string `json:"err,omitempty"`
	WantErr  string `json:"want_err,omitempty"`
	TimedOut bool   `json:"timed_out,omitempty"`
	Dump     string `json:"dump,omitempty"`
	Ms       int64  `json:"ms"`
	OK       bool   `json:"ok"`
}

type childResult struct {
	Leg        string       `json:"leg"`
	Procs      int          `json:"gomaxprocs"`
	Goroutines int          `json:"goroutines"`
	Calls      int64        `json:"calls"`
	Patterns   int          `json:"distinct_patterns"`
	Mismatches []string     `json:"mismatches,omitempty"`
	Queries    []childQuery `json:"queries,omitempty"`
	Concurrent int          `json:"concurrent_queries,omitempty"`
	Ms         int64        `json:"ms"`
}

func childMain(c *core.Ctx, leg string) {
	defer os.RemoveAll(c.Scratch)
	start := time.Now()
	var res childResult
	switch leg {
	case "functions":
		res = childFunctions(c)
	case "queries":
		res = childQueries(c)
	default:
		fmt.Fprintln(os.Stderr, "unknown child leg", leg)
		os.RemoveAll(c.Scratch)
		os.Exit(3)
	}
	res.Leg = leg
	res.Procs = runtime.GOMAXPROCS(0)
	res.Ms = time.Since(start).Milliseconds()
	data, _ := json.Marshal(res)
	if p := os.Getenv("VERIF_C29_OUT"); p != "" {
		_ = os.WriteFile(p, data, 0o644)
	}
	os.RemoveAll(c.Scratch)
	os.Exit(0)
}

// likeOwnGeneral: % = any run, _ = one character (patterns here contain no escapes and only
// ASCII), by the textbook two-pointer algorithm. Independent of octosql's translation to regexp.
func likeOwnGeneral(s, p string) bool {
	si, pi, star, mark := 0, 0, -1, 0
	for si < len(s) {
		if pi < len(p) && (p[pi] == '_' || (p[pi] != '%' && p[pi] == s[si])) {
			si++
			pi++
		} else if pi < len(p) && p[pi] == '%' {
			star, mark = pi, si
			pi++
		} else if star >= 0 {
			pi = star + 1
			mark++
			si = mark
		} else {
			return false
		}
	}
	for pi < len(p) && p[pi] == '%' {
		pi++
	}
	return pi == len(p)
}

func childFunctions(c *core.Ctx) childResult {
	fm := functions.FunctionMap()
	like := fm["like"].Descriptors[0].Function
	re := fm["~"].Descriptors[0].Function
	rei := fm["~*"].Descriptors[0].Function

	// inputs and patterns (few: the first 4 of each list; many: all of them)
	var inputs []string
	for i := 0; i < 120; i++ {
		inputs = append(inputs, "ab"+strconv.Itoa(i), "Xb"+strconv.Itoa(i*7)+"z")
	}
	likePs := []string{"ab%", "%9", "_b_%", "ab1_"}
	rePs := []string{"^ab[0-4]", "9$", "^.b\\d+z$", "ab7."}
	for i := 0; i < 300; i++ {
		likePs = append(likePs, "%"+strconv.Itoa(i)+"_", "ab"+strconv.Itoa(i)+"%")
		rePs = append(rePs, "^ab"+strconv.Itoa(i)+"$", "b"+strconv.Itoa(i)+"[0-9]z")
	}
	compiled := map[string]*regexp.Regexp{}
	compiledI := map[string]*regexp.Regexp{}
	for _, p := range rePs {
		compiled[p] = regexp.MustCompile(p)
		compiledI[p] = regexp.MustCompile(strings.ToLower(p))
	}

	G := 4 * runtime.GOMAXPROCS(0)
	if G < 8 {
		G = 8
	}
	if G > 32 {
		G = 32
	}
	N := c.Pick(6000, 40000)
	var wg sync.WaitGroup
	startGate := make(chan struct{})
	mism := make([][]string, G)
	for g := 0; g < G; g++ {
		wg.Add(1)
		go func(g int) {
			defer wg.Done()
			rng := rand.New(rand.NewSource(c.Seed*1000 + int64(g)))
			<-startGate
			for n := 0; n < N; n++ {
				few := n < N/2 // first half: few distinct patterns (cache hits); second half: many (cache fills)
				s := inputs[rng.Intn(len(inputs))]
				var got octosql.Value
				var err error
				var want bool
				var what string
				switch rng.Intn(3) {
				case 0:
					ps := likePs
					if few {
						ps = likePs[:4]
					}
					p := ps[rng.Intn(len(ps))]
					got, err = like([]octosql.Value{octosql.NewString(s), octosql.NewString(p)})
					want = likeOwnGeneral(s, p)
					what = fmt.Sprintf("%q LIKE %q", s, p)
				case 1:
					ps := rePs
					if few {
						ps = rePs[:4]
					}
					p := ps[rng.Intn(len(ps))]
					got, err = re([]octosql.Value{octosql.NewString(s), octosql.NewString(p)})
					want = compiled[p].MatchString(s)
					what = fmt.Sprintf("%q ~ %q", s, p)
				default:
					ps := rePs
					if few {
						ps = rePs[:4]
					}
					p := ps[rng.Intn(len(ps))]
					got, err = rei([]octosql.Value{octosql.NewString(s), octosql.NewString(p)})
					want = compiledI[p].MatchString(strings.ToLower(s))
					what = fmt.Sprintf("%q ~* %q", s, p)
				}
				if err != nil || got.TypeID != octosql.TypeIDBoolean || got.Boolean != want {
					if len(mism[g]) < 5 {
						mism[g] = append(mism[g], fmt.Sprintf("%s = %v (err %v), want %v", what, got, err, want))
					}
				}
			}
		}(g)
	}
	close(startGate)
	wg.Wait()
	res := childResult{Goroutines: G, Calls: int64(G) * int64(N), Patterns: len(likePs) + 2*len(rePs)}
	for _, m := range mism {
		res.Mismatches = append(res.Mismatches, m...)
	}
	return res
}

// countSink counts records without any synchronisation on purpose: a query's output is produced
// by one goroutine; if the engine ever called produce from two goroutines at once, the detector
// would report it right here.
type countSink struct{ n int }

func (s *countSink) produce(ctx execution.ProduceContext, r execution.Record) error {
	s.n++
	return nil
}
func (s *countSink) meta(ctx execution.ProduceContext, m execution.MetadataMessage) error {
	return nil
}

func childQueries(c *core.Ctx) childResult {
	lines, _ := strconv.Atoi(os.Getenv("VERIF_C29_LINES"))
	if lines <= 0 {
		lines = 4000
	}
	k := lines * 3 / 4
	type q struct {
		sql     string
		want    int
		wantErr string
	}
	qs := []q{
		{"SELECT a.id, b.v, a.u, b.w FROM a.json a JOIN b.json b ON a.id = b.id", lines, ""},
		{"SELECT x.id, y.v, x.n, y.o FROM a.json x JOIN a.json y ON x.id = y.id", lines, ""},
		{"SELECT a.id, b.v, c.s, a.u, b.o, c.w FROM a.json a JOIN b.json b ON a.id = b.id JOIN c.json c ON b.id = c.id", lines, ""},
		{"SELECT x.id, y.v FROM (SELECT * FROM a.json WHERE s LIKE p OR s ~ '^ab[0-4]' OR s ~* 'AB7.') x JOIN (SELECT * FROM b.json WHERE s LIKE p OR s ~ '^ab[0-4]' OR s ~* 'AB7.') y ON x.id = y.id", countRows(lines, predFew), ""},
		{"SELECT a.id, b.v FROM a.json a JOIN b.json b ON a.id = b.id LIMIT 7", 7, ""},
		{"SELECT x.id, y.v FROM (SELECT * FROM a.json LIMIT 50) x JOIN b.json y ON x.id = y.id", 50, ""},
		{"SELECT x.id, c.v FROM (SELECT a.id AS id FROM a.json a JOIN b.json b ON a.id = b.id LIMIT 5) x JOIN c.json c ON x.id = c.id", 5, ""},
		{fmt.Sprintf("SELECT x.id, y.v FROM (SELECT * FROM a.json WHERE id != %d.0 OR panic('x') IS NULL) x JOIN b.json y ON x.id = y.id", k), -1, "panic: 'x'"},
		{"SELECT x.id, y.v FROM bad.json x JOIN b.json y ON x.id = y.id", -1, "couldn't parse line"},
		{"SELECT id, u, w, n, o FROM a.json", lines, ""},
		{"SELECT x.u, count(*) AS n FROM a.json x JOIN b.json y ON x.id = y.id GROUP BY x.u", 10, ""},
	}
	K := 4
	rounds := c.Pick(2, 6)
	var jobs []q
	rng := c.Rng("inproc-queries")
	for r := 0; r < rounds; r++ {
		perm := rng.Perm(len(qs))
		for _, i := range perm {
			jobs = append(jobs, qs[i])
		}
	}
	out := make([]childQuery, len(jobs))
	core.Parallel(len(jobs), K, func(i int) {
		j := jobs[i]
		cq := childQuery{SQL: j.sql, Want: j.want, WantErr: j.wantErr}
		t0 := time.Now()
		ctx := nodeh.Ctx()
		p, perr := nodeh.Plan(ctx, j.sql, nil, nodeh.PlanOpts{Optimize: true, Output: "json"})
		if perr != nil {
			cq.Err = "plan: " + perr.Error()
			out[i] = cq
			return
		}
		sink := &countSink{}
		done := make(chan error, 1)
		go func() {
			done <- p.Exec.Run(execution.ExecutionContext{Context: ctx}, sink.produce, sink.meta)
		}()
		select {
		case err := <-done:
			cq.Rows = sink.n
			if err != nil {
				cq.Err = err.Error()
			}
		case <-time.After(300 * time.Second):
			cq.TimedOut = true
			buf := make([]byte, 4<<20)
			n := runtime.Stack(buf, true)
			cq.Dump = string(buf[:n])
		}
		cq.Ms = time.Since(t0).Milliseconds()
		if j.wantErr != "" {
			cq.OK = strings.Contains(cq.Err, j.wantErr)
		} else {
			cq.OK = cq.Err == "" && cq.Rows == j.want && !cq.TimedOut
		}
		if len(cq.Err) > 300 {
			cq.Err = cq.Err[:300]
		}
		out[i] = cq
	})
	return childResult{Queries: out, Concurrent: K}
}

// ---------------------------------------------------------------------------------------------
// Parent side

func (d *driver) vharnessRace() string {
	if p := os.Getenv("VERIF_VHARNESS_RACE"); p != "" {
		if _, err := os.Stat(p); err == nil {
			return p
		}
	}
	p := filepath.Join(d.c.BinDir, "vharness-race")
	if _, err := os.Stat(p); err == nil {
		return p
	}
	return ""
}

type inprocCase struct {
	ID    string
	Leg   string
	Procs int
	Delay string
	Seed  int64
}

func (d *driver) inprocLeg(only string) {
	c := d.c
	bin := d.vharnessRace()
	if bin == "" {
		c.Inconclusive("inproc:no-vharness-race-binary")
		return
	}
	var cases []inprocCase
	procs := []int{2, 16}
	if c.Tier == "thorough" {
		procs = []int{1, 2, 4, 16}
	}
	rng := c.Rng("inproc")
	seedsPer := c.Pick(1, 2)
	for _, leg := range []string{"functions", "queries"} {
		for _, p := range procs {
			for s := 0; s < seedsPer; s++ {
				ic := inprocCase{Leg: leg, Procs: p, Seed: c.Seed*100 + int64(s)}
				ic.ID = fmt.Sprintf("inproc-%s-p%d-s%d", leg, p, ic.Seed)
				if leg == "queries" && (s%2 == 1 || p == 16) {
					ic.Delay = fmt.Sprintf("%s:%d:%d", hookDelayPoints, []int{200, 2000}[rng.Intn(2)], 1+rng.Intn(1000000))
				}
				cases = append(cases, ic)
			}
		}
	}
	if only != "" {
		var sel []inprocCase
		for _, ic := range cases {
			if ic.ID == only {
				sel = append(sel, ic)
			}
		}
		cases = sel
	}
	lines := 4000
	dir := d.data(lines, lines*3/4-17)
	type res struct {
		ic   inprocCase
		r    cli.Result
		cr   childResult
		okCR bool
		n    int
		tr   map[string]int
	}
	results := make([]res, len(cases))
	core.Parallel(len(cases), 2, func(i int) {
		ic := cases[i]
		logPrefix := filepath.Join(c.Scratch, "racelog", ic.ID)
		outPath := filepath.Join(c.Scratch, "racelog", ic.ID+".result.json")
		tracePath := filepath.Join(c.Scratch, "trace", ic.ID+".trace")
		_ = os.MkdirAll(filepath.Dir(logPrefix), 0o755)
		_ = os.MkdirAll(filepath.Dir(tracePath), 0o755)
		env := []string{
			raceEnv(logPrefix, 1000),
			"GOMAXPROCS=" + strconv.Itoa(ic.Procs),
			"VERIF_C29_CHILD=" + ic.Leg,
			"VERIF_C29_OUT=" + outPath,
			"VERIF_C29_LINES=" + strconv.Itoa(lines),
			"VERIF_TRACE=" + tracePath,
			"GOTRACEBACK=all",
			"VERIF_SELFTEST=0",
		}
		if ic.Delay != "" {
			env = append(env, "VERIF_DELAY="+ic.Delay)
		}
		c.LogCase(ic.ID)
		r := d.runner.ExecBin(bin, cli.Run{
			Args:    []string{"-prop", "C29", "-tier", c.Tier, "-seed", strconv.FormatInt(ic.Seed, 10), "-root", c.Root, "-only", "child"},
			Env:     env,
			Dir:     dir,
			Timeout: 8 * watchdog(),
		})
		rs := res{ic: ic, r: r, tr: readTrace(tracePath)}
		if data, err := os.ReadFile(outPath); err == nil && json.Unmarshal(data, &rs.cr) == nil {
			rs.okCR = true
		}
		replay := map[string]interface{}{"id": ic.ID, "leg": ic.Leg, "gomaxprocs": ic.Procs, "delay": ic.Delay, "child_seed": ic.Seed, "binary": bin, "env": env}
		reports, _ := readRaceLogs(logPrefix)
		reports = append(reports, parseRaceLog(string(r.Stderr))...)
		rs.n = len(reports)
		d.judgeRaces(reports, replay)
		oc := d.judgeTermination(r, replay)
		if oc != "" {
			c.Count("inproc/outcome/"+oc, 1)
		}
		results[i] = rs
	})
	var notes []interface{}
	for _, rs := range results {
		ic := rs.ic
		c.Eval(1)
		c.Count("inproc/children/"+ic.Leg, 1)
		if !rs.okCR {
			if !rs.r.TimedOut {
				c.Inconclusive("inproc:child-produced-no-result:exit-" + strconv.Itoa(rs.r.Exit))
			}
			notes = append(notes, map[string]interface{}{"id": ic.ID, "exit": rs.r.Exit, "stderr": tail(string(rs.r.Stderr), 600)})
			continue
		}
		cr := rs.cr
		ok := true
		switch ic.Leg {
		case "functions":
			c.Count("inproc/function_calls", int(cr.Calls))
			if len(cr.Mismatches) > 0 {
				ok = false
				// a wrong boolean from a shared cache is neither a race report nor a deadlock;
				// C12 owns function results. Recorded loudly, not judged here.
				c.Inconclusive("inproc:function-result-mismatch")
			}
		case "queries":
			for _, q := range cr.Queries {
				c.Count("inproc/queries", 1)
				if q.TimedOut {
					v := classifyDump(q.Dump)
					c.Count("inproc/dump/"+v.Verdict, 1)
					rp := map[string]interface{}{"id": ic.ID, "sql": q.SQL, "dump_classification": v, "dump": tail(q.Dump, 60000)}
					if v.Verdict == "deadlock" {
						c.Violation(v.Key, "in-process query did not finish within 300 s and every goroutine that is not idle by design is parked: "+strings.Join(v.Parked, "; "), rp)
					} else {
						c.Inconclusive("inproc:watchdog:" + v.Verdict)
					}
					ok = false
				} else if !q.OK {
					ok = false
					c.Count("inproc/queries_unexpected", 1)
					c.Inconclusive("inproc:unexpected-query-outcome")
				} else {
					c.Count("inproc/queries_as_designed", 1)
				}
			}
		}
		if ok {
			c.Nontrivial(fmt.Sprintf("inproc/%s/p%d/%s/%d", ic.Leg, ic.Procs, ic.Delay, ic.Seed))
			c.Count("inproc/nontrivial_children", 1)
		}
		n := map[string]interface{}{"id": ic.ID, "leg": ic.Leg, "gomaxprocs": cr.Procs, "delay": ic.Delay, "race_reports": rs.n, "wall_ms": rs.r.Dur.Milliseconds(),
			"goroutines": cr.Goroutines, "calls": cr.Calls, "distinct_patterns": cr.Patterns, "mismatches": cr.Mismatches, "hook_points": rs.tr}
		if ic.Leg == "queries" {
			var qsum []string
			for _, q := range cr.Queries {
				qsum = append(qsum, fmt.Sprintf("rows=%d want=%d err=%q ok=%v %dms :: %s", q.Rows, q.Want, trunc(q.Err, 80), q.OK, q.Ms, trunc(q.SQL, 90)))
			}
			n["concurrent_queries"] = cr.Concurrent
			n["queries"] = qsum
		}
		notes = append(notes, n)
	}
	c.Note("inproc_children", notes)
}

func trunc(s string, n int) string {
	if len(s) > n {
		return s[:n] + "..."
	}
	return s
}

// Package c29: query execution is free of data races and deadlocks — restated (DESIGN §1, §4 C29)
// as: on the executed schedules the race detector reports nothing, and every generated finite
// workload terminates (bounded progress).
//
// R: a `WARNING: DATA RACE` block in the race runtime's log; or a run the watchdog had to stop
// whose goroutine dump shows nothing but goroutines parked on channels/selects/locks (deadlock).
// O: the Go race detector (race build of the real binary, and of the harness for the in-process
// leg) + the goroutine dump classifier in dump.go. A dump with live work is INCONCLUSIVE.
// W: CLI workloads aimed at the shared state (global JSON worker pool, join producer goroutines,
// ristretto regexp caches, stdin preview buffer), complete and stopped early (LIMIT at every
// depth, runtime error on either join side, malformed late JSON line), under GOMAXPROCS 1/2/4/16
// and seeded H3 delays; plus an in-process leg (race build of the harness) hammering the
// like/~/~* functions from many goroutines and running several JSON queries concurrently.
package c29

import (
	"bytes"
	"encoding/json"
	"fmt"
	"os"
	"path/filepath"
	"sort"
	"strconv"
	"strings"
	"sync"
	"time"

	"github.com/cube2222/octosql/plugins/verifharness/cli"
	"github.com/cube2222/octosql/plugins/verifharness/core"
)

func init() { core.Register("C29", Run) }

// ---------------------------------------------------------------------------------------------
// Data

var likePats = []string{"ab%", "%9", "_b_%"}

type row struct {
	id   int
	s    string
	p    string // LIKE pattern, 3 distinct
	r    string // regexp, 40 distinct
	k    int
	line string
}

func mkRow(i int) row {
	r := row{id: i, k: i % 7, s: "ab" + strconv.Itoa(i%100), p: likePats[i%3], r: "^ab" + strconv.Itoa(i%40) + "$"}
	// Columns whose inferred type is a union (every alternative shows up within the first few
	// rows, well inside the 100 rows of schema inference): the pool workers walk the shared
	// schema type's alternatives for every such cell.
	//   u: Float | String            (10 distinct values: usable as a group-by key)
	//   w: NULL | Float | Boolean | String
	//   n: NULL | Float | String     (NULL both as explicit null and as a missing key)
	//   o: {a: Float | String; b: [Float | Boolean | String]; c: NULL | Float | String}
	u := strconv.Itoa(i % 5)
	if i%2 == 1 {
		u = `"s` + strconv.Itoa(i%5) + `"`
	}
	w := []string{"true", strconv.FormatFloat(float64(i)*0.25, 'f', -1, 64), `"w` + strconv.Itoa(i%3) + `"`, "null", "false", `"x"`}[i%6]
	n := []string{`,"n":` + strconv.Itoa(i%3), `,"n":"n` + strconv.Itoa(i%3) + `"`, `,"n":null`}[i%3]
	if i%3 == 2 && i%6 != 2 {
		n = "" // missing key
	}
	oa := `"a` + strconv.Itoa(i%4) + `"`
	if i%3 == 0 {
		oa = strconv.Itoa(i % 4)
	}
	oc := `"c"`
	if i%5 == 0 {
		oc = "null"
	} else if i%2 == 1 {
		oc = strconv.Itoa(i % 7)
	}
	o := fmt.Sprintf(`{"a":%s,"b":[%d,"e%d",%v],"c":%s}`, oa, i%2, i%2, i%2 == 0, oc)
	r.line = fmt.Sprintf(`{"id":%d,"k":%d,"s":%q,"p":%q,"r":%q,"v":%s,"u":%s,"w":%s,"o":%s%s}`, r.id, r.k, r.s, r.p, r.r,
		strconv.FormatFloat(float64(i)*0.5, 'f', -1, 64), u, w, o, n)
	return r
}

func mkFile(n int, badAt int) []byte {
	var b bytes.Buffer
	for i := 0; i < n; i++ {
		if i == badAt {
			b.WriteString(`{"id": ` + strconv.Itoa(i) + `, "k": oops` + "\n")
			continue
		}
		b.WriteString(mkRow(i).line)
		b.WriteByte('\n')
	}
	return b.Bytes()
}

// own evaluation of the predicates used by the LIKE/regexp workloads (the three LIKE patterns and
// the two regexp shapes are fixed, so this is a few string tests, not a LIKE implementation)
func likeOwn(s, p string) bool {
	switch p {
	case "ab%":
		return strings.HasPrefix(s, "ab")
	case "%9":
		return strings.HasSuffix(s, "9")
	case "_b_%":
		return len(s) >= 3 && s[1] == 'b'
	}
	panic("unknown pattern")
}

func predFew(r row) bool {
	// s LIKE p OR s ~ '^ab[0-4]' OR s ~* 'AB7.'
	if likeOwn(r.s, r.p) {
		return true
	}
	if len(r.s) >= 3 && strings.HasPrefix(r.s, "ab") && r.s[2] >= '0' && r.s[2] <= '4' {
		return true
	}
	return strings.Contains(r.s, "ab7") && len(r.s) >= strings.Index(r.s, "ab7")+4
}

func predMany(r row) bool { return "^"+r.s+"$" == r.r } // s ~ r, r = ^ab<n>$

func countRows(n int, pred func(row) bool) int {
	c := 0
	for i := 0; i < n; i++ {
		if pred(mkRow(i)) {
			c++
		}
	}
	return c
}

// ---------------------------------------------------------------------------------------------
// Workloads

type workload struct {
	Name  string
	Kind  string // complete | limit | error | either
	SQL   func(k int) string
	Lines int
	Stdin bool // feed a.json on stdin in chunks
	// expectation
	Rows    func(n, k int) int // exact number of output lines (-1: not fixed)
	MinRows func(n int) int    // lower bound when Rows is -1
	ErrSub  string             // substring of stderr when an error is the designed outcome
	BadSide string             // "bad.json" carries a malformed line k
	Shared  string             // which shared state the workload aims at
}


func workloads(c *core.Ctx) []workload {
	L := 20000
	S := 4000 // outer joins retract and re-emit: 3 output records per row
	all := func(n, k int) int { return n }
	ws := []workload{
		{Name: "join2", Kind: "complete", Lines: L, Shared: "pool+join",
			SQL: func(int) string { return "SELECT a.id, b.v, a.u, b.w FROM a.json a JOIN b.json b ON a.id = b.id" }, Rows: all},
		{Name: "selfjoin", Kind: "complete", Lines: L, Shared: "pool+join",
			SQL: func(int) string { return "SELECT x.id, y.v, x.n, y.o FROM a.json x JOIN a.json y ON x.id = y.id" }, Rows: all},
		{Name: "join3", Kind: "complete", Lines: L, Shared: "pool+join",
			SQL: func(int) string {
				return "SELECT a.id, b.v, c.s, a.u, b.o, c.w FROM a.json a JOIN b.json b ON a.id = b.id JOIN c.json c ON b.id = c.id"
			}, Rows: all},
		{Name: "like_both_few_patterns", Kind: "complete", Lines: L, Shared: "regexp-cache+pool+join",
			SQL: func(int) string {
				return "SELECT x.id, y.v FROM (SELECT * FROM a.json WHERE s LIKE p OR s ~ '^ab[0-4]' OR s ~* 'AB7.') x JOIN (SELECT * FROM b.json WHERE s LIKE p OR s ~ '^ab[0-4]' OR s ~* 'AB7.') y ON x.id = y.id"
			}, Rows: func(n, k int) int { return countRows(n, predFew) }},
		{Name: "regexp_both_40_patterns", Kind: "complete", Lines: L, Shared: "regexp-cache+pool+join",
			SQL: func(int) string {
				return "SELECT x.id, y.v FROM (SELECT * FROM a.json WHERE s ~ r AND s ~* r) x JOIN (SELECT * FROM b.json WHERE s ~* r AND s ~ r) y ON x.id = y.id"
			}, Rows: func(n, k int) int { return countRows(n, predMany) }},
		{Name: "stdin_join", Kind: "complete", Lines: L, Stdin: true, Shared: "stdin+pool+join",
			SQL: func(int) string { return "SELECT x.id, y.v, x.u, x.o, y.n FROM stdin.json x JOIN b.json y ON x.id = y.id" }, Rows: all},
		{Name: "stdin_join_limit", Kind: "limit", Lines: L, Stdin: true, Shared: "stdin+pool+join",
			SQL: func(int) string {
				return "SELECT x.id, y.v FROM stdin.json x JOIN b.json y ON x.id = y.id LIMIT 10"
			}, Rows: func(n, k int) int { return 10 }},
		{Name: "stdin_twice", Kind: "either", Lines: L, Stdin: true, Shared: "stdin",
			SQL: func(int) string { return "SELECT x.id, y.v FROM stdin.json x JOIN stdin.json y ON x.id = y.id" },
			Rows: all, ErrSub: "only one simultaneous stdin reader is allowed"},
		{Name: "limit_top_over_join", Kind: "limit", Lines: L, Shared: "pool+join",
			SQL: func(int) string {
				return "SELECT a.id, b.v, a.w, b.u FROM a.json a JOIN b.json b ON a.id = b.id LIMIT 7"
			}, Rows: func(n, k int) int { return 7 }},
		{Name: "limit_under_join", Kind: "limit", Lines: L, Shared: "pool+join",
			SQL: func(int) string {
				return "SELECT x.id, y.v FROM (SELECT * FROM a.json LIMIT 50) x JOIN b.json y ON x.id = y.id"
			}, Rows: func(n, k int) int { return 50 }},
		{Name: "limit_subquery_over_join_then_join", Kind: "limit", Lines: L, Shared: "pool+join+token-channel",
			SQL: func(int) string {
				return "SELECT x.id, c.v FROM (SELECT a.id AS id FROM a.json a JOIN b.json b ON a.id = b.id LIMIT 5) x JOIN c.json c ON x.id = c.id"
			}, Rows: func(n, k int) int { return 5 }},
		{Name: "limit_single_like", Kind: "limit", Lines: L, Shared: "pool+regexp-cache",
			SQL:  func(int) string { return "SELECT id FROM a.json WHERE s LIKE p LIMIT 100" },
			Rows: func(n, k int) int { return 100 }},
		{Name: "error_left_late_row", Kind: "error", Lines: L, Shared: "pool+join",
			SQL: func(k int) string {
				return fmt.Sprintf("SELECT x.id, y.v, x.u, y.w FROM (SELECT * FROM a.json WHERE id != %d.0 OR panic('x') IS NULL) x JOIN b.json y ON x.id = y.id", k)
			}, ErrSub: "panic: 'x'"},
		{Name: "error_right_late_row", Kind: "error", Lines: L, Shared: "pool+join",
			SQL: func(k int) string {
				return fmt.Sprintf("SELECT x.id, y.v, x.n, y.o FROM b.json y JOIN (SELECT * FROM a.json WHERE id != %d.0 OR panic('x') IS NULL) x ON x.id = y.id", k)
			}, ErrSub: "panic: 'x'"},
		{Name: "malformed_json_left", Kind: "error", Lines: L, BadSide: "left", Shared: "pool+join",
			SQL:    func(int) string { return "SELECT x.id, y.v FROM bad.json x JOIN b.json y ON x.id = y.id" },
			ErrSub: "couldn't parse line"},
		{Name: "malformed_json_right", Kind: "error", Lines: L, BadSide: "right", Shared: "pool+join",
			SQL:    func(int) string { return "SELECT x.id, y.v FROM b.json x JOIN bad.json y ON x.id = y.id" },
			ErrSub: "couldn't parse line"},
		{Name: "left_join", Kind: "complete", Lines: S, Shared: "pool+outer-join",
			SQL:  func(int) string { return "SELECT x.id, y.v, x.u, y.n FROM a.json x LEFT JOIN b.json y ON x.id = y.id" },
			Rows: func(n, k int) int { return -1 }, MinRows: func(n int) int { return n }},
		{Name: "outer_join", Kind: "complete", Lines: S, Shared: "pool+outer-join",
			SQL:  func(int) string { return "SELECT x.id, y.v FROM a.json x OUTER JOIN b.json y ON x.id = y.id" },
			Rows: func(n, k int) int { return -1 }, MinRows: func(n int) int { return n }},
		{Name: "groupby_orderby_limit_over_join", Kind: "complete", Lines: L, Shared: "pool+join",
			SQL: func(int) string {
				return "SELECT x.u, count(*) AS n FROM a.json x JOIN b.json y ON x.id = y.id GROUP BY x.u ORDER BY n DESC LIMIT 3"
			}, Rows: func(n, k int) int { return 3 }},
		{Name: "lookup_join_nested_scans", Kind: "complete", Lines: 60, Shared: "pool(nested datasource runs)",
			SQL:  func(int) string { return "SELECT x.id, y.v FROM a.json x LOOKUP JOIN b.json y ON x.id = y.id" },
			Rows: all},
		{Name: "single_scan_union_columns", Kind: "complete", Lines: L, Shared: "pool+shared-schema-type",
			SQL:  func(int) string { return "SELECT id, u, w, n, o FROM a.json" },
			Rows: all},
		// tail=true follows the file for ever (one-line batches, a pipe-writer goroutine fed by the
		// tail library): finite only because LIMIT stops it; Close has to stop that goroutine
		{Name: "tail_limit_single", Kind: "limit", Lines: L, Shared: "pool+tail-goroutine",
			SQL:  func(int) string { return "SELECT id FROM a.json?tail=true LIMIT 100" },
			Rows: func(n, k int) int { return 100 }},
		{Name: "tail_join_limit", Kind: "limit", Lines: L, Shared: "pool+join+tail-goroutine",
			SQL: func(int) string {
				return "SELECT x.id, y.v FROM a.json?tail=true x JOIN b.json y ON x.id = y.id LIMIT 100"
			}, Rows: func(n, k int) int { return 100 }},
	}
	return ws
}

// ---------------------------------------------------------------------------------------------
// One CLI run

type runCfg struct {
	ID       string
	W        workload
	Rep      int
	Procs    int
	DelayMax int // 0 = no delay
	DelaySd  int
	K        int // the late row that fails / is malformed
	ChunkSd  int64
}

func (r runCfg) key() string {
	return fmt.Sprintf("%s/p%d/d%d:%d/k%d", r.W.Name, r.Procs, r.DelayMax, r.DelaySd, r.K)
}

type driver struct {
	c       *core.Ctx
	runner  *cli.Runner
	dataMu  sync.Mutex
	dataDir map[string]string // "<lines>/<bad k>" -> dir
	stdinMu sync.Mutex
	stdin   map[int][]byte

	mu        sync.Mutex
	seenPairs map[string]bool // race key + stack pair already seen
	seenKeys  map[string]bool // race keys already reported
	hook      map[string]int64
	wall      map[string][]int64
	matrix    map[string][]string
	raceTotal int

	probeCalibrated bool
}

const hookDelayPoints = "json.worker.batch_parsed,json.reader.before_submit"

func (d *driver) data(lines, badAt int) string {
	d.dataMu.Lock()
	defer d.dataMu.Unlock()
	key := fmt.Sprintf("%d-%d", lines, badAt)
	if dir, ok := d.dataDir[key]; ok {
		return dir
	}
	dir := filepath.Join(d.c.Scratch, "data-"+key)
	_ = os.MkdirAll(dir, 0o755)
	good := mkFile(lines, -1)
	for _, n := range []string{"a.json", "b.json", "c.json"} {
		_ = os.WriteFile(filepath.Join(dir, n), good, 0o644)
	}
	if badAt >= 0 {
		_ = os.WriteFile(filepath.Join(dir, "bad.json"), mkFile(lines, badAt), 0o644)
	}
	d.dataDir[key] = dir
	return dir
}

func (d *driver) stdinData(lines int) []byte {
	d.stdinMu.Lock()
	defer d.stdinMu.Unlock()
	if b, ok := d.stdin[lines]; ok {
		return b
	}
	b := mkFile(lines, -1)
	d.stdin[lines] = b
	return b
}

func chunks(data []byte, seed int64) [][]byte {
	// deterministic pseudo-random chunk sizes between 1 byte and 64 KiB: boundaries fall inside lines
	var out [][]byte
	x := uint64(seed)*2862933555777941757 + 3037000493
	for len(data) > 0 {
		x ^= x << 13
		x ^= x >> 7
		x ^= x << 17
		n := int(x%65536) + 1
		if x%5 == 0 {
			n = int(x%97) + 1
		}
		if n > len(data) {
			n = len(data)
		}
		out = append(out, data[:n])
		data = data[n:]
	}
	return out
}

func raceEnv(logPrefix string, atexitSleepMs int) string {
	return fmt.Sprintf("GORACE=halt_on_error=0 exitcode=0 atexit_sleep_ms=%d log_path=%s", atexitSleepMs, logPrefix)
}

type runOutcome struct {
	Cfg      runCfg
	Exit     int
	Rows     int
	WallMs   int64
	TimedOut bool
	Races    int
	Trace    map[string]int
	Outcome  string // as-designed | unexpected:<why> | watchdog:<verdict> | crash
	StderrHd string
}

func (d *driver) execute(rc runCfg) runOutcome {
	c := d.c
	w := rc.W
	badAt := -1
	if w.BadSide != "" {
		badAt = rc.K
	}
	dir := d.data(w.Lines, badAt)
	logPrefix := filepath.Join(c.Scratch, "racelog", rc.ID)
	tracePath := filepath.Join(c.Scratch, "trace", rc.ID+".trace")
	_ = os.MkdirAll(filepath.Dir(logPrefix), 0o755)
	_ = os.MkdirAll(filepath.Dir(tracePath), 0o755)
	// Runs that are stopped early keep the race runtime's default one-second exit pause: the
	// goroutines the engine leaves behind (join producers, datasource readers, pool workers) keep
	// running during it and are still watched by the detector.
	atexit := 0
	if w.Kind != "complete" {
		atexit = 1000
	}
	env := []string{
		raceEnv(logPrefix, atexit),
		"GOMAXPROCS=" + strconv.Itoa(rc.Procs),
		"VERIF_TRACE=" + tracePath,
		"GOTRACEBACK=all",
	}
	if rc.DelayMax > 0 {
		env = append(env, fmt.Sprintf("VERIF_DELAY=%s:%d:%d", hookDelayPoints, rc.DelayMax, rc.DelaySd))
	}
	run := cli.Run{
		Args:    []string{w.SQL(rc.K), "-o", "json"},
		Env:     env,
		Race:    true,
		Timeout: watchdog(),
		Dir:     dir,
	}
	if w.Stdin {
		run.StdinChunks = chunks(d.stdinData(w.Lines), rc.ChunkSd)
		run.ChunkPause = 100 * time.Microsecond
	}
	c.LogCase(rc.ID, rc.key(), " ", run.Args[0])
	res := d.exec(run)
	if res.TimedOut && endedByItself(res) {
		// the process finished normally in the very moment the watchdog fired: it terminated
		res.TimedOut = false
		c.Count("finished_as_the_watchdog_fired", 1)
	}
	if v := classifyDump(string(res.Stderr)).Verdict; res.TimedOut && (v == "inconclusive" || v == "no-dump") {
		// The watchdog fired but the dump shows live work (a loaded machine): the same case is run
		// once more with three times the budget. The verdict still comes from what that run does
		// (it finishes, or its dump is classified) - never from the clock.
		c.Count("watchdog_retries", 1)
		for _, f := range globAll(logPrefix + ".*") {
			_ = os.Remove(f)
		}
		_ = os.Remove(tracePath)
		run.Timeout = 3 * watchdog()
		res = d.exec(run)
		if res.TimedOut && endedByItself(res) {
			res.TimedOut = false
		}
		if !res.TimedOut {
			c.Count("watchdog_retries_finished", 1)
		}
	}
	out := runOutcome{Cfg: rc, Exit: res.Exit, WallMs: res.Dur.Milliseconds(), TimedOut: res.TimedOut}
	out.Rows = bytes.Count(res.Stdout, []byte("\n"))
	out.Trace = readTrace(tracePath)
	_ = os.Remove(tracePath)
	hd := string(res.Stderr)
	if i := strings.Index(hd, "Error:"); i >= 0 {
		hd = hd[i:]
	}
	if len(hd) > 300 {
		hd = hd[:300]
	}
	out.StderrHd = hd

	replay := map[string]interface{}{
		"id": rc.ID, "workload": w.Name, "sql": run.Args[0], "args": run.Args, "env": env,
		"lines_per_file": w.Lines, "malformed_line_or_failing_id": rc.K, "stdin_chunk_seed": rc.ChunkSd,
		"data": "files a.json/b.json/c.json: line i = " + mkRow(7).line + " (for i=7); bad.json: line k replaced by `{\"id\": k, \"k\": oops`",
		"exit": res.Exit, "rows": out.Rows, "wall_ms": out.WallMs,
	}

	// 1. race reports (log files; stderr too, in case the runtime could not open the log)
	reports, _ := readRaceLogs(logPrefix)
	reports = append(reports, parseRaceLog(string(res.Stderr))...)
	out.Races = len(reports)
	d.judgeRaces(reports, replay)
	for _, f := range globAll(logPrefix + ".*") {
		_ = os.Remove(f)
	}

	// 2. termination
	out.Outcome = d.judgeTermination(res, replay)
	if out.Outcome != "" {
		return out
	}

	// 3. did the run do what the workload was designed to do? (only decides whether the run counts
	// as non-trivial; result correctness is other properties' business)
	out.Outcome = designed(w, rc, res, out.Rows)
	return out
}

// endedByItself: the watchdog fired, but the process was not killed by a signal and printed no
// goroutine dump - it had just reached its own exit.
func endedByItself(res cli.Result) bool {
	return res.Signal == "" && res.Exit != 2 && res.Exit >= 0 && len(parseDump(string(res.Stderr))) == 0
}

func globAll(pat string) []string {
	m, _ := filepath.Glob(pat)
	return m
}

// exec runs the race build of octosql ($VERIF_C29_OCTOSQL_RACE overrides the binary: used to
// point the same workloads at a deliberately broken build when validating the check).
func (d *driver) exec(run cli.Run) cli.Result {
	if p := os.Getenv("VERIF_C29_OCTOSQL_RACE"); p != "" {
		return d.runner.ExecBin(p, run)
	}
	return d.runner.Exec(run)
}

var watchdogOverride time.Duration

func watchdog() time.Duration {
	if watchdogOverride > 0 {
		return watchdogOverride
	}
	return 120 * time.Second
}

func designed(w workload, rc runCfg, res cli.Result, rows int) string {
	wantErr := w.Kind == "error"
	gotErr := res.Exit != 0
	if w.Kind == "either" {
		wantErr = gotErr
	}
	if wantErr {
		if !gotErr {
			return "unexpected:exit-0-where-an-error-was-injected"
		}
		if !bytes.Contains(res.Stderr, []byte(w.ErrSub)) {
			return "unexpected:other-error"
		}
		return "as-designed"
	}
	if gotErr {
		return "unexpected:exit-" + strconv.Itoa(res.Exit)
	}
	want := w.Rows(w.Lines, rc.K)
	if want >= 0 && rows != want {
		return fmt.Sprintf("unexpected:rows-%d-want-%d", rows, want)
	}
	if want < 0 && w.MinRows != nil && rows < w.MinRows(w.Lines) {
		return fmt.Sprintf("unexpected:rows-%d-want-at-least-%d", rows, w.MinRows(w.Lines))
	}
	return "as-designed"
}

func readTrace(path string) map[string]int {
	out := map[string]int{}
	data, err := os.ReadFile(path)
	if err != nil {
		return out
	}
	for _, l := range strings.Split(string(data), "\n") {
		if l == "" {
			continue
		}
		if i := strings.IndexByte(l, '\t'); i >= 0 {
			l = l[:i]
		}
		out[l]++
	}
	return out
}

// judgeRaces counts every report and every distinct report (finding key + pair of access stacks
// without line numbers) and raises one violation per finding key, i.e. per pair of innermost
// octosql frames: one unsynchronised variable typically produces dozens of stack pairs.
func (d *driver) judgeRaces(reports []raceReport, replay map[string]interface{}) {
	for _, r := range reports {
		d.c.Count("race_reports_total", 1)
		key := r.Key()
		pair := key + "\x00" + r.StackPair()
		d.mu.Lock()
		d.raceTotal++
		seenPair := d.seenPairs[pair]
		d.seenPairs[pair] = true
		seenKey := d.seenKeys[key]
		d.seenKeys[key] = true
		d.mu.Unlock()
		if !seenPair {
			d.c.Count("race_reports_distinct_stack_pairs", 1)
		}
		if seenKey {
			continue
		}
		d.c.Count("race_reports_distinct_keys", 1)
		rp := map[string]interface{}{}
		for k, v := range replay {
			rp[k] = v
		}
		rp["race_report"] = r.Raw
		rp["stack_pair"] = r.StackPair()
		d.c.Violation(key, "the race detector reported a data race: "+firstLines(r.Raw, 14), rp)
	}
}

func firstLines(s string, n int) string {
	ls := strings.Split(s, "\n")
	if len(ls) > n {
		ls = ls[:n]
	}
	return strings.Join(ls, "\n")
}

// judgeTermination handles watchdog stops and the runtime's own deadlock/concurrency fatals.
// Returns "" when the process ended by itself in an ordinary way.
func (d *driver) judgeTermination(res cli.Result, replay map[string]interface{}) string {
	c := d.c
	stderr := string(res.Stderr)
	withDump := func(v dumpVerdict) map[string]interface{} {
		rp := map[string]interface{}{}
		for k, x := range replay {
			rp[k] = x
		}
		rp["dump_classification"] = v
		rp["dump"] = tail(stderr, 60000)
		return rp
	}
	if res.TimedOut {
		v := classifyDump(stderr)
		c.Count("dump/"+v.Verdict, 1)
		switch v.Verdict {
		case "deadlock":
			c.Violation(v.Key, fmt.Sprintf("the run did not finish within the watchdog and every goroutine that is not idle by design is parked: %s", strings.Join(v.Parked, "; ")), withDump(v))
			return "watchdog:deadlock"
		case "inconclusive":
			c.Inconclusive("watchdog:live-goroutines")
			d.noteDump(v, replay)
			return "watchdog:inconclusive"
		default:
			c.Inconclusive("watchdog:no-dump")
			return "watchdog:no-dump"
		}
	}
	if strings.Contains(stderr, "all goroutines are asleep - deadlock!") {
		v := classifyDump(stderr)
		c.Count("dump/runtime-detected-deadlock", 1)
		key := v.Key
		if key == "" {
			var sites []string
			for _, p := range append(v.Parked, v.Live...) {
				sites = append(sites, p)
			}
			key = "deadlock:" + strings.Join(sites, "+")
		}
		c.Violation(key, "the Go runtime stopped the process: all goroutines are asleep - deadlock!", withDump(v))
		return "runtime-deadlock"
	}
	for _, f := range []string{"fatal error: concurrent map", "fatal error: sync: unlock of unlocked", "fatal error: sync: RUnlock of unlocked"} {
		if strings.Contains(stderr, f) {
			site, msg := res.PanicSite()
			c.Violation("race:fatal:"+site, "the runtime detected unsynchronised access: "+msg, withDump(dumpVerdict{}))
			return "runtime-fatal"
		}
	}
	if res.Exit == -2 {
		c.Inconclusive("harness:could-not-run")
		return "harness-error"
	}
	if res.Panicked() {
		// A crash terminates, and it is not a data race report: C07 owns crashes. It is recorded
		// loudly (inconclusive, with the site) because on these workloads it most likely is a
		// concurrency defect of a kind this property's statement does not name.
		site, _ := res.PanicSite()
		c.Inconclusive("crash:" + site)
		return "crash"
	}
	return ""
}

func (d *driver) noteDump(v dumpVerdict, replay map[string]interface{}) {
	d.mu.Lock()
	defer d.mu.Unlock()
	d.c.Note("last_inconclusive_dump", map[string]interface{}{"case": replay["id"], "live": v.Live, "parked": v.Parked, "ignored": v.Ignored})
}

func tail(s string, n int) string {
	if len(s) > n {
		return s[len(s)-n:]
	}
	return s
}

// ---------------------------------------------------------------------------------------------

func Run(c *core.Ctx) core.FinishOpts {
	if leg := os.Getenv("VERIF_C29_CHILD"); leg != "" {
		childMain(c, leg) // never returns
	}
	d := &driver{c: c, runner: cli.NewRunner(c.BinDir, c.Scratch), dataDir: map[string]string{}, stdin: map[int][]byte{},
		seenPairs: map[string]bool{}, seenKeys: map[string]bool{}, hook: map[string]int64{}, wall: map[string][]int64{}, matrix: map[string][]string{}}
	opts := core.FinishOpts{
		Level: "exploration",
		Rule: "case = workload x GOMAXPROCS in {1,2,4,16} x H3 delay (none, or max-microseconds:seed at json.worker.batch_parsed and json.reader.before_submit) x repetition, " +
			"run on the race build of the real binary; a case is non-trivial when it exercised concurrency (a join or a datasource with reader + >= 2 pool batches, " +
			"seen through the VERIF_TRACE hook points) and ended as designed (all rows, exactly the LIMIT, or the injected error); distinct by workload/GOMAXPROCS/delay/failing row; " +
			"in-process cases: one race-build child per (leg, GOMAXPROCS, seed)",
		Assumptions: []string{
			"the Go race detector reports only races that happen on the executed schedule (no claim about other schedules)",
			"termination is bounded progress: 120 s watchdog over workloads that take < 2 s natively; a watchdog stop is a violation only when the goroutine dump shows nothing but parked goroutines",
			"goroutines treated as idle by design: os/signal loop, main.go's SIGINT waiter, ristretto processItems, JSON pool workers parked on the job channel, gRPC/http/glog background loops, runtime goroutines",
			"Go toolchain and race runtime (ThreadSanitizer) are trusted",
		},
	}
	if os.Getenv("VERIF_SELFTEST") == "1" {
		selfTest(d)
		opts.Floor = 0
		return opts
	}

	only := c.Only
	if c.Replay != "" {
		if data, err := os.ReadFile(c.Replay); err == nil {
			var rf struct {
				Case struct {
					ID string `json:"id"`
				} `json:"case"`
			}
			if json.Unmarshal(data, &rf) == nil {
				only = rf.Case.ID
			}
		}
	}

	ws := workloads(c)
	reps := c.Pick(5, 40)
	procs := []int{1, 2, 4, 16}
	delays := []int{100, 1000, 4000}
	rng := c.Rng("cases")
	var cases []runCfg
	for wi, w := range ws {
		off := rng.Intn(4)
		for r := 0; r < reps; r++ {
			rc := runCfg{ID: fmt.Sprintf("s%d-w%02d-r%02d", c.Seed, wi, r), W: w, Rep: r}
			rc.Procs = procs[(r+off)%4]
			// two of every five repetitions run without injected delays
			if r%5 != 0 && r%5 != 3 {
				rc.DelayMax = delays[rng.Intn(len(delays))]
				rc.DelaySd = 1 + rng.Intn(1000000)
			} else {
				_ = rng.Intn(3)
				_ = rng.Intn(1000000)
			}
			// even repetitions: a late row, beyond the join's 10000-message buffer;
			rc.K = w.Lines*5/8 + rng.Intn(w.Lines/4+1)
			if r%2 == 1 {
				// an early row (still beyond the 100 rows of schema inference): the other join
				// side then has far more than the 10000-message buffer left to deliver when the
				// join returns
				rc.K = 150 + rng.Intn(500)
			} else {
				_ = rng.Intn(500)
			}
			rc.ChunkSd = rng.Int63n(1 << 30)
			if w.Kind != "error" {
				rc.K = 0
			}
			cases = append(cases, rc)
		}
	}
	if only != "" && !strings.HasPrefix(only, "inproc-") {
		var sel []runCfg
		for _, rc := range cases {
			for _, id := range strings.Split(only, ",") {
				if rc.ID == id {
					sel = append(sel, rc)
				}
			}
		}
		cases = sel
	}
	if strings.HasPrefix(only, "inproc-") {
		cases = nil
	}
	// interleave workloads so that the parallel workers always run a mix of heavy and light cases
	sort.SliceStable(cases, func(i, j int) bool { return cases[i].Rep < cases[j].Rep })

	workers := 8
	if v, err := strconv.Atoi(os.Getenv("VERIF_C29_WORKERS")); err == nil && v > 0 {
		workers = v
	}
	results := make([]runOutcome, len(cases))
	// the in-process leg (two children at a time) runs next to the CLI leg
	inprocDone := make(chan struct{})
	go func() {
		defer close(inprocDone)
		if only == "" || strings.HasPrefix(only, "inproc-") {
			d.inprocLeg(only)
		}
	}()
	probeDone := make(chan struct{})
	go func() {
		defer close(probeDone)
		if only == "" {
			d.calibrationProbe()
		}
	}()
	core.Parallel(len(cases), workers, func(i int) {
		results[i] = d.execute(cases[i])
	})
	<-inprocDone
	<-probeDone
	if only == "" && !d.probeCalibrated {
		// the first probe ran next to everything else and had not reached its blocked state when
		// it was stopped (loaded machine): once more, alone, with a longer wait
		d.calibrationProbeWait(90 * time.Second)
	}
	hooks := map[string]int64{}
	type wstat struct {
		Runs, AsDesigned   int
		MinMs, MaxMs, SumM int64
	}
	stats := map[string]*wstat{}
	matrix := map[string][]string{}
	for _, o := range results {
		c.Eval(1)
		w := o.Cfg.W
		c.Count("runs/"+w.Name, 1)
		c.Count(fmt.Sprintf("gomaxprocs/%d", o.Cfg.Procs), 1)
		if o.Cfg.DelayMax == 0 {
			c.Count("delay/none", 1)
		} else {
			c.Count(fmt.Sprintf("delay/max_%dus", o.Cfg.DelayMax), 1)
		}
		c.Count("kind/"+w.Kind, 1)
		oc := o.Outcome
		if strings.HasPrefix(oc, "unexpected:") {
			c.Count("outcome/unexpected", 1)
			c.Inconclusive("unexpected-outcome:" + w.Name + ":" + strings.TrimPrefix(oc, "unexpected:"))
		} else {
			c.Count("outcome/"+oc, 1)
		}
		for k, v := range o.Trace {
			hooks[k] += int64(v)
		}
		st := stats[w.Name]
		if st == nil {
			st = &wstat{MinMs: 1 << 60}
			stats[w.Name] = st
		}
		st.Runs++
		st.SumM += o.WallMs
		if o.WallMs < st.MinMs {
			st.MinMs = o.WallMs
		}
		if o.WallMs > st.MaxMs {
			st.MaxMs = o.WallMs
		}
		batches := o.Trace["json.worker.batch_parsed"]
		submits := o.Trace["json.reader.before_submit"]
		// stdin_twice is about two goroutines opening the shared stdin state at once; it fails
		// before any batch is parsed, which is the designed outcome
		nontrivial := oc == "as-designed" && (batches >= 2 || w.Name == "stdin_twice")
		if nontrivial {
			st.AsDesigned++
			c.Nontrivial(o.Cfg.key())
			c.Count("nontrivial_runs", 1)
			if strings.Contains(w.SQL(0), "JOIN") {
				c.Count("nontrivial_with_join", 1)
			}
		}
		matrix[w.Name] = append(matrix[w.Name], fmt.Sprintf("%s p%d delay=%d:%d k=%d -> exit=%d rows=%d races=%d %dms batches=%d submits=%d %s",
			o.Cfg.ID, o.Cfg.Procs, o.Cfg.DelayMax, o.Cfg.DelaySd, o.Cfg.K, o.Exit, o.Rows, o.Races, o.WallMs, batches, submits, oc))
		c.Sample(map[string]interface{}{
			"id": o.Cfg.ID, "workload": w.Name, "aimed_at": w.Shared, "sql": w.SQL(o.Cfg.K), "lines_per_file": w.Lines,
			"gomaxprocs": o.Cfg.Procs, "delay_max_us": o.Cfg.DelayMax, "delay_seed": o.Cfg.DelaySd,
			"exit": o.Exit, "rows": o.Rows, "wall_ms": o.WallMs, "race_reports": o.Races, "hook_points": o.Trace,
			"outcome": oc, "stderr": o.StderrHd,
		})
	}
	wallNote := map[string]interface{}{}
	for k, st := range stats {
		wallNote[k] = map[string]interface{}{"runs": st.Runs, "nontrivial": st.AsDesigned, "min_ms": st.MinMs, "max_ms": st.MaxMs, "avg_ms": st.SumM / int64(st.Runs)}
	}
	c.Note("cli_wall_ms_per_workload", wallNote)
	c.Note("cli_hook_points_reached", hooks)
	c.Note("cli_runs_by_workload", matrix)
	c.Note("cli_parallel_workers", workers)
	c.Note("watchdog_s", int(watchdog().Seconds()))

	d.mu.Lock()
	c.Note("race_reports_total", d.raceTotal)
	c.Note("race_reports_distinct_stack_pairs", len(d.seenPairs))
	c.Note("race_reports_distinct_keys", len(d.seenKeys))
	d.mu.Unlock()
	opts.Floor = c.Pick(50, 400)
	if only != "" {
		opts.Floor = 0
	}
	return opts
}

// calibrationProbe obtains a real goroutine dump of the current race binary in a state that is
// known not to be a deadlock: a join whose stdin side has delivered 1000 lines and is then kept
// open without further data (not a finite workload, so nothing is judged). The classifier must
// (1) parse the dump, (2) ignore exactly the idle-by-design goroutines, and (3) find one live
// goroutine, the stdin reader. If any *other* goroutine of an idle process shows up as live
// (say, a background ticker that sleeps), a real deadlock could never be classified as one; the
// evidence records that as probe/uncalibrated.
func (d *driver) calibrationProbe() { d.calibrationProbeWait(25 * time.Second) }

func (d *driver) calibrationProbeWait(wait time.Duration) {
	c := d.c
	dir := d.data(20000, -1)
	first := mkFile(1000, -1)
	run := cli.Run{
		Args:        []string{"SELECT x.id, y.v FROM stdin.json x JOIN b.json y ON x.id = y.id", "-o", "json"},
		Env:         []string{raceEnv(filepath.Join(c.Scratch, "racelog", "probe"), 0), "GOTRACEBACK=all"},
		Race:        true,
		Timeout:     wait,
		Dir:         dir,
		StdinChunks: [][]byte{first, []byte("\n")},
		ChunkPause:  wait + 20*time.Second,
	}
	res := d.exec(run)
	note := map[string]interface{}{"sql": run.Args[0], "stdin": "1000 lines, then held open", "stopped_after_s": int(wait.Seconds()), "timed_out": res.TimedOut}
	if !res.TimedOut {
		c.Count("probe/did-not-block", 1)
		c.Note("calibration_probe", note)
		return
	}
	v := classifyDump(string(res.Stderr))
	note["verdict"] = v.Verdict
	note["goroutines"] = v.Goroutines
	note["ignored_idle_by_design"] = v.Ignored
	note["parked"] = v.Parked
	note["live"] = v.Live
	var other []string
	stdinReader := 0
	for _, l := range v.Live {
		if strings.Contains(l, "execution/files.") || strings.Contains(l, "os.(*File).Read") {
			stdinReader++
		} else {
			other = append(other, l)
		}
	}
	switch {
	case v.Verdict == "inconclusive" && stdinReader >= 1 && len(other) == 0:
		c.Count("probe/calibrated:only-the-stdin-reader-is-live", 1)
		d.probeCalibrated = true
	case v.Verdict == "deadlock":
		// must never happen: the stdin reader is in a system call
		c.Count("probe/uncalibrated:blocked-read-classified-as-deadlock", 1)
		c.Inconclusive("probe:classifier-called-a-blocked-stdin-read-a-deadlock")
	default:
		c.Count("probe/not-yet-blocked-when-stopped:other-live-goroutines", 1)
		note["other_live"] = other
	}
	c.Note("calibration_probe", note)
}

// Package pipex holds two small helpers shared by the C08 and C11 drivers (both plan and run
// 10^5..10^7 tiny queries through nodeh.Plan): a synchronous runner without a watchdog goroutine
// and timer per run, and the --replay/--only plumbing.
package pipex

import (
	"context"
	"encoding/json"
	"fmt"
	"os"
	"reflect"
	"runtime/debug"
	"sync"
	"time"

	"github.com/cube2222/octosql/execution"
	"github.com/cube2222/octosql/logical"
	"github.com/cube2222/octosql/optimizer"
	"github.com/cube2222/octosql/parser"
	"github.com/cube2222/octosql/parser/sqlparser"
	"github.com/cube2222/octosql/physical"

	"github.com/cube2222/octosql/plugins/verifharness/core"
	"github.com/cube2222/octosql/plugins/verifharness/nodeh"
)

// Plan is nodeh.Plan without ORDER BY / LIMIT wiring.
func Plan(ctx context.Context, sql string, db *nodeh.DB, optimize bool) (*nodeh.Planned, *nodeh.PlanError) {
	return nodeh.Plan(ctx, sql, db, nodeh.PlanOpts{Optimize: optimize, Output: "none"})
}

// Run runs a planned query on the calling goroutine under recover. Only for plans over finite
// scripted sources that start no goroutines of their own (no joins); use RunW otherwise.
func Run(ctx context.Context, p *nodeh.Planned) (outs []nodeh.Out, res nodeh.RunResult) {
	col := &nodeh.Collector{}
	func() {
		defer func() {
			if r := recover(); r != nil {
				res.Panicked = true
				res.PanicMsg = fmt.Sprint(r)
				res.Stack = string(debug.Stack())
			}
		}()
		res.Err = p.Exec.Run(execution.ExecutionContext{Context: ctx, VariableContext: nil}, col.Produce, col.MetaSend)
	}()
	return col.Snapshot(), res
}

// RunW runs a planned query under nodeh's watchdog (for plans that start goroutines: joins).
func RunW(ctx context.Context, p *nodeh.Planned, timeout time.Duration) ([]nodeh.Out, nodeh.RunResult) {
	col := &nodeh.Collector{}
	res := nodeh.RunNodeCtx(ctx, p.Exec, col, nil, timeout)
	return col.Snapshot(), res
}

// OnlyID returns the case id to restrict the run to: c.Only, or the "id" of the case stored in the
// replay file given with --replay ("" = run everything).
func OnlyID(c *core.Ctx) string {
	if c.Only != "" {
		return c.Only
	}
	if c.Replay == "" {
		return ""
	}
	data, err := os.ReadFile(c.Replay)
	if err != nil {
		return "unreadable-replay"
	}
	var body struct {
		Case map[string]interface{} `json:"case"`
	}
	if err := json.Unmarshal(data, &body); err != nil {
		return "unreadable-replay"
	}
	if id, ok := body.Case["id"].(string); ok {
		return id
	}
	return "unreadable-replay"
}

// ---------------------------------------------------------------------------------------------
// Which descriptor did the real overload resolution pick? Descriptors are identified by the code
// pointer of their Function (every descriptor of functions.FunctionMap() is a distinct closure).

var descOnce sync.Once
var descByPtr map[uintptr]string

// DescriptorKey returns "name#index" of a descriptor of nodeh.FunctionMap() ("" if unknown).
func DescriptorKey(d physical.FunctionDescriptor) string {
	descOnce.Do(func() {
		descByPtr = map[uintptr]string{}
		for name, det := range nodeh.FunctionMap() {
			for i, dd := range det.Descriptors {
				descByPtr[reflect.ValueOf(dd.Function).Pointer()] = fmt.Sprintf("%s#%d", name, i)
			}
		}
	})
	if d.Function == nil {
		return ""
	}
	return descByPtr[reflect.ValueOf(d.Function).Pointer()]
}

// SelectExprs returns the expressions of the top-level Map node of a plan (nil if it is not one).
func SelectExprs(p *nodeh.Planned) []physical.Expression {
	if p == nil || p.Physical.NodeType != physical.NodeTypeMap || p.Physical.Map == nil {
		return nil
	}
	return p.Physical.Map.Expressions
}

// ---------------------------------------------------------------------------------------------
// PlanWith is nodeh.Plan (Output "none") with a caller-supplied function map. It exists for one
// purpose: deciding whether a violation is attributable to a known finding about a function
// descriptor by re-planning the same query with exactly that descriptor's declaration changed.
// The wiring is the same as nodeh.Plan's.
func PlanWith(ctx context.Context, sql string, db *nodeh.DB, optimize bool, fm map[string]physical.FunctionDetails) (p *nodeh.Planned, perr *nodeh.PlanError) {
	defer func() {
		if r := recover(); r != nil {
			p = nil
			perr = &nodeh.PlanError{Stage: "panic", Err: fmt.Errorf("%v", r), Stack: string(debug.Stack())}
		}
	}()
	env := nodeh.Env(db)
	env.Functions = fm
	statement, err := sqlparser.Parse(sql)
	if err != nil {
		return nil, &nodeh.PlanError{Stage: "parse", Err: err}
	}
	selectStmt, ok := statement.(sqlparser.SelectStatement)
	if !ok {
		return nil, &nodeh.PlanError{Stage: "parse", Err: fmt.Errorf("only SELECT statements are supported")}
	}
	logicalPlan, _, err := parser.ParseNode(selectStmt)
	if err != nil {
		return nil, &nodeh.PlanError{Stage: "logical", Err: err}
	}
	var physicalPlan physical.Node
	var mapping map[string]string
	func() {
		defer func() {
			if r := recover(); r != nil {
				err = fmt.Errorf("typecheck error: %s", r)
			}
		}()
		physicalPlan, mapping = logicalPlan.Typecheck(ctx, env, logical.Environment{
			CommonTableExpressions: map[string]logical.CommonTableExpression{},
			TableValuedFunctions:   nodeh.TVFs(),
			UniqueNameGenerator:    map[string]int{},
		})
	}()
	if err != nil {
		return nil, &nodeh.PlanError{Stage: "typecheck", Err: err}
	}
	reverseMapping := logical.ReverseMapping(mapping)
	if optimize {
		physicalPlan = optimizer.Optimize(physicalPlan)
	}
	execPlan, err := physicalPlan.Materialize(ctx, env)
	if err != nil {
		return nil, &nodeh.PlanError{Stage: "materialize", Err: err}
	}
	out := &nodeh.Planned{Physical: physicalPlan, Schema: physicalPlan.Schema, Exec: execPlan}
	out.OutFields = make([]physical.SchemaField, len(physicalPlan.Schema.Fields))
	copy(out.OutFields, physicalPlan.Schema.Fields)
	for i := range out.OutFields {
		out.OutFields[i].Name = reverseMapping[out.OutFields[i].Name]
	}
	return out, nil
}

// Package pipex holds two small helpers shared by the C08 and C11 drivers (both plan and run
// 10^5..10^7 tiny queries through nodeh.Plan): a synchronous runner without a watchdog goroutine
// and timer per run, and the --replay/--only plumbing.
package pipex

import (
	"context"
	"encoding/json"
	"fmt"
	"os"
	"runtime/debug"
	"time"

	"github.com/cube2222/octosql/execution"

	"github.com/cube2222/octosql/plugins/verifharness/core"
	"github.com/cube2222/octosql/plugins/verifharness/nodeh"
)

// Plan is nodeh.Plan without ORDER BY / LIMIT wiring.
func Plan(ctx context.Context, sql string, db *nodeh.DB, optimize bool) (*nodeh.Planned, *nodeh.PlanError) {
	return nodeh.Plan(ctx, sql, db, nodeh.PlanOpts{Optimize: optimize, Output: "none"})
}

// Run runs a planned query on the calling goroutine under recover. Only for plans over finite
// scripted sources that start no goroutines of their own (no joins); use RunW otherwise.
func Run(ctx context.Context, p *nodeh.Planned) (outs []nodeh.Out, res nodeh.RunResult) {
	col := &nodeh.Collector{}
	func() {
		defer func() {
			if r := recover(); r != nil {
				res.Panicked = true
				res.PanicMsg = fmt.Sprint(r)
				res.Stack = string(debug.Stack())
			}
		}()
		res.Err = p.Exec.Run(execution.ExecutionContext{Context: ctx, VariableContext: nil}, col.Produce, col.MetaSend)
	}()
	return col.Snapshot(), res
}

// RunW runs a planned query under nodeh's watchdog (for plans that start goroutines: joins).
func RunW(ctx context.Context, p *nodeh.Planned, timeout time.Duration) ([]nodeh.Out, nodeh.RunResult) {
	col := &nodeh.Collector{}
	res := nodeh.RunNodeCtx(ctx, p.Exec, col, nil, timeout)
	return col.Snapshot(), res
}

// OnlyID returns the case id to restrict the run to: c.Only, or the "id" of the case stored in the
// replay file given with --replay ("" = run everything).
func OnlyID(c *core.Ctx) string {
	if c.Only != "" {
		return c.Only
	}
	if c.Replay == "" {
		return ""
	}
	data, err := os.ReadFile(c.Replay)
	if err != nil {
		return "unreadable-replay"
	}
	var body struct {
		Case map[string]interface{} `json:"case"`
	}
	if err := json.Unmarshal(data, &body); err != nil {
		return "unreadable-replay"
	}
	if id, ok := body.Case["id"].(string); ok {
		return id
	}
	return "unreadable-replay"
}

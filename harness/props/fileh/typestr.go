package fileh

import (
	"fmt"
	"strings"

	"github.com/cube2222/octosql/octosql"
)

// ParseTypeString parses what `--describe` prints in its "type" column (octosql.Type.String())
// back into a type value (own recursive-descent parser; octosql has none). Field names must not
// contain ": ", "; ", "}" (CLI legs use simple names).
//
//	type   := alt (" | " alt)*
//	alt    := NULL | Int | Float | Boolean | String | Time | Duration | Any
//	        | "[]" | "[" type "]" | "{" [name ": " type ("; " name ": " type)*] "}" | "(" [type (", " type)*] ")"
func ParseTypeString(s string) (octosql.Type, error) {
	p := &typeParser{s: s}
	t, err := p.union()
	if err != nil {
		return octosql.Type{}, err
	}
	if p.i != len(p.s) {
		return octosql.Type{}, fmt.Errorf("trailing %q in type %q", p.s[p.i:], s)
	}
	return t, nil
}

type typeParser struct {
	s string
	i int
}

func (p *typeParser) has(prefix string) bool { return strings.HasPrefix(p.s[p.i:], prefix) }

func (p *typeParser) eat(prefix string) bool {
	if p.has(prefix) {
		p.i += len(prefix)
		return true
	}
	return false
}

func (p *typeParser) union() (octosql.Type, error) {
	first, err := p.alt()
	if err != nil {
		return first, err
	}
	alts := []octosql.Type{first}
	for p.eat(" | ") {
		a, err := p.alt()
		if err != nil {
			return a, err
		}
		alts = append(alts, a)
	}
	if len(alts) == 1 {
		return first, nil
	}
	return octosql.Type{TypeID: octosql.TypeIDUnion, Union: struct{ Alternatives []octosql.Type }{Alternatives: alts}}, nil
}

func (p *typeParser) alt() (octosql.Type, error) {
	for name, t := range map[string]octosql.Type{"NULL": octosql.Null, "Int": octosql.Int, "Float": octosql.Float, "Boolean": octosql.Boolean,
		"String": octosql.String, "Time": octosql.Time, "Duration": octosql.Duration, "Any": octosql.Any} {
		if p.has(name) {
			rest := p.s[p.i+len(name):]
			if rest == "" || strings.HasPrefix(rest, " | ") || strings.HasPrefix(rest, "]") || strings.HasPrefix(rest, "}") || strings.HasPrefix(rest, "; ") || strings.HasPrefix(rest, ")") || strings.HasPrefix(rest, ", ") {
				p.i += len(name)
				return t, nil
			}
		}
	}
	switch {
	case p.eat("[]"):
		return octosql.Type{TypeID: octosql.TypeIDList}, nil
	case p.eat("["):
		e, err := p.union()
		if err != nil {
			return e, err
		}
		if !p.eat("]") {
			return e, fmt.Errorf("expected ] at %d in %q", p.i, p.s)
		}
		return octosql.Type{TypeID: octosql.TypeIDList, List: struct{ Element *octosql.Type }{Element: &e}}, nil
	case p.eat("{"):
		var fields []octosql.StructField
		if p.eat("}") {
			return octosql.Type{TypeID: octosql.TypeIDStruct}, nil
		}
		for {
			j := strings.Index(p.s[p.i:], ": ")
			if j < 0 {
				return octosql.Type{}, fmt.Errorf("expected field name at %d in %q", p.i, p.s)
			}
			name := p.s[p.i : p.i+j]
			p.i += j + 2
			ft, err := p.union()
			if err != nil {
				return ft, err
			}
			fields = append(fields, octosql.StructField{Name: name, Type: ft})
			if p.eat("; ") {
				continue
			}
			if p.eat("}") {
				break
			}
			return octosql.Type{}, fmt.Errorf("expected ; or } at %d in %q", p.i, p.s)
		}
		return octosql.Type{TypeID: octosql.TypeIDStruct, Struct: struct{ Fields []octosql.StructField }{Fields: fields}}, nil
	case p.eat("("):
		var elems []octosql.Type
		if p.eat(")") {
			return octosql.Type{TypeID: octosql.TypeIDTuple}, nil
		}
		for {
			e, err := p.union()
			if err != nil {
				return e, err
			}
			elems = append(elems, e)
			if p.eat(", ") {
				continue
			}
			if p.eat(")") {
				break
			}
			return octosql.Type{}, fmt.Errorf("expected , or ) at %d in %q", p.i, p.s)
		}
		return octosql.Type{TypeID: octosql.TypeIDTuple, Tuple: struct{ Elements []octosql.Type }{Elements: elems}}, nil
	}
	return octosql.Type{}, fmt.Errorf("unexpected %q at %d in type %q", p.s[p.i:], p.i, p.s)
}

// TypeText renders a type with own code (same syntax as --describe), for messages.
func TypeText(t octosql.Type) string {
	switch t.TypeID {
	case octosql.TypeIDNull:
		return "NULL"
	case octosql.TypeIDInt:
		return "Int"
	case octosql.TypeIDFloat:
		return "Float"
	case octosql.TypeIDBoolean:
		return "Boolean"
	case octosql.TypeIDString:
		return "String"
	case octosql.TypeIDTime:
		return "Time"
	case octosql.TypeIDDuration:
		return "Duration"
	case octosql.TypeIDAny:
		return "Any"
	case octosql.TypeIDList:
		if t.List.Element == nil {
			return "[]"
		}
		return "[" + TypeText(*t.List.Element) + "]"
	case octosql.TypeIDStruct:
		parts := make([]string, len(t.Struct.Fields))
		for i, f := range t.Struct.Fields {
			parts[i] = f.Name + ": " + TypeText(f.Type)
		}
		return "{" + strings.Join(parts, "; ") + "}"
	case octosql.TypeIDTuple:
		parts := make([]string, len(t.Tuple.Elements))
		for i, e := range t.Tuple.Elements {
			parts[i] = TypeText(e)
		}
		return "(" + strings.Join(parts, ", ") + ")"
	case octosql.TypeIDUnion:
		parts := make([]string, len(t.Union.Alternatives))
		for i, a := range t.Union.Alternatives {
			parts[i] = TypeText(a)
		}
		return strings.Join(parts, " | ")
	}
	return "?"
}

package fileh

import (
	"time"

	"github.com/cube2222/octosql/execution"
	"github.com/cube2222/octosql/octosql"
)

// Hostile wraps a node with a consumer that does what downstream nodes are allowed to do with a
// record they were handed: after passing the record on (the collector copies it), it appends
// values to record.Values (tumble does exactly that), which writes into the slice's spare
// capacity if the producer left any, and then overwrites the record's own values. A datasource
// whose records share a backing array, or that re-reads a record after producing it, then
// corrupts LATER records - which the ground-truth comparison of the caller sees.
func Hostile(src execution.Node) execution.Node { return &hostileNode{src: src} }

type hostileNode struct{ src execution.Node }

var hostileTime = time.Date(1999, 12, 31, 23, 59, 59, 0, time.UTC)

func (h *hostileNode) Run(ctx execution.ExecutionContext, produce execution.ProduceFn, metaSend execution.MetaSendFn) error {
	return h.src.Run(ctx, func(pctx execution.ProduceContext, record execution.Record) error {
		err := produce(pctx, record)
		grown := append(record.Values, octosql.NewTime(hostileTime), octosql.NewString("\x00hostile-consumer"))
		_ = grown
		wide := record.Values[:0]
		for i := 0; i < len(record.Values); i++ {
			wide = append(wide, octosql.NewTime(hostileTime))
		}
		_ = wide
		return err
	}, metaSend)
}

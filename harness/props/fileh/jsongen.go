package fileh

import (
	"bytes"
	"math/rand"
)

// ---------------------------------------------------------------------------------------------
// JSON-lines file generator. A file is described by a random Spec; the first rows ("templates",
// all inside the 100-row inference preview) are drawn freely from the spec, every later row is a
// re-draw of a template's *shape* with fresh scalars. Every later row is therefore representable
// in whatever type the preview establishes (files that are not are C24's subject).

const (
	SFloat = iota
	SStr
	STime
	SBool
	SNull
	SList
	SObj
	SUnion
)

type Spec struct {
	Kind   int
	Elem   *Spec
	Fields []SpecField
	Alts   []*Spec
}

type SpecField struct {
	Name     string
	Spec     *Spec
	Optional bool
}

var keyPool = []string{"a", "b", "c", "id", "name", "val", "x1", "Key", "k_2", "ключ", "a b", "q\"k", "日", "e\\s", "long_key_name_0123456789", "t", "n"}
var keyPoolPlain = []string{"a", "b", "c", "id", "name", "val", "x1", "Key", "k_2", "t", "n", "m", "zz"}

type GenOpts struct {
	Plain        bool // plain strings, simple keys, whole-second times (CLI legs)
	NoNested     bool
	MaxTopFields int
}

func RandSpec(rng *rand.Rand, depth int, o GenOpts) *Spec {
	max := 8
	if depth >= 2 || o.NoNested {
		max = 5
	}
	switch k := rng.Intn(max + 2); {
	case k == 0 || k == 5:
		return &Spec{Kind: SFloat}
	case k == 1:
		return &Spec{Kind: SStr}
	case k == 2:
		return &Spec{Kind: STime}
	case k == 3:
		return &Spec{Kind: SBool}
	case k == 4:
		if rng.Intn(3) == 0 {
			return &Spec{Kind: SNull}
		}
		return &Spec{Kind: SUnion, Alts: []*Spec{{Kind: SNull}, RandSpec(rng, depth+1, o)}}
	case k == 6:
		// union of 2-3 scalar-or-nested alternatives
		n := 2 + rng.Intn(2)
		alts := make([]*Spec, n)
		for i := range alts {
			alts[i] = RandSpec(rng, depth+1, o)
		}
		return &Spec{Kind: SUnion, Alts: alts}
	case k == 7 || k == 8:
		return &Spec{Kind: SList, Elem: RandSpec(rng, depth+1, o)}
	default:
		return randObjSpec(rng, depth+1, 1+rng.Intn(3), o)
	}
}

func randObjSpec(rng *rand.Rand, depth, n int, o GenOpts) *Spec {
	pool := keyPool
	if o.Plain {
		pool = keyPoolPlain
	}
	perm := rng.Perm(len(pool))
	s := &Spec{Kind: SObj}
	for i := 0; i < n && i < len(perm); i++ {
		s.Fields = append(s.Fields, SpecField{Name: pool[perm[i]], Spec: RandSpec(rng, depth, o), Optional: rng.Intn(5) == 0})
	}
	return s
}

// RandTopSpec is the spec of a row: an object of 1..MaxTopFields columns.
func RandTopSpec(rng *rand.Rand, o GenOpts) *Spec {
	m := o.MaxTopFields
	if m == 0 {
		m = 6
	}
	return randObjSpec(rng, 0, 1+rng.Intn(m), o)
}

func GenValue(rng *rand.Rand, s *Spec, o GenOpts) interface{} {
	switch s.Kind {
	case SFloat:
		return RandNum(rng)
	case SStr:
		return RandStr(rng, StrOpts{Plain: o.Plain})
	case STime:
		str, _ := RandTimeStr(rng, o.Plain)
		return str
	case SBool:
		return rng.Intn(2) == 0
	case SNull:
		return nil
	case SList:
		n := rng.Intn(5)
		l := make([]interface{}, n)
		for i := range l {
			l[i] = GenValue(rng, s.Elem, o)
		}
		return l
	case SObj:
		obj := &Obj{}
		for _, i := range rng.Perm(len(s.Fields)) {
			f := s.Fields[i]
			if f.Optional && rng.Intn(3) == 0 {
				continue
			}
			obj.Keys = append(obj.Keys, f.Name)
			obj.Vals = append(obj.Vals, GenValue(rng, f.Spec, o))
		}
		return obj
	case SUnion:
		return GenValue(rng, s.Alts[rng.Intn(len(s.Alts))], o)
	}
	panic("fileh: bad spec")
}

// Reshape draws a value with the shape of tmpl and fresh scalars.
func Reshape(rng *rand.Rand, tmpl interface{}, o GenOpts) interface{} {
	switch x := tmpl.(type) {
	case nil:
		return nil
	case bool:
		return rng.Intn(2) == 0
	case Num:
		return RandNum(rng)
	case string:
		if IsTimeLike(x) {
			s, _ := RandTimeStr(rng, o.Plain)
			return s
		}
		return RandStr(rng, StrOpts{Plain: o.Plain})
	case []interface{}:
		if len(x) == 0 {
			return []interface{}{}
		}
		n := rng.Intn(6)
		l := make([]interface{}, n)
		for i := range l {
			l[i] = Reshape(rng, x[rng.Intn(len(x))], o)
		}
		return l
	case *Obj:
		obj := &Obj{Keys: make([]string, 0, len(x.Keys)), Vals: make([]interface{}, 0, len(x.Keys))}
		for _, i := range rng.Perm(len(x.Keys)) {
			obj.Keys = append(obj.Keys, x.Keys[i])
			obj.Vals = append(obj.Vals, Reshape(rng, x.Vals[i], o))
		}
		return obj
	}
	panic("fileh: bad model value")
}

// hasEmptyListOnly reports whether some list position of the templates holds only empty lists
// (the inferred element type would be absent; a later non-empty list there crashes a JSON worker
// goroutine on the unchanged tree - C07's finding - so in-process generators must not produce it;
// Reshape never does, since it keeps empty lists empty).

// JSONFile is a generated file and its ground truth.
type JSONFile struct {
	Rows    []*Obj
	Content []byte
	Style   int
	CRLF    bool
	NoFinal bool // no newline after the last row
}

type JSONFileOpts struct {
	Gen       GenOpts
	Templates int // number of freely drawn rows (<= 100); default 40
}

func GenJSONFile(rng *rand.Rand, nRows int, o JSONFileOpts) *JSONFile {
	spec := RandTopSpec(rng, o.Gen)
	T := o.Templates
	if T == 0 {
		T = 40
	}
	if T > 100 {
		T = 100
	}
	f := &JSONFile{Style: rng.Intn(2), CRLF: rng.Intn(6) == 0, NoFinal: rng.Intn(4) == 0}
	f.Rows = make([]*Obj, 0, nRows)
	for i := 0; i < nRows; i++ {
		var row *Obj
		if i < T {
			row = GenValue(rng, spec, o.Gen).(*Obj)
		} else {
			row = Reshape(rng, f.Rows[rng.Intn(T)], o.Gen).(*Obj)
		}
		f.Rows = append(f.Rows, row)
	}
	f.Content = SerialiseJSONRows(rng, f.Rows, f.Style, f.CRLF, f.NoFinal)
	return f
}

func SerialiseJSONRows(rng *rand.Rand, rows []*Obj, style int, crlf, noFinal bool) []byte {
	var b bytes.Buffer
	b.Grow(len(rows)*160 + 64)
	w := &JSONWriter{Rng: rng, Style: style}
	for i, r := range rows {
		w.Write(&b, r)
		if i == len(rows)-1 && noFinal {
			break
		}
		if crlf {
			b.WriteString("\r\n")
		} else {
			b.WriteByte('\n')
		}
	}
	return b.Bytes()
}

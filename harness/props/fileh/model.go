// Package fileh holds what the file-datasource and output-format drivers (C23, C24, C25) share:
// a JSON value model with its own serialiser, generators that keep the ground truth of what they
// wrote, own comparison of octosql values / decoded CLI output against that ground truth, an own
// matches(value, type) and a parser for the type strings --describe prints.
//
// Nothing here uses octosql's Value.String/Compare/Hash or octosql's parsers: the trusted base is
// Go's strconv / encoding/json / time.
package fileh

import (
	"bytes"
	"fmt"
	"math"
	"math/rand"
	"strconv"
	"strings"
	"time"
	"unicode/utf16"
	"unicode/utf8"
)

// ---------------------------------------------------------------------------------------------
// JSON model: nil, bool, Num, string, []interface{}, *Obj

// Num is a JSON number as written; Val is the correctly rounded value of Lit (strconv).
type Num struct {
	Lit string
	Val float64
}

func NumOf(lit string) Num {
	v, err := strconv.ParseFloat(lit, 64)
	if err != nil && !math.IsInf(v, 0) {
		panic("fileh: bad number literal " + lit)
	}
	return Num{Lit: lit, Val: v}
}

type Obj struct {
	Keys []string
	Vals []interface{}
}

func (o *Obj) Get(k string) (interface{}, bool) {
	for i := range o.Keys {
		if o.Keys[i] == k {
			return o.Vals[i], true
		}
	}
	return nil, false
}

func (o *Obj) Set(k string, v interface{}) {
	for i := range o.Keys {
		if o.Keys[i] == k {
			o.Vals[i] = v
			return
		}
	}
	o.Keys = append(o.Keys, k)
	o.Vals = append(o.Vals, v)
}

// IsTimeLike: the string is what both inference and execution would read as a Time.
func IsTimeLike(s string) bool {
	if len(s) < 20 || s[4] != '-' || s[10] != 'T' {
		return false
	}
	_, err := time.Parse(time.RFC3339Nano, s)
	return err == nil
}

// ---------------------------------------------------------------------------------------------
// Serialiser. style: 0 = minimal escapes, 1 = many \uXXXX escapes and inter-token whitespace.

type JSONWriter struct {
	Rng   *rand.Rand
	Style int
}

func (w *JSONWriter) ws(b *bytes.Buffer) {
	if w.Style == 1 && w.Rng.Intn(4) == 0 {
		b.WriteString([]string{" ", "  ", "\t"}[w.Rng.Intn(3)])
	}
}

func (w *JSONWriter) Write(b *bytes.Buffer, v interface{}) {
	switch x := v.(type) {
	case nil:
		b.WriteString("null")
	case bool:
		if x {
			b.WriteString("true")
		} else {
			b.WriteString("false")
		}
	case Num:
		b.WriteString(x.Lit)
	case string:
		w.WriteString(b, x)
	case []interface{}:
		b.WriteByte('[')
		for i := range x {
			if i > 0 {
				b.WriteByte(',')
			}
			w.ws(b)
			w.Write(b, x[i])
			w.ws(b)
		}
		b.WriteByte(']')
	case *Obj:
		b.WriteByte('{')
		for i := range x.Keys {
			if i > 0 {
				b.WriteByte(',')
			}
			w.ws(b)
			w.WriteString(b, x.Keys[i])
			w.ws(b)
			b.WriteByte(':')
			w.ws(b)
			w.Write(b, x.Vals[i])
			w.ws(b)
		}
		b.WriteByte('}')
	default:
		panic(fmt.Sprintf("fileh: cannot serialise %T", v))
	}
}

func (w *JSONWriter) WriteString(b *bytes.Buffer, s string) {
	b.WriteByte('"')
	for _, r := range s {
		switch {
		case r == '"':
			b.WriteString(`\"`)
		case r == '\\':
			b.WriteString(`\\`)
		case r < 0x20:
			e := ""
			switch r {
			case '\n':
				e = `\n`
			case '\r':
				e = `\r`
			case '\t':
				e = `\t`
			case '\b':
				e = `\b`
			case '\f':
				e = `\f`
			}
			if e != "" && (w.Style == 0 || w.Rng.Intn(2) == 0) {
				b.WriteString(e)
			} else {
				w.u(b, r)
			}
		case r == '/' && w.Style == 1 && w.Rng.Intn(2) == 0:
			b.WriteString(`\/`)
		case w.Style == 1 && w.Rng.Intn(5) == 0:
			if r > 0xFFFF {
				r1, r2 := utf16.EncodeRune(r)
				w.u(b, r1)
				w.u(b, r2)
			} else {
				w.u(b, r)
			}
		default:
			var buf [4]byte
			n := utf8.EncodeRune(buf[:], r)
			b.Write(buf[:n])
		}
	}
	b.WriteByte('"')
}

func (w *JSONWriter) u(b *bytes.Buffer, r rune) {
	digits := "0123456789abcdef"
	if w.Rng.Intn(2) == 0 {
		digits = "0123456789ABCDEF"
	}
	b.WriteString(`\u`)
	b.WriteByte(digits[(r>>12)&15])
	b.WriteByte(digits[(r>>8)&15])
	b.WriteByte(digits[(r>>4)&15])
	b.WriteByte(digits[r&15])
}

// Show renders a model value for messages (Go-ish, deterministic).
func Show(v interface{}) string {
	switch x := v.(type) {
	case nil:
		return "null"
	case bool:
		return strconv.FormatBool(x)
	case Num:
		return x.Lit
	case string:
		return strconv.Quote(x)
	case []interface{}:
		parts := make([]string, len(x))
		for i := range x {
			parts[i] = Show(x[i])
		}
		return "[" + strings.Join(parts, ",") + "]"
	case *Obj:
		parts := make([]string, len(x.Keys))
		for i := range x.Keys {
			parts[i] = strconv.Quote(x.Keys[i]) + ":" + Show(x.Vals[i])
		}
		return "{" + strings.Join(parts, ",") + "}"
	}
	return fmt.Sprintf("?%T", v)
}

// ---------------------------------------------------------------------------------------------
// Scalar generators

var edgeFloats = []float64{0, math.Copysign(0, -1), 1, -1, 0.5, 0.1, 1.0 / 3, 1e-300, 1e300, 1 << 53, (1 << 53) + 2, (1 << 53) - 1,
	math.MaxFloat64, math.SmallestNonzeroFloat64, 2.2250738585072014e-308, 2.225073858507201e-308, 1e22, 1e23, 123456789012345680, 9007199254740993,
	1.72280423713692e+178, 4.35, 0.000001, 1e21, 1e-7, -2.5, 100, 1e15, 8.41e21}

// RandFloat: finite float64, heavy in edges and in shortest-form doubles with 15-17 digits.
func RandFloat(rng *rand.Rand) float64 {
	switch rng.Intn(10) {
	case 0, 1:
		return edgeFloats[rng.Intn(len(edgeFloats))]
	case 2, 3, 4:
		for i := 0; i < 100; i++ {
			f := math.Float64frombits(rng.Uint64())
			if !math.IsNaN(f) && !math.IsInf(f, 0) {
				return f
			}
		}
		return 1
	case 5:
		return float64(rng.Intn(2001) - 1000)
	case 6:
		return float64(rng.Int63n(1<<53)) * []float64{1, -1, 1e-3, 1e3, 1e-9}[rng.Intn(5)]
	case 7:
		return float64(rng.Intn(100000)) / 100
	case 8:
		return rng.NormFloat64() * math.Pow(10, float64(rng.Intn(40)-20))
	default:
		return rng.Float64()
	}
}

// FloatLit writes f in one of several valid JSON (and CSV) spellings that all denote exactly f.
func FloatLit(rng *rand.Rand, f float64) string {
	if f == 0 && math.Signbit(f) {
		return []string{"-0", "-0.0", "-0e0"}[rng.Intn(3)]
	}
	switch rng.Intn(8) {
	case 0:
		return strconv.FormatFloat(f, 'e', -1, 64)
	case 1:
		s := strconv.FormatFloat(f, 'e', -1, 64)
		return strings.Replace(s, "e", "E", 1)
	case 2:
		if a := math.Abs(f); a < 1e25 && (a > 1e-20 || a == 0) {
			return strconv.FormatFloat(f, 'f', -1, 64)
		}
	case 3:
		// more digits than necessary (still exactly f after correct rounding)
		return strconv.FormatFloat(f, 'e', 20+rng.Intn(10), 64)
	case 4:
		if a := math.Abs(f); a < 1e15 && f == math.Trunc(f) {
			return strconv.FormatFloat(f, 'f', 0, 64)
		}
	}
	return strconv.FormatFloat(f, 'g', -1, 64)
}

func RandNum(rng *rand.Rand) Num {
	f := RandFloat(rng)
	lit := FloatLit(rng, f)
	n := NumOf(lit)
	if n.Val != f && !(n.Val == 0 && f == 0) {
		panic(fmt.Sprintf("fileh: literal %s does not denote %v", lit, f))
	}
	return n
}

var strAlphabet = []string{"a", "b", "Z", "0", "7", " ", " ", ",", ";", "\"", "'", "\\", "/", "{", "}", "[", "]", ":", "\t", "\n", "\r",
	"é", "É", "ß", "日", "本", "😀", "\u2028", "\ufeff", "%", "_", "|", "\u0000", "\u0001", "\u001f", "\u007f", "\b", "\f", "\v", "ñ", "\U0001F9EA", "\u00ad"}

// strAlphabetPlain avoids what the C25 findings are about (so a CLI leg can look through -o json).
var strAlphabetPlain = []string{"a", "b", "Z", "0", "7", " ", ",", ";", "\"", "'", "\\", "/", "{", "}", "[", "]", ":", "\t", "\n", "\r",
	"é", "ß", "日", "😀", "\u2028", "%", "_", "|", "ñ"}

type StrOpts struct {
	Plain  bool // no control characters other than \t \n \r, no DEL, no unprintables
	NoCRLF bool // never "\r\n" (CSV: Go's reader normalises it)
	MaxLen int
}

func RandStr(rng *rand.Rand, o StrOpts) string {
	alpha := strAlphabet
	if o.Plain {
		alpha = strAlphabetPlain
	}
	max := o.MaxLen
	if max == 0 {
		max = 12
	}
	for try := 0; try < 50; try++ {
		n := rng.Intn(max + 1)
		if rng.Intn(400) == 0 {
			n = 200 + rng.Intn(2000)
		}
		var sb strings.Builder
		for i := 0; i < n; i++ {
			sb.WriteString(alpha[rng.Intn(len(alpha))])
		}
		s := sb.String()
		if o.NoCRLF && strings.Contains(s, "\r\n") {
			continue
		}
		if IsTimeLike(s) {
			continue
		}
		return s
	}
	return "x"
}

var zones = []*time.Location{time.UTC, time.FixedZone("", 2*3600), time.FixedZone("", -(5*3600 + 30*60)), time.FixedZone("", 14*3600)}

// RandTimeStr returns an RFC3339(Nano) string and the instant it denotes.
func RandTimeStr(rng *rand.Rand, wholeSeconds bool) (string, time.Time) {
	sec := int64(rng.Intn(4_000_000_000)) - 1_000_000_000
	nsec := int64(0)
	if !wholeSeconds && rng.Intn(2) == 0 {
		nsec = int64(rng.Intn(1_000_000_000))
		if rng.Intn(2) == 0 {
			nsec = nsec / 1_000_000 * 1_000_000
		}
	}
	t := time.Unix(sec, nsec).In(zones[rng.Intn(len(zones))])
	s := t.Format(time.RFC3339Nano)
	p, err := time.Parse(time.RFC3339Nano, s)
	if err != nil {
		panic(err)
	}
	return s, p
}

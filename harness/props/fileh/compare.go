package fileh

import (
	"fmt"
	"math"
	"strconv"
	"strings"
	"time"

	"github.com/cube2222/octosql/octosql"
)

// Diff is one discrepancy between a produced value and the ground truth.
type Diff struct {
	Path  string
	Class string // float-ulp | float | nested-null-in-union | null-for-value | value | kind | structure
	What  string
}

func (d Diff) String() string { return d.Path + ": " + d.Class + ": " + d.What }

// Path is a lazily rendered position ("row 12 .a[3].b"): comparisons push and pop segments and
// only a discrepancy pays for formatting.
type Path struct{ segs []pathSeg }

type pathSeg struct {
	kind byte // 'r' row, 'f' field, 'i' index, 'c' column
	name string
	idx  int
}

func Row(i int) *Path { return &Path{segs: []pathSeg{{kind: 'r', idx: i}}} }

func (p *Path) Field(name string) *Path { p.segs = append(p.segs, pathSeg{kind: 'f', name: name}); return p }
func (p *Path) Col(name string) *Path   { p.segs = append(p.segs, pathSeg{kind: 'c', name: name}); return p }
func (p *Path) Index(i int) *Path       { p.segs = append(p.segs, pathSeg{kind: 'i', idx: i}); return p }
func (p *Path) Pop()                    { p.segs = p.segs[:len(p.segs)-1] }

func (p *Path) String() string {
	var sb strings.Builder
	for _, s := range p.segs {
		switch s.kind {
		case 'r':
			sb.WriteString("row ")
			sb.WriteString(strconv.Itoa(s.idx))
			sb.WriteString(" ")
		case 'f':
			sb.WriteString(".")
			sb.WriteString(s.name)
		case 'c':
			sb.WriteString("col ")
			sb.WriteString(strconv.Quote(s.name))
		case 'i':
			sb.WriteString("[")
			sb.WriteString(strconv.Itoa(s.idx))
			sb.WriteString("]")
		}
	}
	return sb.String()
}

// DiffSet collects discrepancies per class, so that a frequent class (few-ULP float differences
// on the unchanged tree) cannot crowd out a discrepancy of another kind, and so that every class
// present in one file is reported under its own key.
type DiffSet struct {
	N        int
	PerClass map[string]*ClassDiffs
	order    []string
}

type ClassDiffs struct {
	N       int
	Samples []Diff
}

func (s *DiffSet) Add(d Diff) {
	if s.PerClass == nil {
		s.PerClass = map[string]*ClassDiffs{}
	}
	c := s.PerClass[d.Class]
	if c == nil {
		c = &ClassDiffs{}
		s.PerClass[d.Class] = c
		s.order = append(s.order, d.Class)
	}
	s.N++
	c.N++
	if len(c.Samples) < 4 {
		c.Samples = append(c.Samples, d)
	}
}

func (s *DiffSet) Empty() bool { return s.N == 0 }

// Classes in first-seen order.
func (s *DiffSet) Classes() []string { return s.order }

func (s *DiffSet) Count(class string) int {
	if c := s.PerClass[class]; c != nil {
		return c.N
	}
	return 0
}

// Hard is the number of discrepancies other than few-ULP float differences.
func (s *DiffSet) Hard() int { return s.N - s.Count("float-ulp") }

func (s *DiffSet) Describe(class string) string {
	c := s.PerClass[class]
	if c == nil {
		return ""
	}
	out := ""
	for _, d := range c.Samples {
		out += d.Path + ": " + d.What + "; "
	}
	if c.N > len(c.Samples) {
		out += fmt.Sprintf("(%d such discrepancies in this file)", c.N)
	}
	return out
}

// UlpDistance returns the number of representable doubles between a and b (same sign, finite),
// or -1 if not comparable that way.
func UlpDistance(a, b float64) int64 {
	if math.IsNaN(a) || math.IsNaN(b) || math.IsInf(a, 0) || math.IsInf(b, 0) {
		return -1
	}
	if a == b {
		return 0
	}
	if math.Signbit(a) != math.Signbit(b) {
		return -1
	}
	x, y := int64(math.Float64bits(math.Abs(a))), int64(math.Float64bits(math.Abs(b)))
	if x > y {
		return x - y
	}
	return y - x
}

// FloatEq: numeric equality with NaN == NaN and +0 == -0 (DESIGN §3.4).
func FloatEq(a, b float64) bool {
	return a == b || (math.IsNaN(a) && math.IsNaN(b))
}

func floatDiff(path string, got, want float64, lit string) *Diff {
	if FloatEq(got, want) {
		return nil
	}
	// anticipated defect: fastfloat.Parse computes mantissa/10^k and then multiplies by 10^exp in
	// floating point, so a literal WITH an exponent part may come out a few ULP off
	if d := UlpDistance(got, want); d >= 1 && d <= 4 && strings.ContainsAny(lit, "eE") {
		return &Diff{path, "float-ulp", fmt.Sprintf("literal %s read as %s (%d ULP off), correctly rounded value is %s", lit, strconv.FormatFloat(got, 'g', -1, 64), d, strconv.FormatFloat(want, 'g', -1, 64))}
	}
	return &Diff{path, "float", fmt.Sprintf("literal %s read as %s, correctly rounded value is %s", lit, strconv.FormatFloat(got, 'g', -1, 64), strconv.FormatFloat(want, 'g', -1, 64))}
}

func structType(t octosql.Type) *octosql.Type {
	if t.TypeID == octosql.TypeIDStruct {
		return &t
	}
	if t.TypeID == octosql.TypeIDUnion {
		for i := range t.Union.Alternatives {
			if t.Union.Alternatives[i].TypeID == octosql.TypeIDStruct {
				return &t.Union.Alternatives[i]
			}
		}
	}
	return nil
}

func listType(t octosql.Type) *octosql.Type {
	if t.TypeID == octosql.TypeIDList {
		return &t
	}
	if t.TypeID == octosql.TypeIDUnion {
		for i := range t.Union.Alternatives {
			if t.Union.Alternatives[i].TypeID == octosql.TypeIDList {
				return &t.Union.Alternatives[i]
			}
		}
	}
	return nil
}

// ShowVal renders an octosql value with own code.
func ShowVal(v octosql.Value) string {
	switch v.TypeID {
	case octosql.TypeIDNull:
		return "NULL"
	case octosql.TypeIDInt:
		return "Int(" + strconv.FormatInt(v.Int, 10) + ")"
	case octosql.TypeIDFloat:
		return "Float(" + strconv.FormatFloat(v.Float, 'g', -1, 64) + ")"
	case octosql.TypeIDBoolean:
		return "Bool(" + strconv.FormatBool(v.Boolean) + ")"
	case octosql.TypeIDString:
		s := v.Str
		if len(s) > 80 {
			s = s[:80] + "..."
		}
		return "String(" + strconv.Quote(s) + ")"
	case octosql.TypeIDTime:
		return "Time(" + v.Time.Format(time.RFC3339Nano) + ")"
	case octosql.TypeIDDuration:
		return "Duration(" + v.Duration.String() + ")"
	case octosql.TypeIDList:
		s := "["
		for i := range v.List {
			if i > 0 {
				s += ","
			}
			s += ShowVal(v.List[i])
		}
		return s + "]"
	case octosql.TypeIDStruct:
		s := "{"
		for i := range v.Struct {
			if i > 0 {
				s += ","
			}
			s += ShowVal(v.Struct[i])
		}
		return s + "}"
	case octosql.TypeIDTuple:
		s := "("
		for i := range v.Tuple {
			if i > 0 {
				s += ","
			}
			s += ShowVal(v.Tuple[i])
		}
		return s + ")"
	}
	return fmt.Sprintf("?%d", int(v.TypeID))
}

// CompareJSON compares the value octosql produced for a JSON cell with the model value m
// (present=false: the key was absent). t is the column type the datasource reported; it is used
// only to find the names of struct fields (struct values are positional).
func CompareJSON(path *Path, t octosql.Type, v octosql.Value, m interface{}, present bool, out *DiffSet) {
	add := func(class, what string) { out.Add(Diff{path.String(), class, what}) }
	if !present || m == nil {
		if v.TypeID != octosql.TypeIDNull {
			add("value", "JSON null/absent key produced "+ShowVal(v))
		}
		return
	}
	if v.TypeID == octosql.TypeIDNull {
		// anticipated defect: inside a union-typed position an array/object that contains a JSON
		// null (or lacks an optional key) anywhere is dropped as a whole
		if t.TypeID == octosql.TypeIDUnion && HasNullLike(t, m) {
			add("nested-null-in-union", "JSON value "+trunc(Show(m), 120)+" under type "+trunc(TypeText(t), 120)+" produced NULL")
			return
		}
		add("null-for-value", "JSON value "+trunc(Show(m), 120)+" produced NULL")
		return
	}
	switch x := m.(type) {
	case bool:
		if v.TypeID != octosql.TypeIDBoolean {
			add("kind", "JSON "+Show(m)+" produced "+ShowVal(v))
		} else if v.Boolean != x {
			add("value", "JSON "+Show(m)+" produced "+ShowVal(v))
		}
	case Num:
		if v.TypeID != octosql.TypeIDFloat {
			add("kind", "JSON number "+x.Lit+" produced "+ShowVal(v))
		} else if !FloatEq(v.Float, x.Val) {
			out.Add(*floatDiff(path.String(), v.Float, x.Val, x.Lit))
		}
	case string:
		switch v.TypeID {
		case octosql.TypeIDString:
			if v.Str != x {
				add("value", "JSON string "+trunc(strconv.Quote(x), 200)+" produced "+ShowVal(v)+firstByteDiff(v.Str, x))
			}
		case octosql.TypeIDTime:
			want, err := time.Parse(time.RFC3339Nano, x)
			if err != nil {
				add("kind", "JSON string "+trunc(strconv.Quote(x), 200)+" (not a time) produced "+ShowVal(v))
			} else if !want.Equal(v.Time) {
				add("value", "JSON time string "+x+" produced "+ShowVal(v))
			}
		default:
			add("kind", "JSON string "+trunc(strconv.Quote(x), 200)+" produced "+ShowVal(v))
		}
	case []interface{}:
		if v.TypeID != octosql.TypeIDList {
			add("kind", "JSON array produced "+ShowVal(v))
			return
		}
		if len(v.List) != len(x) {
			add("structure", fmt.Sprintf("JSON array of %d elements produced a list of %d", len(x), len(v.List)))
			return
		}
		lt := listType(t)
		var et octosql.Type
		if lt != nil && lt.List.Element != nil {
			et = *lt.List.Element
		} else if len(x) > 0 {
			add("structure", "non-empty list under a type without element type: "+TypeText(t))
			return
		}
		for i := range x {
			CompareJSON(path.Index(i), et, v.List[i], x[i], true, out)
			path.Pop()
		}
	case *Obj:
		if v.TypeID != octosql.TypeIDStruct {
			add("kind", "JSON object produced "+ShowVal(v))
			return
		}
		st := structType(t)
		if st == nil || len(st.Struct.Fields) != len(v.Struct) {
			add("structure", "object value with "+strconv.Itoa(len(v.Struct))+" fields under type "+TypeText(t))
			return
		}
		seen := 0
		for i, f := range st.Struct.Fields {
			mv, ok := x.Get(f.Name)
			if ok {
				seen++
			}
			CompareJSON(path.Field(f.Name), f.Type, v.Struct[i], mv, ok, out)
			path.Pop()
		}
		if seen != len(x.Keys) {
			add("structure", fmt.Sprintf("JSON object has %d keys, only %d of them are in the type %s", len(x.Keys), seen, TypeText(*st)))
		}
	default:
		add("kind", fmt.Sprintf("model %T", m))
	}
}

// HasNullLike: m is an array/object holding, at any depth, a JSON null or an object that lacks a
// field of the struct type at that position.
func HasNullLike(t octosql.Type, m interface{}) bool {
	switch x := m.(type) {
	case []interface{}:
		var et octosql.Type
		if lt := listType(t); lt != nil && lt.List.Element != nil {
			et = *lt.List.Element
		}
		for _, e := range x {
			if e == nil || HasNullLike(et, e) {
				return true
			}
		}
	case *Obj:
		for _, v := range x.Vals {
			if v == nil {
				return true
			}
		}
		if st := structType(t); st != nil {
			for _, f := range st.Struct.Fields {
				v, ok := x.Get(f.Name)
				if !ok || HasNullLike(f.Type, v) {
					return true
				}
			}
		}
	}
	return false
}

func firstByteDiff(got, want string) string {
	n := len(got)
	if len(want) < n {
		n = len(want)
	}
	for i := 0; i < n; i++ {
		if got[i] != want[i] {
			return fmt.Sprintf(" (first difference at byte %d: got %#x want %#x; lengths %d/%d)", i, got[i], want[i], len(got), len(want))
		}
	}
	return fmt.Sprintf(" (lengths %d/%d)", len(got), len(want))
}

func trunc(s string, n int) string {
	if len(s) > n {
		return s[:n] + "..."
	}
	return s
}

// ---------------------------------------------------------------------------------------------
// own matches(value, type) (C24)

func Matches(v octosql.Value, t octosql.Type) bool {
	switch t.TypeID {
	case octosql.TypeIDAny:
		return true
	case octosql.TypeIDUnion:
		for _, a := range t.Union.Alternatives {
			if Matches(v, a) {
				return true
			}
		}
		return false
	case octosql.TypeIDList:
		if v.TypeID != octosql.TypeIDList {
			return false
		}
		if t.List.Element == nil {
			return len(v.List) == 0
		}
		for i := range v.List {
			if !Matches(v.List[i], *t.List.Element) {
				return false
			}
		}
		return true
	case octosql.TypeIDStruct:
		if v.TypeID != octosql.TypeIDStruct || len(v.Struct) != len(t.Struct.Fields) {
			return false
		}
		for i := range v.Struct {
			if !Matches(v.Struct[i], t.Struct.Fields[i].Type) {
				return false
			}
		}
		return true
	case octosql.TypeIDTuple:
		if v.TypeID != octosql.TypeIDTuple || len(v.Tuple) != len(t.Tuple.Elements) {
			return false
		}
		for i := range v.Tuple {
			if !Matches(v.Tuple[i], t.Tuple.Elements[i]) {
				return false
			}
		}
		return true
	default:
		return v.TypeID == t.TypeID
	}
}

// Nullable: the type admits NULL.
func Nullable(t octosql.Type) bool { return Matches(octosql.NewNull(), t) }

// AdmitsID: some alternative of t has this scalar type id.
func AdmitsID(t octosql.Type, id octosql.TypeID) bool {
	if t.TypeID == octosql.TypeIDUnion {
		for _, a := range t.Union.Alternatives {
			if AdmitsID(a, id) {
				return true
			}
		}
		return false
	}
	return t.TypeID == id || t.TypeID == octosql.TypeIDAny
}

package fileh

import (
	"bytes"
	"fmt"
	"math"
	"math/rand"
	"strconv"
	"strings"
	"time"

	"github.com/cube2222/octosql/octosql"
)

// ---------------------------------------------------------------------------------------------
// CSV/TSV generator. Ground truth = the cell texts.

type CSVFile struct {
	Sep     byte
	Header  []string // nil: header=false
	Rows    [][]string
	Content []byte
	CRLF    bool
	NoFinal bool
}

// CellClass classifies a cell the way the documented inference does (strconv, in that order).
func CellClass(s string) string {
	if s == "" {
		return "empty"
	}
	if _, err := strconv.ParseInt(s, 10, 64); err == nil {
		return "int"
	}
	if _, err := strconv.ParseFloat(s, 64); err == nil {
		return "float"
	}
	if _, err := strconv.ParseBool(s); err == nil {
		return "bool"
	}
	if _, err := time.Parse(time.RFC3339Nano, s); err == nil {
		return "time"
	}
	return "str"
}

var edgeInts = []int64{0, 1, -1, 2, 7, 42, math.MinInt64, math.MaxInt64, 1 << 31, -(1 << 31), 1<<53 + 1, -(1<<53 + 1), 999999999999999999, 1000000000000000000, -999999999999999999}

func RandIntCell(rng *rand.Rand) string {
	switch rng.Intn(4) {
	case 0:
		return strconv.FormatInt(edgeInts[rng.Intn(len(edgeInts))], 10)
	case 1:
		return strconv.FormatInt(rng.Int63()-rng.Int63(), 10)
	case 2:
		if rng.Intn(4) == 0 {
			return "00" + strconv.Itoa(rng.Intn(1000))
		}
		return strconv.Itoa(rng.Intn(2001) - 1000)
	default:
		return strconv.Itoa(rng.Intn(100))
	}
}

func RandFloatCell(rng *rand.Rand, nonFinite bool) string {
	if nonFinite && rng.Intn(12) == 0 {
		return []string{"NaN", "Inf", "-Inf", "+Inf", "Infinity", "-Infinity", "inf", "nan"}[rng.Intn(8)]
	}
	for i := 0; i < 100; i++ {
		s := FloatLit(rng, RandFloat(rng))
		if CellClass(s) == "float" {
			return s
		}
	}
	return "0.5"
}

func RandBoolCell(rng *rand.Rand) string {
	// "1" and "0" are ints for the inference; the rest is what strconv.ParseBool takes
	return []string{"true", "false", "true", "false", "TRUE", "FALSE", "True", "False", "t", "f", "T", "F"}[rng.Intn(12)]
}

func RandStrCell(rng *rand.Rand, plain bool) string {
	for i := 0; i < 100; i++ {
		s := RandStr(rng, StrOpts{Plain: plain, NoCRLF: true})
		if rng.Intn(6) == 0 {
			s = []string{" 1", "1 ", "abc", "1,5", "12abc", "tru", "nul", "null", "NULL", "0x10", "1__0", "--1", "1e", "２"}[rng.Intn(14)]
		}
		if CellClass(s) == "str" {
			return s
		}
	}
	return "s"
}

func RandCell(rng *rand.Rand, class string, plain bool) string {
	switch class {
	case "empty":
		return ""
	case "int":
		return RandIntCell(rng)
	case "float":
		return RandFloatCell(rng, !plain)
	case "bool":
		return RandBoolCell(rng)
	case "time":
		s, _ := RandTimeStr(rng, plain)
		return s
	default:
		return RandStrCell(rng, plain)
	}
}

var csvClasses = []string{"int", "float", "bool", "time", "str"}

type CSVOpts struct {
	Sep       byte
	Header    bool
	Plain     bool
	Templates int
}

var headerPool = []string{"a", "b", "c", "id", "name", "val", "x1", "Key", "k_2", "col d", "日", "h\"q", "with,comma", "t", "n", "m"}
var headerPoolPlain = []string{"a", "b", "c", "id", "name", "val", "x1", "Key", "k_2", "t", "n", "m"}

func GenCSVFile(rng *rand.Rand, nRows int, o CSVOpts) *CSVFile {
	nCols := 1 + rng.Intn(6)
	f := &CSVFile{Sep: o.Sep, CRLF: rng.Intn(5) == 0, NoFinal: rng.Intn(4) == 0}
	if o.Header {
		pool := headerPool
		if o.Plain {
			pool = headerPoolPlain
		}
		perm := rng.Perm(len(pool))
		for i := 0; i < nCols; i++ {
			f.Header = append(f.Header, pool[perm[i]])
		}
	}
	// column plan: a set of classes per column
	plans := make([][]string, nCols)
	for c := range plans {
		switch rng.Intn(8) {
		case 0: // mixed
			n := 2 + rng.Intn(3)
			for i := 0; i < n; i++ {
				plans[c] = append(plans[c], csvClasses[rng.Intn(len(csvClasses))])
			}
		case 1: // int then float
			plans[c] = []string{"int", "float"}
		default:
			plans[c] = []string{csvClasses[rng.Intn(len(csvClasses))]}
		}
		if rng.Intn(3) == 0 {
			plans[c] = append(plans[c], "empty")
		}
		if rng.Intn(25) == 0 {
			plans[c] = []string{"empty"}
		}
	}
	T := o.Templates
	if T == 0 {
		T = 40
	}
	if T > 100 {
		T = 100
	}
	for i := 0; i < nRows; i++ {
		row := make([]string, nCols)
		for c := range row {
			class := ""
			if i < T {
				class = plans[c][rng.Intn(len(plans[c]))]
			} else {
				class = CellClass(f.Rows[rng.Intn(T)][c])
			}
			row[c] = RandCell(rng, class, o.Plain)
		}
		f.Rows = append(f.Rows, row)
	}
	f.Content = SerialiseCSV(rng, f)
	return f
}

func SerialiseCSV(rng *rand.Rand, f *CSVFile) []byte {
	var b bytes.Buffer
	eol := "\n"
	if f.CRLF {
		eol = "\r\n"
	}
	writeRec := func(rec []string, last bool) {
		for i, cell := range rec {
			if i > 0 {
				b.WriteByte(f.Sep)
			}
			need := strings.IndexByte(cell, f.Sep) >= 0 || strings.ContainsAny(cell, "\"\r\n") || (cell == "" && len(rec) == 1)
			if need || rng.Intn(7) == 0 {
				b.WriteByte('"')
				b.WriteString(strings.ReplaceAll(cell, `"`, `""`))
				b.WriteByte('"')
			} else {
				b.WriteString(cell)
			}
		}
		if !(last && f.NoFinal) {
			b.WriteString(eol)
		}
	}
	if f.Header != nil {
		writeRec(f.Header, len(f.Rows) == 0)
	}
	for i, r := range f.Rows {
		writeRec(r, i == len(f.Rows)-1)
	}
	return b.Bytes()
}

// CompareCSV: the value produced for a cell must be one of the readings of the cell text that the
// reported column type admits (Int / Float / Boolean / Time by strconv and time.Parse, String as
// the text itself); an empty cell is NULL. unrepresentable=true is returned when the type admits
// no reading at all (C24's subject; C23 generators do not produce such cells).
func CompareCSV(path *Path, t octosql.Type, v octosql.Value, cell string, out *DiffSet) (unrepresentable bool) {
	add := func(class, what string) { out.Add(Diff{path.String(), class, what}) }
	if cell == "" {
		if v.TypeID != octosql.TypeIDNull {
			add("value", "empty cell produced "+ShowVal(v))
		}
		return false
	}
	readings := 0
	if i, err := strconv.ParseInt(cell, 10, 64); err == nil && AdmitsID(t, octosql.TypeIDInt) {
		readings++
		if v.TypeID == octosql.TypeIDInt {
			if v.Int != i {
				add("value", fmt.Sprintf("cell %q produced %s", cell, ShowVal(v)))
			}
			return false
		}
	}
	if f, err := strconv.ParseFloat(cell, 64); (err == nil || math.IsInf(f, 0)) && AdmitsID(t, octosql.TypeIDFloat) {
		readings++
		if v.TypeID == octosql.TypeIDFloat {
			if !FloatEq(v.Float, f) {
				out.Add(*floatDiff(path.String(), v.Float, f, cell))
			}
			return false
		}
	}
	if bv, err := strconv.ParseBool(cell); err == nil && AdmitsID(t, octosql.TypeIDBoolean) {
		readings++
		if v.TypeID == octosql.TypeIDBoolean {
			if v.Boolean != bv {
				add("value", fmt.Sprintf("cell %q produced %s", cell, ShowVal(v)))
			}
			return false
		}
	}
	if tv, err := time.Parse(time.RFC3339Nano, cell); err == nil && AdmitsID(t, octosql.TypeIDTime) {
		readings++
		if v.TypeID == octosql.TypeIDTime {
			if !v.Time.Equal(tv) {
				add("value", fmt.Sprintf("cell %q produced %s", cell, ShowVal(v)))
			}
			return false
		}
	}
	if AdmitsID(t, octosql.TypeIDString) {
		readings++
		if v.TypeID == octosql.TypeIDString {
			if v.Str != cell {
				add("value", fmt.Sprintf("cell %s produced %s%s", trunc(strconv.Quote(cell), 200), ShowVal(v), firstByteDiff(v.Str, cell)))
			}
			return false
		}
	}
	if readings == 0 {
		return true
	}
	add("kind", fmt.Sprintf("cell %s under column type %s produced %s", trunc(strconv.Quote(cell), 200), TypeText(t), ShowVal(v)))
	return false
}

package fileh

import (
	"encoding/json"
	"os"

	"github.com/cube2222/octosql/plugins/verifharness/core"
)

// ApplyReplay makes `--replay <file>` re-execute exactly the case the replay file names: case ids
// are a function of (seed, tier, index), so seed and tier are taken from the file and the driver
// then runs only that id (as with --only).
func ApplyReplay(c *core.Ctx) {
	if c.Replay == "" {
		return
	}
	data, err := os.ReadFile(c.Replay)
	if err != nil {
		return
	}
	var r struct {
		Tier string `json:"tier"`
		Seed int64  `json:"seed"`
		Case struct {
			ID string `json:"id"`
		} `json:"case"`
	}
	if json.Unmarshal(data, &r) != nil || r.Case.ID == "" {
		return
	}
	c.Seed = r.Seed
	if r.Tier == "quick" || r.Tier == "thorough" {
		c.Tier = r.Tier
	}
	c.Only = r.Case.ID
}

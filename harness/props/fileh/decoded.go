package fileh

import (
	"encoding/json"
	"fmt"
	"math"
	"strconv"
	"strings"
	"time"
)

// Comparison of what `-o json` printed (decoded strictly with UseNumber by cli.DecodeJSONLines)
// against the ground truth of an input file. These legs use "plain" generators, i.e. no value the
// C25 findings are about (control characters, non-finite floats, sub-second times), so that the
// formatter is transparent: floats are printed in shortest round-trip form, so the exact
// comparison of the datasource's float parsing still applies.

func numEq(path string, d json.Number, want float64, lit string, out *DiffSet) {
	got, err := strconv.ParseFloat(string(d), 64)
	if err != nil {
		out.Add(Diff{path, "value", fmt.Sprintf("printed number %q does not parse", string(d))})
		return
	}
	if df := floatDiff(path, got, want, lit); df != nil {
		out.Add(*df)
	}
}

func strEq(path string, got, want string, out *DiffSet) {
	if got == want {
		return
	}
	// a Time column prints its value re-formatted (RFC3339): same instant is the same value
	if a, err := time.Parse(time.RFC3339Nano, got); err == nil {
		if b, err := time.Parse(time.RFC3339Nano, want); err == nil && a.Equal(b) {
			return
		}
	}
	out.Add(Diff{path, "value", fmt.Sprintf("string %s printed as %s%s", trunc(strconv.Quote(want), 200), trunc(strconv.Quote(got), 200), firstByteDiff(got, want))})
}

// CompareDecodedJSON: decoded output value vs model value of a JSON input file.
func CompareDecodedJSON(path string, d interface{}, m interface{}, present bool, out *DiffSet) {
	add := func(class, what string) { out.Add(Diff{path, class, what}) }
	if !present || m == nil {
		if d != nil {
			add("value", fmt.Sprintf("JSON null/absent key printed as %v", d))
		}
		return
	}
	if d == nil {
		add("null-for-value", "JSON value "+trunc(Show(m), 120)+" printed as null")
		return
	}
	switch x := m.(type) {
	case bool:
		if b, ok := d.(bool); !ok || b != x {
			add("value", fmt.Sprintf("JSON %v printed as %v", x, d))
		}
	case Num:
		n, ok := d.(json.Number)
		if !ok {
			add("kind", fmt.Sprintf("JSON number %s printed as %T %v", x.Lit, d, d))
			return
		}
		numEq(path, n, x.Val, x.Lit, out)
	case string:
		s, ok := d.(string)
		if !ok {
			add("kind", fmt.Sprintf("JSON string %s printed as %T %v", trunc(strconv.Quote(x), 100), d, d))
			return
		}
		strEq(path, s, x, out)
	case []interface{}:
		l, ok := d.([]interface{})
		if !ok {
			add("kind", fmt.Sprintf("JSON array printed as %T", d))
			return
		}
		if len(l) != len(x) {
			add("structure", fmt.Sprintf("JSON array of %d elements printed with %d", len(x), len(l)))
			return
		}
		for i := range x {
			CompareDecodedJSON(fmt.Sprintf("%s[%d]", path, i), l[i], x[i], true, out)
		}
	case *Obj:
		o, ok := d.(map[string]interface{})
		if !ok {
			add("kind", fmt.Sprintf("JSON object printed as %T", d))
			return
		}
		for _, k := range x.Keys {
			if _, ok := o[k]; !ok {
				add("structure", fmt.Sprintf("key %q of the JSON object is not printed", k))
			}
		}
		for k, dv := range o {
			mv, ok := x.Get(k)
			CompareDecodedJSON(path+"."+k, dv, mv, ok, out)
		}
	}
}

// CompareDecodedCell: decoded output value vs the text of a CSV cell (or a lines text).
func CompareDecodedCell(path string, d interface{}, cell string, out *DiffSet) {
	add := func(class, what string) { out.Add(Diff{path, class, what}) }
	if cell == "" {
		if d != nil {
			add("value", fmt.Sprintf("empty cell printed as %v", d))
		}
		return
	}
	switch x := d.(type) {
	case nil:
		add("null-for-value", fmt.Sprintf("cell %s printed as null", trunc(strconv.Quote(cell), 100)))
	case json.Number:
		if !strings.ContainsAny(string(x), ".eEN") {
			if want, err := strconv.ParseInt(cell, 10, 64); err == nil {
				if got, err := strconv.ParseInt(string(x), 10, 64); err != nil || got != want {
					add("value", fmt.Sprintf("cell %q printed as %s", cell, x))
				}
				return
			}
		}
		want, err := strconv.ParseFloat(cell, 64)
		if err != nil && !math.IsInf(want, 0) {
			add("kind", fmt.Sprintf("cell %s printed as number %s", trunc(strconv.Quote(cell), 100), x))
			return
		}
		numEq(path, x, want, cell, out)
	case bool:
		if want, err := strconv.ParseBool(cell); err != nil || want != x {
			add("value", fmt.Sprintf("cell %s printed as %v", trunc(strconv.Quote(cell), 100), x))
		}
	case string:
		strEq(path, x, cell, out)
	default:
		add("kind", fmt.Sprintf("cell %s printed as %T", trunc(strconv.Quote(cell), 100), d))
	}
}

package fileh

import (
	"encoding/json"
	"fmt"
	"math"
	"sort"
	"strconv"
	"strings"
	"time"

	"github.com/cube2222/octosql/octosql"
)

// Comparison of what `-o json` printed (decoded strictly with UseNumber by cli.DecodeJSONLines)
// against the ground truth of an input file. These legs use "plain" generators, i.e. no value the
// C25 findings are about (control characters, non-finite floats, sub-second times), so that the
// formatter is transparent: floats are printed in shortest round-trip form, so the exact
// comparison of the datasource's float parsing still applies.

func numEq(path *Path, d json.Number, want float64, lit string, out *DiffSet) {
	got, err := strconv.ParseFloat(string(d), 64)
	if err != nil {
		out.Add(Diff{path.String(), "value", fmt.Sprintf("printed number %q does not parse", string(d))})
		return
	}
	if !FloatEq(got, want) {
		out.Add(*floatDiff(path.String(), got, want, lit))
	}
}

func strEq(path *Path, got, want string, out *DiffSet) {
	if got == want {
		return
	}
	// a Time column prints its value re-formatted (RFC3339): same instant is the same value
	if a, err := time.Parse(time.RFC3339Nano, got); err == nil {
		if b, err := time.Parse(time.RFC3339Nano, want); err == nil && a.Equal(b) {
			return
		}
	}
	out.Add(Diff{path.String(), "value", fmt.Sprintf("string %s printed as %s%s", trunc(strconv.Quote(want), 200), trunc(strconv.Quote(got), 200), firstByteDiff(got, want))})
}

// CompareDecodedJSON: decoded output value vs model value of a JSON input file. t, if non-nil,
// is the column type `--describe` reported (parsed by ParseTypeString); it only serves to
// attribute the anticipated nested-null-in-union defect.
func CompareDecodedJSON(path *Path, t *octosql.Type, d interface{}, m interface{}, present bool, out *DiffSet) {
	add := func(class, what string) { out.Add(Diff{path.String(), class, what}) }
	if !present || m == nil {
		if d != nil {
			add("value", fmt.Sprintf("JSON null/absent key printed as %v", d))
		}
		return
	}
	if d == nil {
		if t != nil && t.TypeID == octosql.TypeIDUnion && HasNullLike(*t, m) {
			add("nested-null-in-union", "JSON value "+trunc(Show(m), 120)+" under type "+trunc(TypeText(*t), 120)+" printed as null")
			return
		}
		add("null-for-value", "JSON value "+trunc(Show(m), 120)+" printed as null")
		return
	}
	switch x := m.(type) {
	case bool:
		if b, ok := d.(bool); !ok || b != x {
			add("value", fmt.Sprintf("JSON %v printed as %v", x, d))
		}
	case Num:
		n, ok := d.(json.Number)
		if !ok {
			add("kind", fmt.Sprintf("JSON number %s printed as %T %v", x.Lit, d, d))
			return
		}
		numEq(path, n, x.Val, x.Lit, out)
	case string:
		s, ok := d.(string)
		if !ok {
			add("kind", fmt.Sprintf("JSON string %s printed as %T %v", trunc(strconv.Quote(x), 100), d, d))
			return
		}
		strEq(path, s, x, out)
	case []interface{}:
		l, ok := d.([]interface{})
		if !ok {
			add("kind", fmt.Sprintf("JSON array printed as %T", d))
			return
		}
		if len(l) != len(x) {
			add("structure", fmt.Sprintf("JSON array of %d elements printed with %d", len(x), len(l)))
			return
		}
		var et *octosql.Type
		if t != nil {
			if lt := listType(*t); lt != nil {
				et = lt.List.Element
			}
		}
		for i := range x {
			CompareDecodedJSON(path.Index(i), et, l[i], x[i], true, out)
			path.Pop()
		}
	case *Obj:
		o, ok := d.(map[string]interface{})
		if !ok {
			add("kind", fmt.Sprintf("JSON object printed as %T", d))
			return
		}
		for _, k := range x.Keys {
			if _, ok := o[k]; !ok {
				add("structure", fmt.Sprintf("key %q of the JSON object is not printed", k))
			}
		}
		keys := make([]string, 0, len(o))
		for k := range o {
			keys = append(keys, k)
		}
		sort.Strings(keys)
		for _, k := range keys {
			mv, ok := x.Get(k)
			var ft *octosql.Type
			if t != nil {
				if st := structType(*t); st != nil {
					for i := range st.Struct.Fields {
						if st.Struct.Fields[i].Name == k {
							ft = &st.Struct.Fields[i].Type
						}
					}
				}
			}
			CompareDecodedJSON(path.Field(k), ft, o[k], mv, ok, out)
			path.Pop()
		}
	}
}

// CompareDecodedCell: decoded output value vs the text of a CSV cell (or a lines text).
func CompareDecodedCell(path *Path, d interface{}, cell string, out *DiffSet) {
	add := func(class, what string) { out.Add(Diff{path.String(), class, what}) }
	if cell == "" {
		if d != nil {
			add("value", fmt.Sprintf("empty cell printed as %v", d))
		}
		return
	}
	switch x := d.(type) {
	case nil:
		add("null-for-value", fmt.Sprintf("cell %s printed as null", trunc(strconv.Quote(cell), 100)))
	case json.Number:
		if !strings.ContainsAny(string(x), ".eEN") {
			if want, err := strconv.ParseInt(cell, 10, 64); err == nil {
				if got, err := strconv.ParseInt(string(x), 10, 64); err != nil || got != want {
					add("value", fmt.Sprintf("cell %q printed as %s", cell, x))
				}
				return
			}
		}
		want, err := strconv.ParseFloat(cell, 64)
		if err != nil && !math.IsInf(want, 0) {
			add("kind", fmt.Sprintf("cell %s printed as number %s", trunc(strconv.Quote(cell), 100), x))
			return
		}
		numEq(path, x, want, cell, out)
	case bool:
		if want, err := strconv.ParseBool(cell); err != nil || want != x {
			add("value", fmt.Sprintf("cell %s printed as %v", trunc(strconv.Quote(cell), 100), x))
		}
	case string:
		strEq(path, x, cell, out)
	default:
		add("kind", fmt.Sprintf("cell %s printed as %T", trunc(strconv.Quote(cell), 100), d))
	}
}

// Package c18: watermarks never go backwards and operators do not create late data; event-time
// buffers release correctly.
//
// R (refutation): a forwarded watermark smaller than an earlier one; given inputs without late
// records, an output record with a non-zero event time at or below a watermark the node has
// already forwarded; for RecordEventTimeBuffer / EventTimeBuffer a record released late, early,
// altered or out of (stable) event-time order; for the record-wise nodes (filter, map, unnest,
// lookup join, limit, tumble) an output whose event time differs from its input record's, or a
// watermark that is not forwarded as received.
// O: nodeh.WatermarkMonotone / nodeh.NoLateOutput over the recording; an exact reference for the
// buffers (stable sort by event time, release set at each watermark, the rest at end of stream).
// W: every node kind of C15 plus EventTimeBuffer, Limit, tumble, max_diff_watermark and pipelines
// of 2-3 nodes planned from SQL (join -> group-by, tumble -> group-by, group-by -> join), over
// generated watermarked changelogs (monotone watermarks, no late record, zero and non-zero event
// times, the same instant in different time.Locations). Joins run on free random schedules
// (every verdict is schedule-independent); the lookup join's right side is never watermarked.
package c18

import (
	"fmt"
	"math/rand"
	"os"
	"runtime/debug"
	"strings"
	"time"

	"github.com/cube2222/octosql/execution"
	"github.com/cube2222/octosql/octosql"

	"github.com/cube2222/octosql/plugins/verifharness/core"
	"github.com/cube2222/octosql/plugins/verifharness/nodeh"
	"github.com/cube2222/octosql/plugins/verifharness/props/chlog"
)

func init() { core.Register("C18", Run) }

const bufferAPIKind = "record_event_time_buffer(api)"

func Run(c *core.Ctx) core.FinishOpts {
	chlog.SilenceLiveWriter()
	// every join allocates two 10 000-slot channels (2 MB): collect less often
	debug.SetGCPercent(400)
	n := c.Pick(200, 10000)
	only := chlog.OnlyID(c.Only, c.Replay)
	selftest := os.Getenv("VERIF_SELFTEST") == "1"
	kinds := 0
	for _, k := range chlog.Kinds() {
		if only != "" && chlog.KindOfID(only) != k.Name {
			continue
		}
		kinds++
		k := k
		workers := 16
		core.Parallel(n, workers, func(i int) {
			id := fmt.Sprintf("%s#%d", k.Name, i)
			if only != "" && id != only {
				return
			}
			cs := k.Gen(c.Rng("case/"+id), id)
			judge(c, cs, int64(i), selftest && i%40 == 7)
		})
	}
	if only == "" || chlog.KindOfID(only) == bufferAPIKind {
		kinds++
		nb := c.Pick(2000, 100000)
		core.Parallel(nb, 16, func(i int) {
			id := fmt.Sprintf("%s#%d", bufferAPIKind, i)
			if only != "" && id != only {
				return
			}
			judgeBufferAPI(c, c.Rng("case/"+id), id, selftest && i%40 == 7)
		})
	}
	c.Note("node_kinds_and_pipelines", kinds)
	c.Note("cases_per_kind", n)
	return core.FinishOpts{
		Level: "exploration",
		Rule: "per node kind / pipeline, seeded random watermarked changelogs (monotone watermarks, no late record, zero event times only before the first watermark); " +
			"non-trivial = the inputs hold >= 1 watermark and >= 2 records with a non-zero event time and the node forwarded a watermark or emitted a record with a non-zero event time; " +
			"distinct by (kind, variant, input scripts); the buffer API cases are distinct by their operation sequence",
		Floor: c.Pick(2500, 100000),
		Assumptions: []string{
			"a zero event time means 'no event time' and is never late (DESIGN §3.4); zero-time records are only generated before a stream's first watermark",
			"join schedules are free-running; verdicts (monotone watermarks, no late output) do not depend on the schedule; controlled schedules are C19's",
			"the lookup join's right side carries no watermarks (README: it cannot be watermarked)",
			"exact watermark values of max_diff_watermark and window bounds of tumble are C20's/C21's subject; here only monotonicity/lateness/pass-through",
		},
	}
}

func judge(c *core.Ctx, cs *chlog.Case, jitter int64, corrupt bool) {
	c.Eval(1)
	replay := cs.Describe()
	kind := cs.Kind
	if kind != "sql/max_diff_watermark" {
		for i, in := range cs.Inputs {
			if bad := chlog.ValidHistory(in); bad != "" {
				c.Violation("harness:generator-invalid-script", fmt.Sprintf("input %d: %s", i, bad), replay)
				return
			}
		}
	}
	if cs.Meta.TwoInput || cs.Meta.Foreign {
		chlog.Enter(c, cs.ID)
	}
	ex := cs.Run(jitter)
	if cs.Meta.TwoInput || cs.Meta.Foreign {
		chlog.Leave(cs.ID)
	}
	outs := ex.Outs
	replay["output"] = nodeh.OutsString(outs)
	c.Count(kind+"/cases", 1)
	switch {
	case ex.PlanErr != nil:
		c.Violation("harness:plan-error", ex.PlanErr.Error(), replay)
		return
	case ex.Res.TimedOut:
		c.Inconclusive("watchdog")
		return
	case ex.Res.Panicked:
		c.Violation("panic:"+core.PanicSite(ex.Res.Stack), kind+" panicked: "+ex.Res.PanicMsg, replay)
		return
	case ex.Res.Err != nil:
		c.Violation("error:"+kind, "node returned an error on a valid stream: "+ex.Res.Err.Error(), replay)
		return
	}
	if corrupt {
		outs = corruptRecording(cs, outs, jitter)
		replay["selftest_corrupted_output"] = nodeh.OutsString(outs)
	}

	// (1) forwarded watermarks never go backwards
	if bad := nodeh.WatermarkMonotone(outs); bad >= 0 {
		c.Violation("watermark-backwards:"+kind, fmt.Sprintf("%s: forwarded watermark #%d (%s) is below an earlier one", kind, bad, nodeh.FmtTime(outs[bad].Watermark)), replay)
	}

	// (2) no output record with a non-zero event time at or below an already forwarded watermark
	first := nodeh.NoLateOutput(outs)
	late := lateOutputs(outs)
	if (first >= 0) != (len(late) > 0) || (first >= 0 && late[0].idx != first) {
		c.Violation("harness:late-monitors-disagree", "nodeh.NoLateOutput and the classifying scan disagree", replay)
	}
	reported := map[string]bool{}
	for _, l := range late {
		key := classifyLate(cs, outs, l.idx)
		if reported[key] {
			continue
		}
		reported[key] = true
		c.Violation(key, fmt.Sprintf("%s [%s]: output #%d %s has event time <= the watermark %s forwarded before it",
			kind, cs.Variant, l.idx, outs[l.idx].String(), nodeh.FmtTime(l.wm)), replay)
	}
	c.Count(kind+"/late_outputs", len(late))

	// (3) exact reference for the event-time buffer
	if cs.Meta.Buffer {
		want := bufferReference(cs.Inputs[0])
		if what := sameSequence(outs, want); what != "" {
			c.Violation("buffer-release-mismatch", "EventTimeBuffer: "+what+"; expected "+nodeh.OutsString(want), replay)
		}
	}

	// (4) record-wise nodes: event times and watermarks pass through; (5) Limit: exact prefix
	if cs.Meta.RecordWise && len(cs.Inputs) == 1 {
		if what := passThrough(cs, outs); what != "" {
			c.Violation("event-time-or-watermark-changed:"+kind, kind+" ["+cs.Variant+"]: "+what, replay)
		}
	}
	if cs.Meta.LimitN > 0 {
		if what := limitPrefix(cs.Inputs[0], outs, cs.Meta.LimitN); what != "" {
			c.Violation("limit-not-a-prefix", "Limit: "+what, replay)
		}
	}

	// coverage
	wmIn, nzIn, recs := 0, 0, 0
	for _, evs := range cs.Inputs {
		for _, e := range evs {
			switch {
			case e.IsWatermark:
				wmIn++
			default:
				recs++
				if !e.Record.EventTime.IsZero() {
					nzIn++
				}
			}
		}
	}
	wmOut, nzOut, zOut, endOut := 0, 0, 0, 0
	for _, o := range outs {
		switch {
		case o.IsWatermark:
			wmOut++
		case o.Record.EventTime.IsZero():
			zOut++
		default:
			nzOut++
		}
		if !o.IsWatermark && len(cs.Inputs) == 1 && o.Step == len(cs.Inputs[0]) {
			endOut++
		}
	}
	c.Count(kind+"/in_watermarks", wmIn)
	c.Count(kind+"/in_records", recs)
	c.Count(kind+"/out_watermarks", wmOut)
	c.Count(kind+"/out_records_nonzero_time", nzOut)
	c.Count(kind+"/out_records_zero_time", zOut)
	c.Count(kind+"/out_records_at_end_of_stream", endOut)
	if wmIn > 0 && wmOut == 0 {
		c.Count(kind+"/cases_swallowing_all_watermarks(not judged)", 1)
	}
	if wmIn >= 1 && nzIn >= 2 && (wmOut >= 1 || nzOut >= 1) {
		var sb strings.Builder
		sb.WriteString(kind + "|" + cs.Variant)
		for _, evs := range cs.Inputs {
			sb.WriteString("|" + nodeh.EventsString(evs))
		}
		for _, r := range cs.Static {
			sb.WriteString("|" + nodeh.RowKey(r))
		}
		c.Nontrivial(sb.String())
		c.Count(kind+"/nontrivial", 1)
	}
	if jitter == 0 && chlog.SampledKinds[kind] {
		c.Sample(chlog.Truncated(replay, 1500))
	}
}

type lateOut struct {
	idx int
	wm  time.Time
}

// lateOutputs lists every output record with a non-zero event time <= the highest watermark
// forwarded before it.
func lateOutputs(outs []nodeh.Out) []lateOut {
	var res []lateOut
	var last time.Time
	seen := false
	for i, o := range outs {
		if o.IsWatermark {
			if !seen || o.Watermark.After(last) {
				last, seen = o.Watermark, true
			}
			continue
		}
		if seen && !o.Record.EventTime.IsZero() && !o.Record.EventTime.After(last) {
			res = append(res, lateOut{i, last})
		}
	}
	return res
}

func isNull(v octosql.Value) bool { return v.TypeID == octosql.TypeIDNull }

// classifyLate names the finding a late output belongs to, from the node kind/configuration (the
// INPUT of the case) and the emission path of the late record (symptom). Anything that is not one
// of the recorded emission paths gets a descriptive key of its own and is reported.
func classifyLate(cs *chlog.Case, outs []nodeh.Out, idx int) string {
	o := outs[idx]
	// OuterJoin: compensation records for NULL-padded rows (the retraction of a padded row when a
	// partner arrives, the re-padding after the last partner is retracted) carry the ORIGINAL
	// record's event time.
	if cs.Meta.Outer != "" && len(o.Record.Values) == cs.Meta.LCols+cs.Meta.RCols {
		leftPadded := isNull(o.Record.Values[0])
		rightPadded := isNull(o.Record.Values[cs.Meta.LCols])
		if leftPadded || rightPadded {
			return "outerjoin-late-compensation"
		}
	}
	// CustomTriggerGroupBy keyed by the time field stamps what it emits with the KEY's time.
	if cs.Meta.CTGB && cs.Meta.KeyTimeIdx >= 0 && cs.Meta.KeyTimeIdx < len(o.Record.Values) &&
		o.Record.Values[cs.Meta.KeyTimeIdx].TypeID == octosql.TypeIDTime && o.Record.Values[cs.Meta.KeyTimeIdx].Time.Equal(o.Record.EventTime) {
		spec := chlog.TriggerSpec(strings.Split(cs.Meta.Trigger, "+"))
		if cs.Meta.Pipeline == "join>group_by" {
			// (a) over a join: the join's records carry max(left time, right time) but its time field
			// is the left one's, so the key's time can lie below the record's event time and below
			// watermarks already forwarded - on every emission path (not told apart here: the join's
			// schedule decides what the group-by sees, only the final output is observed).
			return "groupby-over-join-key-time-stamp"
		}
		// (b) the end-of-stream flush of a counting or end-of-stream trigger (re-)emits keys however
		// long ago the watermark passed them. Single input: emitted after the last input event.
		if (spec.Has("counting") || spec.Has("eos")) && len(cs.Inputs) == 1 && o.Step == len(cs.Inputs[0]) {
			return "ctgb-end-of-stream-flush-key-time"
		}
	}
	// group-by -> join: when the upstream group-by ALONE (same input script) already emits the key
	// of this record late in its end-of-stream flush, the join was handed late input and is not to
	// blame; the record is attributed to the group-by's finding.
	if cs.Inner != nil && len(o.Record.Values) >= 2 {
		for _, k := range innerLateKeys(cs.Inner) {
			if k == nodeh.RowKey(o.Record.Values[:2]) {
				return "ctgb-end-of-stream-flush-key-time"
			}
		}
	}
	return "late-output:" + cs.Kind
}

// innerLateKeys runs the upstream stage of a pipeline on its own and returns the (t,k) keys of the
// records it emits late in its end-of-stream flush (and only those: anything else it emits late
// is not a recorded emission path).
func innerLateKeys(inner *chlog.Case) []string {
	ex := inner.Run(0)
	if ex.PlanErr != nil || ex.Res.Panicked || ex.Res.TimedOut || ex.Res.Err != nil {
		return nil
	}
	var keys []string
	for _, l := range lateOutputs(ex.Outs) {
		if classifyLate(inner, ex.Outs, l.idx) == "ctgb-end-of-stream-flush-key-time" {
			keys = append(keys, nodeh.RowKey(ex.Outs[l.idx].Record.Values[:2]))
		}
	}
	return keys
}

// bufferReference: zero-time records pass immediately; the others are held and released, in
// stable event-time order, by the first watermark at or above their event time (before that
// watermark is forwarded), the rest at end of stream; records unchanged.
func bufferReference(evs []nodeh.Event) []nodeh.Out {
	var held []nodeh.Event
	var want []nodeh.Out
	release := func(upTo *time.Time, step int) {
		// stable selection sort by event time over the held records that are due
		for {
			best := -1
			for i, h := range held {
				if upTo != nil && h.Record.EventTime.After(*upTo) {
					continue
				}
				if best < 0 || h.Record.EventTime.Before(held[best].Record.EventTime) {
					best = i
				}
			}
			if best < 0 {
				return
			}
			want = append(want, nodeh.Out{Step: step, Record: held[best].Record})
			held = append(held[:best], held[best+1:]...)
		}
	}
	for i, e := range evs {
		switch {
		case e.IsWatermark:
			w := e.Watermark
			release(&w, i)
			want = append(want, nodeh.Out{Step: i, IsWatermark: true, Watermark: w})
		case e.Record.EventTime.IsZero():
			want = append(want, nodeh.Out{Step: i, Record: e.Record})
		default:
			held = append(held, e)
		}
	}
	release(nil, len(evs))
	return want
}

func sameOut(a, b nodeh.Out) bool {
	if a.IsWatermark != b.IsWatermark || a.Step != b.Step {
		return false
	}
	if a.IsWatermark {
		return a.Watermark.Equal(b.Watermark)
	}
	return a.Record.Retraction == b.Record.Retraction && a.Record.EventTime.Equal(b.Record.EventTime) &&
		nodeh.RowKey(a.Record.Values) == nodeh.RowKey(b.Record.Values)
}

func sameSequence(got, want []nodeh.Out) string {
	for i := 0; i < len(got) && i < len(want); i++ {
		if !sameOut(got[i], want[i]) {
			return fmt.Sprintf("output #%d is %s, expected %s", i, got[i], want[i])
		}
	}
	if len(got) != len(want) {
		return fmt.Sprintf("%d outputs, expected %d", len(got), len(want))
	}
	return ""
}

// passThrough: a record-wise node emits, while it processes input record i, only records carrying
// input record i's event time, and forwards exactly the watermarks it receives (a Limit node: a
// prefix of them).
func passThrough(cs *chlog.Case, outs []nodeh.Out) string {
	evs := cs.Inputs[0]
	var wmIn []time.Time
	for _, e := range evs {
		if e.IsWatermark {
			wmIn = append(wmIn, e.Watermark)
		}
	}
	nw := 0
	for i, o := range outs {
		if o.IsWatermark {
			if nw >= len(wmIn) || !wmIn[nw].Equal(o.Watermark) {
				return fmt.Sprintf("forwarded watermark #%d (%s) is not the received one", nw, nodeh.FmtTime(o.Watermark))
			}
			nw++
			continue
		}
		if o.Step >= len(evs) || evs[o.Step].IsWatermark {
			return fmt.Sprintf("output #%d %s is not emitted while processing an input record", i, o)
		}
		if !evs[o.Step].Record.EventTime.Equal(o.Record.EventTime) {
			return fmt.Sprintf("output #%d %s carries another event time than its input record %s", i, o, evs[o.Step])
		}
	}
	if cs.Meta.LimitN == 0 && nw != len(wmIn) {
		return fmt.Sprintf("%d watermarks received, %d forwarded", len(wmIn), nw)
	}
	return ""
}

func limitPrefix(evs []nodeh.Event, outs []nodeh.Out, n int) string {
	var want []nodeh.Out
	cnt := 0
	for i, e := range evs {
		if e.IsWatermark {
			want = append(want, nodeh.Out{Step: i, IsWatermark: true, Watermark: e.Watermark})
			continue
		}
		want = append(want, nodeh.Out{Step: i, Record: e.Record})
		cnt++
		if cnt == n {
			break
		}
	}
	return sameSequence(outs, want)
}

// corruptRecording (VERIF_SELFTEST=1): deliberately wrong recordings the oracle must reject.
func corruptRecording(cs *chlog.Case, outs []nodeh.Out, variant int64) []nodeh.Out {
	cp := append([]nodeh.Out{}, outs...)
	var lastWM *nodeh.Out
	for i := range cp {
		if cp[i].IsWatermark {
			lastWM = &cp[i]
		}
	}
	if lastWM == nil {
		// no watermark forwarded: invent one and a record below it
		w := chlog.TS(5)
		cp = append(cp, nodeh.Out{IsWatermark: true, Watermark: w, Step: 1 << 20})
		return append(cp, nodeh.Out{Record: nodeh.Rec([]octosql.Value{octosql.NewString("ghost")}, false, chlog.TS(4)).Record, Step: 1 << 20})
	}
	switch variant / 40 % 2 {
	case 0: // a watermark going backwards
		return append(cp, nodeh.Out{IsWatermark: true, Watermark: lastWM.Watermark.Add(-time.Second), Step: 1 << 20})
	default: // a late record
		return append(cp, nodeh.Out{Record: nodeh.Rec([]octosql.Value{octosql.NewString("ghost")}, false, lastWM.Watermark).Record, Step: 1 << 20})
	}
}

// ---- RecordEventTimeBuffer through its API ---------------------------------------------------------

type bufOp struct {
	emit bool
	t    int // event time index (AddRecord) or watermark index (Emit)
	row  int
	retr bool
	zone bool
}

func judgeBufferAPI(c *core.Ctx, rng *rand.Rand, id string, corrupt bool) {
	c.Eval(1)
	kind := bufferAPIKind
	c.Count(kind+"/cases", 1)
	n := 3 + rng.Intn(40)
	spread := 1 + rng.Intn(5)
	wm := 0
	var ops []bufOp
	for i := 0; i < n; i++ {
		if rng.Intn(5) == 0 {
			wm += rng.Intn(3) // equal watermarks are legal
			ops = append(ops, bufOp{emit: true, t: wm})
		} else {
			ops = append(ops, bufOp{t: wm + 1 + rng.Intn(spread), row: rng.Intn(3), retr: rng.Intn(4) == 0, zone: rng.Intn(3) == 0})
		}
	}
	var sb strings.Builder
	for _, o := range ops {
		if o.emit {
			fmt.Fprintf(&sb, "E%d ", o.t)
		} else {
			fmt.Fprintf(&sb, "A%d:%d:%v ", o.t, o.row, o.retr)
		}
	}
	replay := map[string]interface{}{"id": id, "kind": kind, "ops": sb.String()}

	type rel struct {
		atOp int
		rec  execution.Record
	}
	var got, want []rel
	var held []execution.Record
	emptyMismatch := ""
	panicked, msg := core.Try(func() {
		b := execution.NewRecordEventTimeBuffer()
		step := 0
		emitRef := func(upTo *time.Time) {
			for {
				best := -1
				for i, h := range held {
					if upTo != nil && h.EventTime.After(*upTo) {
						continue
					}
					if best < 0 || h.EventTime.Before(held[best].EventTime) {
						best = i
					}
				}
				if best < 0 {
					return
				}
				want = append(want, rel{step, held[best]})
				held = append(held[:best], held[best+1:]...)
			}
		}
		for i, o := range ops {
			step = i
			if o.emit {
				w := chlog.TS(o.t)
				if o.t == 0 {
					w = chlog.Base // a watermark below every record
				}
				if err := b.Emit(w, func(r execution.Record) error { got = append(got, rel{step, r}); return nil }); err != nil {
					emptyMismatch = "Emit returned an error: " + err.Error()
				}
				emitRef(&w)
			} else {
				t := chlog.TS(o.t)
				if o.zone {
					t = t.In(time.FixedZone("west", -5*3600))
				}
				r := execution.NewRecord([]octosql.Value{octosql.NewInt(int64(o.row)), octosql.NewInt(int64(i))}, o.retr, t)
				b.AddRecord(r)
				held = append(held, r)
			}
			if b.Empty() != (len(held) == 0) && emptyMismatch == "" {
				emptyMismatch = fmt.Sprintf("after op %d Empty() = %v but %d records are held", i, b.Empty(), len(held))
			}
		}
		step = len(ops)
		if err := b.Emit(execution.WatermarkMaxValue, func(r execution.Record) error { got = append(got, rel{step, r}); return nil }); err != nil {
			emptyMismatch = "Emit returned an error: " + err.Error()
		}
		emitRef(nil)
		if !b.Empty() && emptyMismatch == "" {
			emptyMismatch = "not empty after Emit(WatermarkMaxValue)"
		}
	})
	if panicked {
		c.Violation("panic:record-event-time-buffer", "RecordEventTimeBuffer panicked: "+msg, replay)
		return
	}
	if corrupt && len(got) >= 2 {
		got[0], got[len(got)-1] = got[len(got)-1], got[0]
	} else if corrupt {
		got = append(got, rel{0, execution.NewRecord([]octosql.Value{octosql.NewInt(9)}, false, chlog.TS(1))})
	}
	if emptyMismatch != "" {
		c.Violation("buffer-api-mismatch", emptyMismatch, replay)
		return
	}
	what := ""
	for i := 0; i < len(got) && i < len(want) && what == ""; i++ {
		g, w := got[i], want[i]
		if g.atOp != w.atOp || g.rec.Retraction != w.rec.Retraction || !g.rec.EventTime.Equal(w.rec.EventTime) || nodeh.RowKey(g.rec.Values) != nodeh.RowKey(w.rec.Values) {
			what = fmt.Sprintf("release #%d: got %s at op %d, expected %s at op %d", i, nodeh.Event{Record: g.rec}, g.atOp, nodeh.Event{Record: w.rec}, w.atOp)
		}
	}
	if what == "" && len(got) != len(want) {
		what = fmt.Sprintf("%d records released, expected %d", len(got), len(want))
	}
	if what != "" {
		c.Violation("buffer-api-mismatch", "RecordEventTimeBuffer: "+what, replay)
		return
	}
	c.Count(kind+"/records_released", len(got))
	emits := 0
	for _, o := range ops {
		if o.emit {
			emits++
		}
	}
	if emits >= 1 && len(got) >= 2 {
		c.Nontrivial(kind + "|" + sb.String())
		c.Count(kind+"/nontrivial", 1)
	}
}

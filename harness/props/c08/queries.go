package c08

import (
	"context"
	"fmt"
	"math/rand"
	"runtime"
	"strings"
	"time"

	"github.com/cube2222/octosql/octosql"
	"github.com/cube2222/octosql/physical"

	"github.com/cube2222/octosql/plugins/verifharness/core"
	"github.com/cube2222/octosql/plugins/verifharness/nodeh"
	"github.com/cube2222/octosql/plugins/verifharness/props/pipex"
)

// Part (2): generated queries over memdb tables whose rows conform to their declared schemas; every
// output record (insertions and retractions) is checked field by field against the plan's output
// schema.

type colDef struct {
	name string
	kind string
	typ  octosql.Type
}

var objT = tStruct(octosql.StructField{Name: "x", Type: octosql.Int}, octosql.StructField{Name: "y", Type: tUnion(octosql.Null, octosql.String)})

var t1Cols = []colDef{
	{"id", "int", octosql.Int},
	{"i", "int", octosql.Int},
	{"ni", "int", tUnion(octosql.Null, octosql.Int)},
	{"f", "float", octosql.Float},
	{"nf", "float", tUnion(octosql.Null, octosql.Float)},
	{"s", "str", octosql.String},
	{"ns", "str", tUnion(octosql.Null, octosql.String)},
	{"b", "bool", octosql.Boolean},
	{"nb", "bool", tUnion(octosql.Null, octosql.Boolean)},
	{"ts", "time", octosql.Time},
	{"d", "dur", octosql.Duration},
	{"u", "uIS", tUnion(octosql.Int, octosql.String)},
	{"nu", "nuIF", tUnion(octosql.Null, octosql.Int, octosql.Float)},
	{"li", "listInt", tList(octosql.Int)},
	{"ls", "listStr", tList(tUnion(octosql.Null, octosql.String))},
	{"o", "obj", objT},
	{"no", "nobj", tUnion(octosql.Null, objT)},
	{"tu", "tuple", tTuple(octosql.Int, octosql.String)},
	{"ul", "uLS", tUnion(octosql.String, tList(octosql.Int))},
	{"ub", "uBS", tUnion(octosql.Boolean, octosql.String)},
}

var t2Cols = []colDef{
	{"id", "int", octosql.Int},
	{"k", "int", tUnion(octosql.Null, octosql.Int)},
	{"v", "str", octosql.String},
	{"w", "float", tUnion(octosql.Null, octosql.Float)},
	{"ts2", "time", octosql.Time},
}

func genTable(rng *rand.Rand, cols []colDef, maxRows int) *nodeh.Table {
	fields := make([]physical.SchemaField, len(cols))
	// union columns without NULL: half of the tables hold a single alternative, so that runtime
	// type assertions on them can succeed for the whole table
	single := make([]int, len(cols))
	for i, cd := range cols {
		fields[i] = physical.SchemaField{Name: cd.name, Type: cd.typ}
		single[i] = -1
		if cd.typ.TypeID == octosql.TypeIDUnion && rng.Intn(2) == 0 {
			var nn []int
			for ai, a := range cd.typ.Union.Alternatives {
				if a.TypeID != octosql.TypeIDNull {
					nn = append(nn, ai)
				}
			}
			if len(nn) > 1 {
				single[i] = nn[rng.Intn(len(nn))]
			}
		}
	}
	n := rng.Intn(maxRows + 1)
	evs := make([]nodeh.Event, 0, n)
	for r := 0; r < n; r++ {
		vals := make([]octosql.Value, len(cols))
		for i, cd := range cols {
			t := cd.typ
			if single[i] >= 0 {
				alt := t.Union.Alternatives[single[i]]
				if admitsNull(t) && rng.Intn(4) == 0 {
					vals[i] = octosql.NewNull()
					continue
				}
				t = alt
			}
			// small integers: join keys must collide, arithmetic stays readable
			vals[i] = genValue(rng, t, cd.kind == "int" || cd.kind == "listInt" || rng.Intn(3) > 0, 0)
		}
		if cols[0].name == "id" {
			vals[0] = octosql.NewInt(int64(r))
		}
		evs = append(evs, nodeh.Rec(vals, false, time.Time{}))
	}
	return &nodeh.Table{Fields: fields, TimeField: -1, NoRetractions: true, Events: evs}
}

// ---------------------------------------------------------------------------------------------
// Typed expression grammar

type qgen struct {
	rng  *rand.Rand
	safe bool                // only expressions that cannot panic (they may run in a join's producer goroutine)
	cols map[string][]string // kind -> qualified column references in scope
}

func (g *qgen) addCols(alias string, cols []colDef) {
	for _, cd := range cols {
		g.cols[cd.kind] = append(g.cols[cd.kind], alias+"."+cd.name)
	}
}

func (g *qgen) col(kind string) (string, bool) {
	cs := g.cols[kind]
	if len(cs) == 0 {
		return "", false
	}
	return cs[g.rng.Intn(len(cs))], true
}

func (g *qgen) pick(opts ...string) string { return opts[g.rng.Intn(len(opts))] }

var scalarKinds = []string{"int", "float", "str", "bool", "time", "dur"}
var allKinds = []string{"int", "float", "str", "bool", "time", "dur", "listInt", "listStr", "obj", "nobj", "tuple", "uIS", "nuIF", "uLS", "uBS"}

func (g *qgen) lit(kind string) string {
	switch kind {
	case "int":
		return g.pick("0", "1", "2", "3", "5", "-3", "100")
	case "float":
		return g.pick("0.0", "1.5", "2.0", "-0.5", "1000000.0")
	case "str":
		return g.pick("''", "'a'", "'ab'", "'12'", "'1.5'", "'x y'", "'-7'", "'zz'")
	case "bool":
		return g.pick("TRUE", "FALSE")
	case "dur":
		return g.pick("INTERVAL 2 SECONDS", "INTERVAL 1 MINUTE", "INTERVAL 0 SECONDS", "INTERVAL 3 DAYS")
	case "time":
		return "time_from_unix(" + g.pick("0", "1609459200", "-5") + ")"
	}
	return "NULL"
}

// expr returns SQL of an expression whose non-NULL values are of the given kind.
func (g *qgen) expr(kind string, d int) string {
	r := g.rng
	if d <= 0 || r.Intn(5) == 0 {
		if c, ok := g.col(kind); ok && r.Intn(5) > 0 {
			return c
		}
		switch kind {
		case "int", "float", "str", "bool", "dur", "time":
			return g.lit(kind)
		}
		if c, ok := g.col(kind); ok {
			return c
		}
		return g.fallback(kind)
	}
	e := func(k string) string { return g.expr(k, d-1) }
	switch kind {
	case "int":
		switch r.Intn(20) {
		case 0, 1:
			return "(" + e("int") + " + " + e("int") + ")"
		case 2:
			return "(" + e("int") + " - " + e("int") + ")"
		case 3:
			return "(" + e("int") + " * " + e("int") + ")"
		case 4:
			return "abs(" + e("int") + ")"
		case 5:
			return "(- " + e("int") + ")"
		case 6:
			k := g.pick("str", "listInt", "listStr", "tuple", "obj")
			if _, ok := g.col(k); !ok && k != "tuple" {
				k = "str"
			}
			return "len(" + e(k) + ")"
		case 7:
			return "int(" + e("float") + ")"
		case 8, 9:
			return "int(" + e("str") + ")"
		case 10:
			return "int(" + e(g.pick("bool", "dur")) + ")"
		case 11:
			return "COALESCE(" + e("int") + ", " + e("int") + ")"
		case 12:
			if c, ok := g.col("uIS"); ok {
				return c + "::int"
			}
		case 13:
			if c, ok := g.col("nuIF"); ok {
				return c + "::int"
			}
		case 14:
			if c, ok := g.col(g.pick("obj", "nobj")); ok {
				return c + "->x"
			}
		case 15:
			return "time_to_unix(" + e("time") + ")"
		case 16:
			return "(" + e("int") + " / " + g.pick("1", "2", "-3", "7") + ")"
		case 17:
			if c, ok := g.col("listInt"); ok {
				return c + "[" + g.pick("0", "1", "2", "5") + "]"
			}
		case 18:
			return "position(" + e("str") + ", " + e("str") + ")"
		case 19:
			if !g.safe {
				return "(" + e("int") + " / " + e("int") + ")"
			}
		}
		return "(" + e("int") + " + " + g.lit("int") + ")"
	case "float":
		switch r.Intn(14) {
		case 0:
			return "(" + e("float") + " + " + e("float") + ")"
		case 1:
			return "(" + e("float") + " * " + e("float") + ")"
		case 2:
			return "(" + e("float") + " / " + e("float") + ")"
		case 3:
			return g.pick("sqrt", "ceil", "floor", "log", "log2", "log10", "abs") + "(" + e("float") + ")"
		case 4:
			return "float(" + e("int") + ")"
		case 5, 6:
			return "float(" + e("str") + ")"
		case 7:
			return "pow(" + e("float") + ", " + e("float") + ")"
		case 8:
			return "COALESCE(" + e("float") + ", " + e("float") + ")"
		case 9:
			if c, ok := g.col("nuIF"); ok {
				return c + "::float"
			}
		case 10:
			return "(" + e("dur") + " / " + e("dur") + ")"
		case 11:
			return "float(" + e("dur") + ")"
		case 12:
			return "(- " + e("float") + ")"
		}
		return "(" + e("float") + " - " + g.lit("float") + ")"
	case "str":
		switch r.Intn(14) {
		case 0, 1:
			return "(" + e("str") + " + " + e("str") + ")"
		case 2:
			return g.pick("upper", "lower", "reverse") + "(" + e("str") + ")"
		case 3:
			return "replace(" + e("str") + ", " + e("str") + ", " + e("str") + ")"
		case 4, 5:
			return "string(" + e(g.pick(allKinds...)) + ")"
		case 6:
			return "COALESCE(" + e("str") + ", " + e("str") + ")"
		case 7:
			if c, ok := g.col("uIS"); ok {
				return c + "::string"
			}
		case 8:
			if c, ok := g.col(g.pick("obj", "nobj")); ok {
				return c + "->y"
			}
		case 9:
			return "substr(" + e("str") + ", " + g.pick("0", "1", "2", "10") + ")"
		case 10:
			return "substr(" + e("str") + ", " + g.pick("0", "1", "3") + ", " + g.pick("0", "1", "2", "100") + ")"
		case 11:
			return "(" + e("str") + " * " + g.pick("0", "1", "2", "3") + ")"
		case 12:
			if !g.safe {
				return "substr(" + e("str") + ", " + e("int") + ")"
			}
		case 13:
			if c, ok := g.col("listStr"); ok {
				return c + "[" + g.pick("0", "1", "4") + "]"
			}
		}
		return "upper(" + e("str") + ")"
	case "bool":
		switch r.Intn(16) {
		case 0, 1, 2:
			k := g.pick("int", "float", "str", "time", "dur", "bool")
			return "(" + e(k) + " " + g.pick("<", "<=", ">", ">=", "=", "!=") + " " + e(k) + ")"
		case 3:
			return "(" + e("bool") + " AND " + e("bool") + ")"
		case 4:
			return "(" + e("bool") + " OR " + e("bool") + ")"
		case 5:
			return "(NOT " + e("bool") + ")"
		case 6, 7:
			return "(" + e(g.pick(allKinds...)) + " " + g.pick("IS NULL", "IS NOT NULL") + ")"
		case 8:
			return "(" + e("str") + " " + g.pick("LIKE", "NOT LIKE") + " " + g.pick("'a%'", "'%'", "'_b'", "'1_'", "'%2'") + ")"
		case 9:
			return "(" + e("str") + " " + g.pick("~", "~*") + " " + g.pick("'^a'", "'[0-9]+'", "'B$'", "'.'") + ")"
		case 10:
			return "(" + e("int") + " " + g.pick("IN", "NOT IN") + " (1, 2, 3))"
		case 11:
			if c, ok := g.col("listInt"); ok {
				return "(" + e("int") + " " + g.pick("IN", "NOT IN") + " (" + c + "))"
			}
		case 12:
			return "(" + e("str") + " IN ('a', '12', 'zz'))"
		case 13:
			a, b := g.pick(allKinds...), g.pick(allKinds...)
			return "(" + e(a) + " " + g.pick("=", "!=") + " " + e(b) + ")"
		case 14:
			return "COALESCE(" + e("bool") + ", " + e("bool") + ")"
		case 15:
			return "(" + e("int") + " = NULL)"
		}
		// a union column that may hold a Boolean: And/Or/Filter must assert the type at run time
		if c, ok := g.col("uBS"); ok && r.Intn(3) == 0 {
			return g.pick("("+c+" AND "+e("bool")+")", "("+e("bool")+" OR "+c+")", "(NOT "+c+")", c)
		}
		return "(" + e("int") + " < " + e("int") + ")"
	case "time":
		switch r.Intn(6) {
		case 0:
			return "(" + e("time") + " + " + e("dur") + ")"
		case 1:
			return "(" + e("time") + " - " + e("dur") + ")"
		case 2:
			return "time_from_unix(" + e(g.pick("int", "float")) + ")"
		case 3:
			return "parse_time(" + g.pick("'2006-01-02'", "'15:04'") + ", " + e("str") + ")"
		case 4:
			return "COALESCE(parse_time('2006-01-02', " + e("str") + "), " + e("time") + ")"
		}
		return "(" + e("dur") + " + " + e("time") + ")"
	case "dur":
		switch r.Intn(6) {
		case 0:
			return "(" + e("dur") + " + " + e("dur") + ")"
		case 1:
			return "(" + e("dur") + " - " + e("dur") + ")"
		case 2:
			return "(" + e("dur") + " * " + e("int") + ")"
		case 3:
			return "(- " + e("dur") + ")"
		case 4:
			return "(" + e("dur") + " / " + g.pick("1", "2", "7") + ")"
		}
		return "(" + e("int") + " * " + e("dur") + ")"
	case "tuple":
		if r.Intn(2) == 0 {
			return "(" + e("int") + ", " + e("str") + ")"
		}
	case "any":
		if g.safe {
			return e(g.pick(scalarKinds...))
		}
		return e(g.pick(allKinds...))
	}
	if c, ok := g.col(kind); ok {
		// COALESCE over tuples panics in ObjectLayoutFixer (C07's subject): never where the
		// expression may be evaluated inside a join's producer goroutine
		if r.Intn(4) == 0 && !(g.safe && kind == "tuple") {
			return "COALESCE(" + c + ", " + c + ")"
		}
		return c
	}
	return g.fallback(kind)
}

func (g *qgen) fallback(kind string) string {
	switch kind {
	case "tuple":
		return "(" + g.lit("int") + ", " + g.lit("str") + ")"
	case "listInt", "listStr", "obj", "nobj", "uIS", "nuIF", "uLS", "uBS":
		// no such column in scope: any scalar will do, the query stays well-typed
		return g.lit(g.pick("int", "str"))
	}
	return g.lit("int")
}

type selCol struct {
	sql  string
	kind string
}

func (g *qgen) selectList(n int, depth int) []selCol {
	out := make([]selCol, n)
	for i := range out {
		k := g.pick("int", "int", "float", "str", "str", "bool", "bool", "time", "dur", "any", "tuple", "listInt", "obj", "nobj", "uIS", "nuIF")
		out[i] = selCol{sql: g.expr(k, depth), kind: k}
	}
	return out
}

func renderSelect(cols []selCol, prefix string) string {
	parts := make([]string, len(cols))
	for i, c := range cols {
		parts[i] = fmt.Sprintf("%s AS %s%d", c.sql, prefix, i)
	}
	return strings.Join(parts, ", ")
}

var aggByKind = map[string][]string{
	"int":   {"sum", "avg", "min", "max", "sum_distinct", "avg_distinct", "count", "count_distinct", "array_agg", "array_agg_distinct"},
	"float": {"sum", "avg", "min", "max", "sum_distinct", "avg_distinct", "count", "array_agg"},
	"dur":   {"sum", "avg", "min", "max", "count", "array_agg_distinct"},
	"time":  {"max", "count", "array_agg", "count_distinct"},
	"str":   {"count", "count_distinct", "array_agg", "array_agg_distinct"},
	"bool":  {"count", "array_agg", "count_distinct"},
	"any":   {"count", "array_agg"},
}

func aggOutKind(agg, in string) string {
	switch {
	case strings.HasPrefix(agg, "count"):
		return "int"
	case strings.HasPrefix(agg, "array_agg"):
		return "list"
	}
	return in
}

type genQuery struct {
	shape string
	sql   string
	join  bool
}

// genQuery builds one query; shapes rotate with the case index.
func buildQuery(rng *rand.Rand, idx int) genQuery {
	shapes := []string{"project", "where", "distinct", "groupby", "groupby-trigger", "join-inner", "join-left", "join-right", "join-outer", "join-star",
		"tvf-range", "tvf-watermark", "tvf-tumble", "subquery-from", "with", "groupby-in-subquery", "outerjoin-in-subquery", "scalar-subquery", "casts", "lookup-join", "join-groupby", "explode",
		"typesum", "typesum", "typesum-groupby", "typesum-subquery", "typesum-distinct", "typesum",
		"join-retract-left", "join-retract-right", "join-retract-outer", "join-retract-groupby", "join-retract-left", "join-retract-right",
		"groupby-zero", "groupby-zero", "groupby-zero-trigger", "groupby-zero-subquery", "groupby-zero", "groupby-zero-trigger"}
	shape := shapes[idx%len(shapes)]
	g := &qgen{rng: rng, cols: map[string][]string{}}
	depth := 1 + rng.Intn(3)
	nsel := 1 + rng.Intn(4)
	switch shape {
	case "project":
		g.addCols("a", t1Cols)
		return genQuery{shape: shape, sql: "SELECT " + renderSelect(g.selectList(nsel, depth), "c") + " FROM m.t1 a"}
	case "where":
		g.addCols("a", t1Cols)
		return genQuery{shape: shape, sql: "SELECT " + renderSelect(g.selectList(nsel, depth), "c") + " FROM m.t1 a WHERE " + g.expr("bool", depth)}
	case "distinct":
		g.addCols("a", t1Cols)
		return genQuery{shape: shape, sql: "SELECT DISTINCT " + renderSelect(g.selectList(nsel, 1), "c") + " FROM m.t1 a"}
	case "groupby", "groupby-trigger":
		g.addCols("a", t1Cols)
		return genQuery{shape: shape, sql: groupBy(g, "m.t1 a", shape == "groupby-trigger", depth)}
	case "join-inner", "join-left", "join-right", "join-outer", "lookup-join":
		g.safe = true
		g.addCols("a", t1Cols)
		g.addCols("b", t2Cols)
		kw := map[string]string{"join-inner": "JOIN", "join-left": "LEFT JOIN", "join-right": "RIGHT JOIN", "join-outer": "OUTER JOIN", "lookup-join": "LOOKUP JOIN"}[shape]
		on := g.pick("a.i = b.k", "a.ni = b.k", "a.i = b.id", "a.s = b.v", "a.ni = b.k AND a.i = b.id")
		if shape == "join-inner" && rng.Intn(3) == 0 {
			on += " AND a.id " + g.pick("<", ">=", "!=") + " b.id"
		}
		sql := "SELECT " + renderSelect(g.selectList(nsel+1, depth), "c") + " FROM m.t1 a " + kw + " m.t2 b ON " + on
		if rng.Intn(3) == 0 {
			sql += " WHERE " + g.expr("bool", 1)
		}
		return genQuery{shape: shape, sql: sql, join: true}
	case "join-star":
		kw := g.pick("JOIN", "LEFT JOIN", "RIGHT JOIN", "OUTER JOIN")
		sel := g.pick("*", "a.*, b.v", "b.*, a.ni, a.s", "a.id, b.*")
		return genQuery{shape: shape, sql: "SELECT " + sel + " FROM m.t1 a " + kw + " m.t2 b ON " + g.pick("a.i = b.k", "a.ni = b.k"), join: true}
	case "join-groupby":
		g.safe = true
		g.addCols("a", t1Cols)
		g.addCols("b", t2Cols)
		kw := g.pick("JOIN", "LEFT JOIN", "RIGHT JOIN", "OUTER JOIN")
		return genQuery{shape: shape, sql: groupBy(g, "m.t1 a "+kw+" m.t2 b ON a.i = b.k", false, 1), join: true}
	case "tvf-range":
		g.cols["int"] = []string{"r.i"}
		return genQuery{shape: shape, sql: "SELECT " + renderSelect(g.selectList(nsel, depth), "c") + " FROM range(start=>" + g.pick("0", "1", "-2") + ", end=>" + g.pick("0", "3", "6") + ") r"}
	case "tvf-watermark":
		g.addCols("w", t1Cols)
		return genQuery{shape: shape, sql: "SELECT " + renderSelect(g.selectList(nsel, depth), "c") + " FROM max_diff_watermark(source=>TABLE(m.t1), max_diff=>INTERVAL 5 SECONDS, time_field=>DESCRIPTOR(ts)) w"}
	case "tvf-tumble":
		g.addCols("x", t1Cols)
		g.cols["time"] = append(g.cols["time"], "x.window_start", "x.window_end")
		src := "TABLE(m.t1)"
		tf := ", time_field=>DESCRIPTOR(ts)"
		if rng.Intn(2) == 0 {
			src = "TABLE(max_diff_watermark(source=>TABLE(m.t1), max_diff=>INTERVAL 5 SECONDS, time_field=>DESCRIPTOR(ts)) w)"
			tf = ""
		}
		from := "tumble(source=>" + src + ", window_length=>" + g.pick("INTERVAL 1 MINUTE", "INTERVAL 10 SECONDS", "INTERVAL 1 DAY") + tf + ") x"
		if rng.Intn(2) == 0 {
			return genQuery{shape: shape, sql: "SELECT x.window_end AS g0, count(*) AS a0, " + g.pick("sum(x.i)", "max(x.ts)", "avg(x.nf)", "array_agg(x.ns)") + " AS a1 FROM " + from + " GROUP BY x.window_end"}
		}
		return genQuery{shape: shape, sql: "SELECT " + renderSelect(g.selectList(nsel, depth), "c") + " FROM " + from}
	case "subquery-from", "with":
		g.addCols("a", t1Cols)
		inner := g.selectList(2+rng.Intn(3), depth)
		innerSQL := "SELECT " + renderSelect(inner, "q") + " FROM m.t1 a"
		if rng.Intn(2) == 0 {
			innerSQL += " WHERE " + g.expr("bool", 1)
		}
		og := &qgen{rng: rng, cols: map[string][]string{}}
		pre := "z."
		if shape == "with" {
			pre = ""
		}
		for i, c := range inner {
			if c.kind != "any" {
				og.cols[c.kind] = append(og.cols[c.kind], fmt.Sprintf("%sq%d", pre, i))
			}
		}
		outer := renderSelect(og.selectList(nsel, depth), "c")
		if shape == "with" {
			return genQuery{shape: shape, sql: "WITH z AS (" + innerSQL + ") SELECT " + outer + " FROM z z"}
		}
		return genQuery{shape: shape, sql: "SELECT " + outer + " FROM (" + innerSQL + ") z"}
	case "groupby-in-subquery":
		g.addCols("a", t1Cols)
		key := g.expr(g.pick("int", "str", "bool"), 1)
		kkind := "any"
		in := g.pick("int", "float", "dur")
		agg1 := g.pick("sum", "avg", "min", "max")
		agg2 := g.pick("count", "count_distinct")
		inner := fmt.Sprintf("SELECT %s AS g0, %s(%s) AS a0, %s(%s) AS a1 FROM m.t1 a GROUP BY %s", key, agg1, g.expr(in, 1), agg2, g.expr("any", 1), key)
		og := &qgen{rng: rng, cols: map[string][]string{}}
		og.cols[in] = []string{"z.a0"}
		og.cols["int"] = append(og.cols["int"], "z.a1")
		_ = kkind
		return genQuery{shape: shape, sql: "SELECT z.g0 AS k, " + renderSelect(og.selectList(nsel, depth), "c") + " FROM (" + inner + ") z"}
	case "outerjoin-in-subquery":
		kw := g.pick("LEFT JOIN", "RIGHT JOIN", "OUTER JOIN")
		inner := "SELECT a.id AS q0, a.s AS q1, a.f AS q2, b.v AS q3, b.id AS q4, b.w AS q5, a.o AS q6 FROM m.t1 a " + kw + " m.t2 b ON a.i = b.k"
		og := &qgen{rng: rng, cols: map[string][]string{"int": {"z.q0", "z.q4"}, "str": {"z.q1", "z.q3"}, "float": {"z.q2", "z.q5"}, "nobj": {"z.q6"}}}
		return genQuery{shape: shape, sql: "SELECT " + renderSelect(og.selectList(nsel+1, depth), "c") + " FROM (" + inner + ") z", join: true}
	case "scalar-subquery":
		g.addCols("a", t1Cols)
		sub := g.pick("(SELECT b.v FROM m.t2 b)", "(SELECT b.k FROM m.t2 b)", "(SELECT b.k, b.v FROM m.t2 b)", "(SELECT b.w FROM m.t2 b WHERE b.id > 0)")
		return genQuery{shape: shape, sql: "SELECT a.id AS c0, " + sub + " AS c1, len(" + sub + ") AS c2, " + g.expr("any", depth) + " AS c3 FROM m.t1 a"}
	case "casts":
		sel := []string{}
		for i := 0; i < nsel+1; i++ {
			sel = append(sel, g.pick("a.u::int", "a.u::string", "a.nu::int", "a.nu::float", "a.ni::int", "a.no::{}", "a.ns::string", "a.ul::[]", "a.ul::string", "len(a.ul::[])", "a.ul::[][0]", "(a.no::{})->x",
				"upper(a.u::string)", "(a.u::int + 1)", "abs(a.nu::float)", "a.no->x", "a.no->y", "COALESCE(a.u::int, a.nu::int, 0)", "a.ls[0]", "upper(a.ls[1])", "len(a.u)", "upper(a.u)", "(a.u + 1)", "sqrt(a.nu)"))
		}
		parts := make([]string, len(sel))
		for i := range sel {
			parts[i] = fmt.Sprintf("%s AS c%d", sel[i], i)
		}
		return genQuery{shape: shape, sql: "SELECT " + strings.Join(parts, ", ") + " FROM m.t1 a"}
	case "groupby-zero", "groupby-zero-trigger", "groupby-zero-subquery":
		return genQuery{shape: shape, sql: buildZeroSumQuery(rng, shape)}
	case "join-retract-left", "join-retract-right", "join-retract-outer", "join-retract-groupby":
		return genQuery{shape: shape, sql: buildRetractJoinQuery(rng, shape), join: true}
	case "typesum", "typesum-groupby", "typesum-subquery", "typesum-distinct":
		return genQuery{shape: shape, sql: buildTypesumQuery(rng, shape)}
	case "explode":
		return genQuery{shape: shape, sql: "SELECT " + g.pick("a.o->*", "a.id, a.o->*", "a.o->*, a.no->x AS nx", "a.no->*") + " FROM m.t1 a"}
	}
	return genQuery{shape: "project", sql: "SELECT a.id AS c0 FROM m.t1 a"}
}

func groupBy(g *qgen, from string, trigger bool, depth int) string {
	rng := g.rng
	nk := rng.Intn(3)
	var keys []string
	for i := 0; i < nk; i++ {
		k := g.expr(g.pick("int", "str", "bool", "float", "time", "any"), rng.Intn(2))
		dup := false
		for _, x := range keys {
			dup = dup || x == k
		}
		if !dup {
			keys = append(keys, k)
		}
	}
	nk = len(keys)
	var sel []string
	for i, k := range keys {
		sel = append(sel, fmt.Sprintf("%s AS g%d", k, i))
	}
	na := 1 + rng.Intn(4)
	for i := 0; i < na; i++ {
		if rng.Intn(6) == 0 {
			sel = append(sel, fmt.Sprintf("count(*) AS a%d", i))
			continue
		}
		in := g.pick("int", "int", "float", "dur", "time", "str", "bool", "any")
		aggs := aggByKind[in]
		sel = append(sel, fmt.Sprintf("%s(%s) AS a%d", aggs[rng.Intn(len(aggs))], g.expr(in, depth-1), i))
	}
	sql := "SELECT " + strings.Join(sel, ", ") + " FROM " + from
	if rng.Intn(3) == 0 {
		sql += " WHERE " + g.expr("bool", 1)
	}
	if nk > 0 {
		sql += " GROUP BY " + strings.Join(keys, ", ")
		if trigger {
			sql += " TRIGGER COUNTING " + g.pick("1", "2", "3")
			if rng.Intn(2) == 0 {
				sql += ", ON END OF STREAM"
			}
		}
	}
	return sql
}

// ---------------------------------------------------------------------------------------------

func queryLeg(c *core.Ctx, ctx context.Context, only string) {
	n := c.Pick(1500, 30000)
	// join cases run sequentially on one goroutine after LogCase (a panic in a join producer
	// goroutine would kill the process; the log then names the case), the rest in parallel
	var joinIdx []int
	var otherIdx []int
	for i := 0; i < n; i++ {
		q := buildQuery(c.Rng(fmt.Sprintf("q/%d", i)), i)
		if q.join {
			joinIdx = append(joinIdx, i)
		} else {
			otherIdx = append(otherIdx, i)
		}
	}
	core.Parallel(len(otherIdx), runtime.NumCPU(), func(k int) { runQuery(c, ctx, otherIdx[k], only) })
	core.Parallel(len(joinIdx), 4, func(k int) { runQuery(c, ctx, joinIdx[k], only) })
}

func runQuery(c *core.Ctx, ctx context.Context, i int, only string) {
	id := fmt.Sprintf("q-%d", i)
	if only != "" && only != id {
		return
	}
	rng := c.Rng(fmt.Sprintf("q/%d", i))
	q := buildQuery(rng, i)
	db := &nodeh.DB{Tables: map[string]*nodeh.Table{"t1": genTable(rng, t1Cols, 8), "t2": genTable(rng, t2Cols, 6)}}
	if strings.HasPrefix(q.shape, "typesum") {
		db.Tables["t3"] = genTable(rng, t3Cols, 10)
	}
	if strings.HasPrefix(q.shape, "groupby-zero") {
		db.Tables["t4"] = genZeroSumTable(rng, q.shape == "groupby-zero-trigger" && rng.Intn(2) == 0)
	}
	if strings.HasPrefix(q.shape, "join-retract") {
		// inputs that retract: small tables, few distinct keys (a.i and b.id collide), valid changelogs
		db.Tables["t1"] = genRetractingTable(rng, t1Cols, 6)
		if q.shape != "join-retract-groupby" || rng.Intn(2) == 0 {
			db.Tables["t2"] = genRetractingTable(rng, t2Cols, 5)
		}
	}
	optimize := rng.Intn(2) == 0
	replay := map[string]interface{}{"id": id, "shape": q.shape, "sql": q.sql, "optimize": optimize,
		"t1": nodeh.EventsString(db.Tables["t1"].Events), "t2": nodeh.EventsString(db.Tables["t2"].Events)}
	if t4, ok := db.Tables["t4"]; ok {
		replay["t4"] = nodeh.EventsString(t4.Events)
	}
	if t3, ok := db.Tables["t3"]; ok {
		replay["t3"] = nodeh.EventsString(t3.Events)
		fs := make([]string, len(t3.Fields))
		for i, f := range t3.Fields {
			fs[i] = f.Name + ": " + f.Type.String()
		}
		replay["t3_schema"] = fs
	}
	c.Eval(1)
	if q.join {
		c.LogCase(id, q.sql)
	}
	p, perr := pipex.Plan(ctx, q.sql, db, optimize)
	if perr != nil {
		if perr.Stage == "panic" {
			c.Count("q/"+q.shape+"/plan_panic_not_judged", 1)
			c.Count("q/plan_panic_not_judged:"+core.PanicSite(perr.Stack), 1)
			c.Note("q_plan_panic_example:"+core.PanicSite(perr.Stack), perr.Err.Error()+" | optimize="+fmt.Sprint(optimize)+" | "+q.sql)
		} else {
			c.Count("q/"+q.shape+"/rejected:"+perr.Stage, 1)
			c.Note("q_rejected_example:"+q.shape, perr.Error()+" | "+q.sql)
		}
		return
	}
	var outs []nodeh.Out
	var res nodeh.RunResult
	if q.join {
		outs, res = pipex.RunW(ctx, p, 30*time.Second)
	} else {
		outs, res = pipex.Run(ctx, p)
	}
	if res.TimedOut {
		c.Inconclusive("watchdog")
		return
	}
	if res.Panicked {
		c.Count("q/"+q.shape+"/run_panic_not_judged", 1)
		c.Count("q/run_panic_not_judged:"+core.PanicSite(res.Stack), 1)
		c.Note("q_run_panic_example:"+core.PanicSite(res.Stack), res.PanicMsg+" | "+q.sql)
	} else if res.Err != nil {
		c.Count("q/"+q.shape+"/run_error_not_judged", 1)
	}
	// records emitted before an error/panic are still outputs of the plan and are judged
	fields := p.Schema.Fields
	schemaStr := make([]string, len(fields))
	for k := range fields {
		schemaStr[k] = p.OutFields[k].Name + ": " + fields[k].Type.String()
	}
	replay["schema"] = schemaStr
	nrec, nnull := 0, 0
	for _, o := range outs {
		if !o.IsWatermark {
			nrec++
			for _, v := range o.Record.Values {
				if v.TypeID == octosql.TypeIDNull {
					nnull++
				}
			}
		}
	}
	if k, o, what := firstMismatch(p, outs); what != "" {
		replay["record"] = o.String()
		if what == "width" {
			c.Violation("record-width:"+q.shape, fmt.Sprintf("record has %d values, schema has %d fields", len(o.Record.Values), len(fields)), replay)
			return
		}
		v := o.Record.Values[k]
		replay["column"] = p.OutFields[k].Name
		replay["column_expr"] = columnSQL(p, k)
		key := classifyQueryMismatch(ctx, db, optimize, q, v, fields[k].Type, replay)
		c.Count("q/mismatch/"+key, 1)
		c.Violation(key, fmt.Sprintf("column %s is typed %s but a record carries %s", p.OutFields[k].Name, fields[k].Type, nodeh.ValKey(v)), replay)
		return
	}
	c.Count("q/"+q.shape+"/judged", 1)
	c.Count("q/records_judged", nrec)
	if nrec > 0 {
		c.Nontrivial(id + "|" + q.sql)
		c.Count("q/"+q.shape+"/nonempty", 1)
	}
	if nnull > 0 {
		c.Count("q/with_null_in_output", 1)
		c.Count("q/"+q.shape+"/with_null_in_output", 1) // e.g. outer-join padding, aggregates over all-NULL groups
	}
	if i%10 == 0 {
		replay["outputs"] = len(outs)
		c.Sample(replay)
	}
}

// columnSQL describes the physical expression behind output column k (for the replay).
func columnSQL(p *nodeh.Planned, k int) string {
	ex := pipex.SelectExprs(p)
	if k < len(ex) {
		return describeExpr(ex[k])
	}
	return p.Physical.NodeType.String()
}

func describeExpr(e physical.Expression) string {
	switch e.ExpressionType {
	case physical.ExpressionTypeFunctionCall:
		parts := make([]string, len(e.FunctionCall.Arguments))
		for i, a := range e.FunctionCall.Arguments {
			parts[i] = describeExpr(a)
		}
		return e.FunctionCall.Name + "(" + strings.Join(parts, ", ") + "): " + e.Type.String()
	case physical.ExpressionTypeVariable:
		return e.Variable.Name + ": " + e.Type.String()
	case physical.ExpressionTypeConstant:
		return "const: " + e.Type.String()
	}
	return e.ExpressionType.String() + ": " + e.Type.String()
}

// firstMismatch returns the first output value that does not match its column's static type
// (what = "value"), or the first record whose width differs from the schema (what = "width").
func firstMismatch(p *nodeh.Planned, outs []nodeh.Out) (k int, o nodeh.Out, what string) {
	fields := p.Schema.Fields
	for _, o := range outs {
		if o.IsWatermark {
			continue
		}
		if len(o.Record.Values) != len(fields) {
			return 0, o, "width"
		}
		for k, v := range o.Record.Values {
			if !Matches(v, fields[k].Type) {
				return k, o, "value"
			}
		}
	}
	return 0, nodeh.Out{}, ""
}

// patchedFunctions returns a copy of the function map in which the String overloads of the named
// conversions ("int", "float") are declared with a nullable output type — i.e. exactly the change
// the findings nonnull-decl-returns-null:int(String) / float(String) propose.
func patchedFunctions(names ...string) map[string]physical.FunctionDetails {
	fm := nodeh.FunctionMap()
	out := make(map[string]physical.FunctionDetails, len(fm))
	for k, v := range fm {
		out[k] = v
	}
	for _, name := range names {
		det := fm[name]
		ds := append([]physical.FunctionDescriptor{}, det.Descriptors...)
		for i := range ds {
			if ds[i].TypeFn == nil && len(ds[i].ArgumentTypes) == 1 && ds[i].ArgumentTypes[0].TypeID == octosql.TypeIDString {
				ds[i].OutputType = nullable(ds[i].OutputType)
			}
		}
		det.Descriptors = ds
		out[name] = det
	}
	return out
}

// classifyQueryMismatch decides the finding key of a query-level mismatch. A NULL where the column
// type admits none is attributed to the known parse-conversion findings only if re-planning the
// SAME query over the SAME tables with exactly those descriptors declared nullable (and nothing
// else changed) makes every output record match its schema; the key names the smallest such set.
// Everything else gets a key of its own.
func classifyQueryMismatch(ctx context.Context, db *nodeh.DB, optimize bool, q genQuery, v octosql.Value, t octosql.Type, replay map[string]interface{}) string {
	if !containsNullWhereNotAdmitted(v, t) {
		return "type-mismatch:" + q.shape
	}
	if strings.Contains(q.sql, "int(") || strings.Contains(q.sql, "float(") {
		for _, set := range [][]string{{"int"}, {"float"}, {"int", "float"}} {
			p2, perr := pipex.PlanWith(ctx, q.sql, db, optimize, patchedFunctions(set...))
			if perr != nil {
				continue
			}
			var outs []nodeh.Out
			if q.join {
				outs, _ = pipex.RunW(ctx, p2, 30*time.Second)
			} else {
				outs, _ = pipex.Run(ctx, p2)
			}
			if _, _, what := firstMismatch(p2, outs); what == "" {
				parts := make([]string, len(set))
				for i := range set {
					parts[i] = set[i] + "(String)"
				}
				replay["vanishes_when_declared_nullable"] = parts
				return "nonnull-decl-returns-null:" + strings.Join(parts, "+")
			}
		}
	}
	return "null-in-nonnull-column:" + q.shape
}

// containsNullWhereNotAdmitted: is the mismatch between v and t (only) about NULLs sitting where the
// type admits none, at any nesting depth?
func containsNullWhereNotAdmitted(v octosql.Value, t octosql.Type) bool {
	nullBad, otherBad := mismatchKinds(v, t)
	return nullBad && !otherBad
}

func mismatchKinds(v octosql.Value, t octosql.Type) (nullBad, otherBad bool) {
	if t.TypeID == octosql.TypeIDAny {
		return false, false
	}
	if v.TypeID == octosql.TypeIDNull {
		return !admitsNull(t), false
	}
	if t.TypeID == octosql.TypeIDUnion {
		for _, a := range t.Union.Alternatives {
			if a.TypeID == v.TypeID {
				return mismatchKinds(v, a)
			}
		}
		return false, true
	}
	if v.TypeID != t.TypeID {
		return false, true
	}
	merge := func(n, o bool) {
		nullBad = nullBad || n
		otherBad = otherBad || o
	}
	switch v.TypeID {
	case octosql.TypeIDList:
		if t.List.Element == nil {
			return false, len(v.List) > 0
		}
		for _, x := range v.List {
			merge(mismatchKinds(x, *t.List.Element))
		}
	case octosql.TypeIDStruct:
		if len(v.Struct) != len(t.Struct.Fields) {
			return false, true
		}
		for i, x := range v.Struct {
			merge(mismatchKinds(x, t.Struct.Fields[i].Type))
		}
	case octosql.TypeIDTuple:
		if len(v.Tuple) != len(t.Tuple.Elements) {
			return false, true
		}
		for i, x := range v.Tuple {
			merge(mismatchKinds(x, t.Tuple.Elements[i]))
		}
	}
	return nullBad, otherBad
}

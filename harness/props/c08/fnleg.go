package c08

import (
	"context"
	"fmt"
	"runtime"
	"sort"
	"strings"
	"sync"
	"time"

	"github.com/cube2222/octosql/octosql"
	"github.com/cube2222/octosql/physical"

	"github.com/cube2222/octosql/plugins/verifharness/core"
	"github.com/cube2222/octosql/plugins/verifharness/nodeh"
	"github.com/cube2222/octosql/plugins/verifharness/props/pipex"
)

// Part (1): every descriptor of FunctionMap() x argument tuples from the edge pools, called through
// SQL over memdb columns of the argument types; each result is checked against the static type of
// the output column.

// callSQL renders a call in octosql's SQL syntax.
func callSQL(name string, args []string) string {
	switch name {
	case "<", "<=", "=", "!=", ">=", ">", "+", "*", "/", "~", "~*":
		if len(args) == 2 {
			return "(" + args[0] + " " + name + " " + args[1] + ")"
		}
	case "-":
		if len(args) == 2 {
			return "(" + args[0] + " - " + args[1] + ")"
		}
		if len(args) == 1 {
			return "(- " + args[0] + ")"
		}
	case "like":
		if len(args) == 2 {
			return "(" + args[0] + " LIKE " + args[1] + ")"
		}
	case "in":
		if len(args) == 2 {
			return "(" + args[0] + " IN (" + args[1] + "))"
		}
	case "not in":
		if len(args) == 2 {
			return "(" + args[0] + " NOT IN (" + args[1] + "))"
		}
	case "[]":
		if len(args) == 2 {
			return args[0] + "[" + args[1] + "]"
		}
	case "not":
		if len(args) == 1 {
			return "(NOT " + args[0] + ")"
		}
	case "is null":
		if len(args) == 1 {
			return "(" + args[0] + " IS NULL)"
		}
	case "is not null":
		if len(args) == 1 {
			return "(" + args[0] + " IS NOT NULL)"
		}
	}
	return name + "(" + strings.Join(args, ", ") + ")"
}

func probeTypes() []octosql.Type {
	return []octosql.Type{
		octosql.Int, octosql.Float, octosql.Boolean, octosql.String, octosql.Time, octosql.Duration,
		tList(octosql.Int), tList(octosql.String), tList(tUnion(octosql.Null, octosql.Int)),
		tStruct(octosql.StructField{Name: "x", Type: octosql.Int}, octosql.StructField{Name: "y", Type: octosql.String}),
		tTuple(octosql.Int, octosql.String), tTuple(octosql.Int, octosql.Int, octosql.Int),
		// composite element types: the output type of [] (NULL + element) and of nullable strict
		// calls is a TypeSum over a union that already holds a list / an object
		tList(tUnion(octosql.String, tList(octosql.Float))), tList(tList(octosql.String)),
		tList(tUnion(octosql.Null, tStruct(octosql.StructField{Name: "x", Type: tList(octosql.Int)}))),
	}
}

type fnSig struct {
	name string
	di   int
	si   int
	args []octosql.Type // non-nullable argument types
}

func (s fnSig) String() string {
	parts := make([]string, len(s.args))
	for i := range s.args {
		parts[i] = s.args[i].String()
	}
	return s.name + "(" + strings.Join(parts, ", ") + ")"
}

func sortedNames(fm map[string]physical.FunctionDetails) []string {
	out := make([]string, 0, len(fm))
	for k := range fm {
		out = append(out, k)
	}
	sort.Strings(out)
	return out
}

func signatures(fm map[string]physical.FunctionDetails) (sigs []fnSig, nDesc int) {
	pt := probeTypes()
	for _, name := range sortedNames(fm) {
		for di, d := range fm[name].Descriptors {
			nDesc++
			var found [][]octosql.Type
			if d.TypeFn == nil {
				nAny := 0
				for _, at := range d.ArgumentTypes {
					if at.TypeID == octosql.TypeIDAny {
						nAny++
					}
				}
				if nAny == 0 {
					found = append(found, append([]octosql.Type{}, d.ArgumentTypes...))
				} else {
					for k := range pt {
						for _, shift := range []int{0, 1} {
							var ts []octosql.Type
							for pos, at := range d.ArgumentTypes {
								if at.TypeID == octosql.TypeIDAny {
									ts = append(ts, pt[(k+pos*shift)%len(pt)])
								} else {
									ts = append(ts, at)
								}
							}
							found = append(found, ts)
							if nAny == 1 {
								break
							}
						}
					}
				}
			} else {
				var tup []octosql.Type
				var rec func(arity int)
				rec = func(arity int) {
					if len(tup) == arity {
						ok := false
						core.Try(func() { _, ok = d.TypeFn(tup) })
						if ok {
							found = append(found, append([]octosql.Type{}, tup...))
						}
						return
					}
					for _, t := range pt {
						tup = append(tup, t)
						rec(arity)
						tup = tup[:len(tup)-1]
					}
				}
				for arity := 0; arity <= 3; arity++ {
					rec(arity)
				}
				// keep at most 12, evenly spread
				if len(found) > 12 {
					var kept [][]octosql.Type
					for i := 0; i < 12; i++ {
						kept = append(kept, found[i*len(found)/12])
					}
					found = kept
				}
			}
			for si, ts := range found {
				sigs = append(sigs, fnSig{name: name, di: di, si: si, args: ts})
			}
		}
	}
	return sigs, nDesc
}

type fnStats struct {
	mu       sync.Mutex
	selected map[string]int // descriptor key -> rows judged
}

func otherScalar(t octosql.Type) (octosql.Type, bool) {
	switch t.TypeID {
	case octosql.TypeIDString:
		return octosql.Int, true
	case octosql.TypeIDInt, octosql.TypeIDFloat, octosql.TypeIDBoolean, octosql.TypeIDTime, octosql.TypeIDDuration:
		return octosql.String, true
	}
	return octosql.Type{}, false
}

func functionLeg(c *core.Ctx, ctx context.Context, only string) {
	fm := nodeh.FunctionMap()
	sigs, nDesc := signatures(fm)
	c.Note("function_descriptors", nDesc)
	c.Note("function_signatures", len(sigs))
	perDesc := map[string]int{}
	for _, s := range sigs {
		perDesc[fmt.Sprintf("%s#%d", s.name, s.di)]++
	}
	budget := c.Pick(200, 4000) // argument tuples per descriptor
	type item struct {
		sig     fnSig
		variant string
		n       int
	}
	var items []item
	for _, s := range sigs {
		variants := []string{"nn", "nl"}
		if len(s.args) >= 2 {
			variants = append(variants, "mx")
		}
		if len(s.args) >= 1 {
			if _, ok := otherScalar(s.args[0]); ok {
				variants = append(variants, "un")
			}
		}
		if len(s.args) == 0 {
			variants = []string{"nn"}
		}
		n := budget / (perDesc[fmt.Sprintf("%s#%d", s.name, s.di)] * len(variants))
		if n < 4 {
			n = 4
		}
		for _, v := range variants {
			items = append(items, item{s, v, n})
		}
	}
	st := &fnStats{selected: map[string]int{}}
	core.Parallel(len(items), runtime.NumCPU(), func(i int) {
		it := items[i]
		id := fmt.Sprintf("fn-%s#%d-%d-%s", it.sig.name, it.sig.di, it.sig.si, it.variant)
		if only != "" && only != id {
			return
		}
		runFnItem(c, ctx, st, id, it.sig, it.variant, it.n)
	})
	if only == "" {
		var missed []string
		for _, name := range sortedNames(fm) {
			for di := range fm[name].Descriptors {
				k := fmt.Sprintf("%s#%d", name, di)
				if st.selected[k] == 0 {
					missed = append(missed, k)
				}
			}
		}
		c.Note("descriptors_with_judged_results", len(st.selected))
		c.Note("descriptors_without_judged_results", missed)
	}
}

func runFnItem(c *core.Ctx, ctx context.Context, st *fnStats, id string, sig fnSig, variant string, n int) {
	rng := c.Rng("fn/" + id)
	k := len(sig.args)
	colTypes := make([]octosql.Type, k)
	for i := 0; i < k; i++ {
		t := sig.args[i]
		switch variant {
		case "nl":
			t = nullable(t)
		case "mx":
			if i == 0 {
				t = nullable(t)
			}
		case "un":
			if i == 0 {
				u, _ := otherScalar(t)
				t = tUnion(t, u)
			}
		}
		colTypes[i] = t
	}
	// integers that become repeat counts / allocation sizes stay small: a huge one would make the
	// harness allocate gigabytes (strings.Repeat) — that input class is exercised at CLI level by C07
	small := false
	if sig.name == "*" {
		for _, a := range sig.args {
			if a.TypeID == octosql.TypeIDString {
				small = true
			}
		}
	}
	fields := []physical.SchemaField{{Name: "id", Type: octosql.Int}}
	argNames := make([]string, k)
	for i := 0; i < k; i++ {
		argNames[i] = fmt.Sprintf("a%d", i)
		fields = append(fields, physical.SchemaField{Name: argNames[i], Type: colTypes[i]})
	}
	rows := make([][]octosql.Value, n)
	for r := range rows {
		vals := []octosql.Value{octosql.NewInt(int64(r))}
		for i := 0; i < k; i++ {
			vals = append(vals, genValue(rng, colTypes[i], small, 0))
		}
		rows[r] = vals
	}
	sql := "SELECT id, " + callSQL(sig.name, argNames) + " AS x FROM m.t"
	optimize := rng.Intn(2) == 0
	tl := map[string]int{}
	defer func() {
		for key, v := range tl {
			c.Count(key, v)
		}
	}()

	mkDB := func(sub [][]octosql.Value) *nodeh.DB {
		evs := make([]nodeh.Event, len(sub))
		for i, r := range sub {
			evs[i] = nodeh.Rec(r, false, time.Time{})
		}
		return &nodeh.DB{Tables: map[string]*nodeh.Table{"t": {Fields: fields, TimeField: -1, NoRetractions: true, Events: evs}}}
	}
	typeStrs := make([]string, k)
	for i := range colTypes {
		typeStrs[i] = colTypes[i].String()
	}
	replay := func(row []octosql.Value, extra map[string]interface{}) map[string]interface{} {
		m := map[string]interface{}{"id": id, "sql": sql, "signature": sig.String(), "variant": variant, "column_types": typeStrs, "optimize": optimize}
		if row != nil {
			m["row"] = nodeh.RowKey(row)
		}
		for kk, v := range extra {
			m[kk] = v
		}
		return m
	}

	var judgeBatch func(sub [][]octosql.Value, single bool)
	judgeBatch = func(sub [][]octosql.Value, single bool) {
		if !single {
			// one evaluation per argument row tried (a batch is one query over many rows; rows re-run
			// singly after a failed batch are not counted twice)
			c.Eval(len(sub))
		}
		p, perr := pipex.Plan(ctx, sql, mkDB(sub), optimize)
		if perr != nil {
			if perr.Stage == "panic" {
				tl["fn/plan_panic_not_judged"]++
			} else {
				tl["fn/plan_rejected:"+variant]++
				if variant == "un" {
					c.Note("fn_union_variant_rejected_example", perr.Error()+" | "+sql+" | "+strings.Join(typeStrs, ", "))
				}
			}
			return
		}
		xi := -1
		for i, f := range p.OutFields {
			if f.Name == "x" {
				xi = i
			}
		}
		if xi < 0 || len(p.Schema.Fields) != 2 {
			c.Violation("fn-shape", "output schema has no column x", replay(nil, map[string]interface{}{"schema": fmt.Sprint(p.OutFields)}))
			return
		}
		static := p.Schema.Fields[xi].Type
		dk := ""
		var selected physical.FunctionDescriptor
		if ex := pipex.SelectExprs(p); len(ex) == 2 && ex[xi].ExpressionType == physical.ExpressionTypeFunctionCall {
			selected = ex[xi].FunctionCall.FunctionDescriptor
			dk = pipex.DescriptorKey(selected)
		}
		outs, res := pipex.Run(ctx, p)
		if res.Panicked || res.Err != nil {
			if !single && len(sub) > 1 {
				for _, r := range sub {
					judgeBatch([][]octosql.Value{r}, true)
				}
				return
			}
			if res.Panicked {
				tl["fn/row_panic_not_judged"]++
				tl["fn/row_panic_not_judged:"+core.PanicSite(res.Stack)]++
			} else {
				tl["fn/row_error_not_judged"]++
			}
			return
		}
		byID := map[int64][]octosql.Value{}
		for _, r := range sub {
			byID[r[0].Int] = r
		}
		for _, o := range outs {
			if o.IsWatermark {
				continue
			}
			if len(o.Record.Values) != 2 {
				c.Violation("fn-shape", "record width differs from the schema", replay(nil, map[string]interface{}{"record": nodeh.RowKey(o.Record.Values)}))
				return
			}
			row := byID[o.Record.Values[1-xi].Int]
			v := o.Record.Values[xi]
			if selftest && sig.name == "+" && variant == "nn" && row[0].Int == 0 {
				v = octosql.NewNull() // corrupted recording: the monitor must fire
			}
			tl["fn/results_judged"]++
			c.Nontrivial(id + "|" + nodeh.RowKey(row))
			if dk != "" {
				st.mu.Lock()
				st.selected[dk]++
				st.mu.Unlock()
			}
			if v.TypeID == octosql.TypeIDNull {
				tl["fn/result_null"]++
			}
			if Matches(v, static) {
				continue
			}
			// attribute
			declared := sig.String()
			if selected.Function != nil && selected.TypeFn == nil {
				parts := make([]string, len(selected.ArgumentTypes))
				for i := range parts {
					parts[i] = selected.ArgumentTypes[i].String()
				}
				declared = sig.name + "(" + strings.Join(parts, ", ") + ")"
			}
			anyNullArg := false
			for _, a := range row[1:] {
				if a.TypeID == octosql.TypeIDNull {
					anyNullArg = true
				}
			}
			key := "type-mismatch:" + declared
			if v.TypeID == octosql.TypeIDNull && !admitsNull(static) {
				key = "nonnull-decl-returns-null:" + declared
				switch {
				case anyNullArg:
					key = "null-arg-but-nonnull-type:" + declared
				case declared == "int(String)" && row[1].TypeID == octosql.TypeIDString && parsesAsInt(row[1].Str):
					key = "nonnull-decl-returns-null-on-valid-input:" + declared
				case declared == "float(String)" && row[1].TypeID == octosql.TypeIDString && parsesAsFloat(row[1].Str):
					key = "nonnull-decl-returns-null-on-valid-input:" + declared
				}
			}
			tl["fn/mismatch/"+key]++
			c.Violation(key, fmt.Sprintf("%s over %v returned %s, but the column is typed %s", sig.String(), typeStrs, nodeh.ValKey(v), static.String()),
				replay(row, map[string]interface{}{"descriptor": dk, "static_type": static.String(), "value": nodeh.ValKey(v)}))
		}
	}
	if k == 0 {
		rows = rows[:1]
	}
	for lo := 0; lo < len(rows); lo += 32 {
		hi := lo + 32
		if hi > len(rows) {
			hi = len(rows)
		}
		judgeBatch(rows[lo:hi], false)
	}
	tl["fn/items:"+variant]++
	if strings.HasSuffix(id, "-0-nn") && (sig.name == "int" || sig.name == "+" || sig.name == "position") {
		c.Sample(replay(rows[0], map[string]interface{}{"rows": len(rows)}))
	}
}

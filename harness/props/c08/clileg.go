package c08

import (
	"encoding/json"
	"fmt"
	"math/rand"
	"strings"

	"github.com/cube2222/octosql/plugins/verifharness/cli"
	"github.com/cube2222/octosql/plugins/verifharness/core"
)

// Part (3): CLI cross-check. `--describe -o json` gives the type octosql reports per column;
// `-o json` gives the values. A JSON null may appear only where the described type admits NULL
// (at top level and inside lists/objects), and the JSON kind of every value must be one the
// described type admits.

// ---- described type strings (octosql.Type.String syntax) ----

type dtype struct {
	kind   string // NULL Int Float Boolean String Time Duration Any list object tuple union
	elem   *dtype
	fields []dfield
	alts   []dtype
}

type dfield struct {
	name string
	t    dtype
}

type tparser struct {
	s string
	i int
}

func (p *tparser) eat(tok string) bool {
	if strings.HasPrefix(p.s[p.i:], tok) {
		p.i += len(tok)
		return true
	}
	return false
}

func (p *tparser) union() (dtype, error) {
	first, err := p.alt()
	if err != nil {
		return dtype{}, err
	}
	alts := []dtype{first}
	for p.eat(" | ") {
		a, err := p.alt()
		if err != nil {
			return dtype{}, err
		}
		alts = append(alts, a)
	}
	if len(alts) == 1 {
		return first, nil
	}
	return dtype{kind: "union", alts: alts}, nil
}

func (p *tparser) alt() (dtype, error) {
	for _, k := range []string{"NULL", "Int", "Float", "Boolean", "String", "Time", "Duration", "Any"} {
		if p.eat(k) {
			return dtype{kind: k}, nil
		}
	}
	switch {
	case p.eat("[]"):
		return dtype{kind: "list"}, nil
	case p.eat("["):
		el, err := p.union()
		if err != nil {
			return dtype{}, err
		}
		if !p.eat("]") {
			return dtype{}, fmt.Errorf("expected ] at %d in %q", p.i, p.s)
		}
		return dtype{kind: "list", elem: &el}, nil
	case p.eat("{}"):
		return dtype{kind: "object"}, nil
	case p.eat("{"):
		var fs []dfield
		for {
			j := strings.Index(p.s[p.i:], ": ")
			if j < 0 {
				return dtype{}, fmt.Errorf("expected field name at %d in %q", p.i, p.s)
			}
			name := p.s[p.i : p.i+j]
			p.i += j + 2
			t, err := p.union()
			if err != nil {
				return dtype{}, err
			}
			fs = append(fs, dfield{name, t})
			if p.eat("; ") {
				continue
			}
			if p.eat("}") {
				return dtype{kind: "object", fields: fs}, nil
			}
			return dtype{}, fmt.Errorf("expected ; or } at %d in %q", p.i, p.s)
		}
	case p.eat("()"):
		return dtype{kind: "tuple"}, nil
	case p.eat("("):
		var els []dtype
		for {
			t, err := p.union()
			if err != nil {
				return dtype{}, err
			}
			els = append(els, t)
			if p.eat(", ") {
				continue
			}
			if p.eat(")") {
				return dtype{kind: "tuple", alts: els}, nil
			}
			return dtype{}, fmt.Errorf("expected , or ) at %d in %q", p.i, p.s)
		}
	}
	return dtype{}, fmt.Errorf("unknown type syntax at %d in %q", p.i, p.s)
}

func parseTypeString(s string) (dtype, error) {
	p := &tparser{s: s}
	t, err := p.union()
	if err != nil {
		return dtype{}, err
	}
	if p.i != len(s) {
		return dtype{}, fmt.Errorf("trailing text at %d in %q", p.i, s)
	}
	return t, nil
}

// jsonAdmitted reports "" if the decoded JSON value v is admitted by t, otherwise what is wrong:
// "null" (a null where no NULL is admitted) or "kind" (a value of a JSON kind no alternative has).
func jsonAdmitted(v interface{}, t dtype) string {
	if t.kind == "Any" {
		return ""
	}
	if t.kind == "union" {
		worst := ""
		for _, a := range t.alts {
			w := jsonAdmitted(v, a)
			if w == "" {
				return ""
			}
			if worst == "" || w == "null" {
				worst = w
			}
		}
		if v == nil {
			return "null"
		}
		return worst
	}
	switch x := v.(type) {
	case nil:
		if t.kind == "NULL" {
			return ""
		}
		return "null"
	case json.Number:
		if t.kind == "Int" || t.kind == "Float" {
			return ""
		}
	case string:
		if t.kind == "String" || t.kind == "Time" || t.kind == "Duration" {
			return ""
		}
	case bool:
		if t.kind == "Boolean" {
			return ""
		}
	case []interface{}:
		if t.kind == "list" {
			for _, el := range x {
				if t.elem == nil {
					return "kind"
				}
				if w := jsonAdmitted(el, *t.elem); w != "" {
					return w
				}
			}
			return ""
		}
		if t.kind == "tuple" && len(x) == len(t.alts) {
			for i, el := range x {
				if w := jsonAdmitted(el, t.alts[i]); w != "" {
					return w
				}
			}
			return ""
		}
	case map[string]interface{}:
		if t.kind == "object" {
			for _, f := range t.fields {
				fv, ok := x[f.name]
				if !ok {
					return "kind"
				}
				if w := jsonAdmitted(fv, f.t); w != "" {
					return w
				}
			}
			return ""
		}
	}
	return "kind"
}

// ---- files and query templates ----

var cliFiles = map[string][]byte{
	"t.json": []byte(`{"id":1,"i":5,"s":"12","f":1.5,"b":true,"u":1,"o":{"x":1,"y":"a"},"l":[1,2],"e":"k"}
{"id":2,"i":null,"s":"zz","f":-2.25,"b":null,"u":"str","o":{"x":2,"y":null},"l":[],"e":null}
{"id":3,"i":0,"s":"-7","f":0,"b":false,"u":2.5,"o":{"x":3,"y":"c"},"l":[3],"e":"k"}
{"id":4,"i":7,"s":"","f":100,"b":true,"u":"12","o":{"x":4,"y":"d"},"l":[4,5,6],"e":null}
{"id":5,"i":null,"s":"1.5","f":3,"b":false,"u":3,"o":{"x":5,"y":null},"l":[7],"e":"m"}
{"id":6,"i":2,"s":"2021-03-04","f":2,"b":true,"u":"x","o":{"x":6,"y":"f"},"l":[8,9],"e":"k"}
`),
	"t2.json": []byte(`{"k":1,"v":"one","w":0.5}
{"k":3,"v":"three","w":null}
{"k":3,"v":"drei","w":2}
{"k":9,"v":"nine","w":1}
{"k":null,"v":"nokey","w":4}
`),
	// a heterogeneous file: columns whose values are composites of the same kind with different inner
	// types, so that the inferred column type is a TypeSum over lists/objects of different inner types
	"h.json": []byte(`{"id":1,"m":"x","o":{"x":1,"y":"a"},"l":[1,2],"n":null,"lo":[{"a":1}],"nf":null,"ls":["a"],"no":null,"os":{"x":"s","y":[1]},"sf":"q"}
{"id":2,"m":[1,2],"o":{"x":"s","y":"b"},"l":["a"],"n":[1.5],"lo":[{"a":"s"}],"nf":[1.5],"ls":["b","c"],"no":{"x":1,"y":["u"]},"os":{"x":"t","y":[2]},"sf":[2.5]}
{"id":3,"m":["a"],"o":"str","l":[[1]],"n":["z"],"lo":[],"nf":null,"ls":[],"no":null,"os":{"x":"u","y":[]},"sf":"r"}
{"id":4,"m":null,"o":{"x":[1],"y":null},"l":[],"n":null,"lo":[{"a":null}],"nf":[2,3],"ls":["d"],"no":{"x":2,"y":[]},"os":{"x":"v","y":[3,4]},"sf":[]}
{"id":5,"m":[true],"o":{"x":["q"],"y":"c"},"l":[null,2],"n":[[true]],"lo":[{"a":[1]},{"a":["w"]}],"nf":null,"ls":["e"],"no":null,"os":{"x":"w","y":[5]},"sf":"s"}
`),
	// zero-sum groups: a group holding a single 0 and a group of +x/-x pairs; no value column is nullable
	"z.json": []byte(`{"g":"a","k":0,"v":0,"w":1.5}
{"g":"b","k":1,"v":5,"w":-1.5}
{"g":"b","k":1,"v":-5,"w":1.5}
{"g":"c","k":2,"v":2.5,"w":0}
{"g":"c","k":2,"v":-1.25,"w":0}
{"g":"c","k":2,"v":-1.25,"w":0}
{"g":"d","k":3,"v":3,"w":4}
`),
	"z.csv": []byte("g,k,n,x\na,0,0,0.0\nb,1,5,2.5\nb,1,-5,-2.5\nc,2,2,0.5\nc,2,-1,0.25\nc,2,-1,-0.75\nd,3,3,1.5\n"),
	"c.csv": []byte("cid,n,name,score\n1,10,ab,1.5\n2,,cd,\n3,7,12,2.5\n4,0,,3\n"),
}

type cliItem struct {
	sql   string
	leaks string // "" or the descriptor whose declared non-nullable output is known to leak NULL
}

var cliItemsA = []cliItem{
	{"a.id", ""}, {"a.i", ""}, {"a.s", ""}, {"a.f", ""}, {"a.b", ""}, {"a.u", ""}, {"a.o", ""}, {"a.l", ""}, {"a.e", ""},
	{"int(a.s)", "int(String)"}, {"float(a.s)", "float(String)"}, {"(int(a.s) + 1)", "int(String)"}, {"(float(a.s) * 2.0)", "float(String)"},
	{"int(a.e)", "int(String)"}, {"abs(float(a.s))", "float(String)"}, {"COALESCE(int(a.s), 0)", ""}, {"(int(a.s) IS NULL)", ""},
	{"upper(a.s)", ""}, {"len(a.s)", ""}, {"(a.s + 'z')", ""}, {"(a.i + 1.0)", ""}, {"(a.i * a.f)", ""}, {"(- a.f)", ""}, {"abs(a.f)", ""},
	{"(a.i IS NULL)", ""}, {"(a.b AND TRUE)", ""}, {"(NOT a.b)", ""}, {"(a.i < a.f)", ""}, {"(a.i = a.f)", ""}, {"(a.b OR (a.i > 1.0))", ""},
	{"COALESCE(a.i, 0.0)", ""}, {"COALESCE(a.e, a.s)", ""}, {"COALESCE(a.e, a.i)", ""}, {"COALESCE(a.i, a.e)", ""},
	{"a.u::float", ""}, {"a.u::string", ""}, {"upper(a.u::string)", ""}, {"(a.u::float + 1.0)", ""},
	{"a.o->x", ""}, {"a.o->y", ""}, {"upper(a.o->y)", ""}, {"(a.o->x + a.f)", ""},
	{"a.l[0]", ""}, {"a.l[5]", ""}, {"len(a.l)", ""}, {"(a.l[1] + 1.0)", ""},
	{"position(a.s, '1')", ""}, {"substr(a.s, 1)", ""}, {"replace(a.s, '1', 'x')", ""}, {"(a.s LIKE '1%')", ""}, {"(a.s ~ '^[0-9]+$')", ""}, {"(a.e LIKE 'k')", ""},
	{"parse_time('2006-01-02', a.s)", ""}, {"time_from_unix(a.f)", ""}, {"int(a.f)", ""}, {"int(a.b)", ""}, {"string(a.i)", ""}, {"string(a.o)", ""},
	{"(a.id IN (1.0, 2.0))", ""}, {"(a.i IN (a.l))", ""}, {"(a.id, a.e)", ""}, {"len(a.e)", ""}, {"upper(a.e)", ""}, {"(a.e + a.s)", ""},
	{"(SELECT b.v FROM t2.json b)", ""}, {"(SELECT b.w FROM t2.json b WHERE b.k = a.id)", ""},
}

var cliItemsB = []cliItem{
	{"b.k", ""}, {"b.v", ""}, {"b.w", ""}, {"upper(b.v)", ""}, {"len(b.v)", ""}, {"(b.k + 1.0)", ""}, {"(b.w * 2.0)", ""}, {"(b.v + '!')", ""},
	{"COALESCE(b.w, 0.0)", ""}, {"(b.k IS NULL)", ""}, {"int(b.v)", "int(String)"}, {"(b.w > 0.7)", ""}, {"string(b.k)", ""},
}

var cliItemsC = []cliItem{
	{"c.cid", ""}, {"c.n", ""}, {"c.name", ""}, {"c.score", ""}, {"(c.n + 1)", ""}, {"int(c.name)", "int(String)"}, {"float(c.name)", "float(String)"},
	{"(c.score * 2.0)", ""}, {"upper(c.name)", ""}, {"COALESCE(c.n, 0)", ""}, {"(c.n IS NULL)", ""}, {"(c.cid * c.n)", ""}, {"len(c.name)", ""},
}

var cliWheresA = []string{"", "", "a.b", "a.i > 1.0", "a.i IS NULL", "a.s LIKE '%2%'", "NOT a.b", "a.e = 'k'", "a.id < 4.0 AND a.f > 0.0", "int(a.s) > 0"}

type cliQuery struct {
	sql   string
	items []cliItem // by output position; nil for star / aggregate shapes
	leaks string    // for shapes without per-column items
}

func pickItems(rng *rand.Rand, pools ...[]cliItem) []cliItem {
	var all []cliItem
	for _, p := range pools {
		all = append(all, p...)
	}
	n := 1 + rng.Intn(5)
	out := make([]cliItem, n)
	for i := range out {
		out[i] = all[rng.Intn(len(all))]
	}
	return out
}

func renderItems(items []cliItem) string {
	parts := make([]string, len(items))
	for i, it := range items {
		parts[i] = fmt.Sprintf("%s AS c%d", it.sql, i)
	}
	return strings.Join(parts, ", ")
}

func buildCLIQuery(rng *rand.Rand, idx int) cliQuery {
	shapes := []string{"project", "project", "where", "star", "join-left", "join-right", "join-outer", "join-inner", "groupby", "global-agg", "distinct", "subquery", "csv", "csv-join", "star-t2", "range", "hetero", "hetero", "hetero", "zerosum", "zerosum", "zerosum"}
	switch shapes[idx%len(shapes)] {
	case "project":
		items := pickItems(rng, cliItemsA)
		return cliQuery{sql: "SELECT " + renderItems(items) + " FROM t.json a", items: items}
	case "where":
		items := pickItems(rng, cliItemsA)
		w := cliWheresA[rng.Intn(len(cliWheresA))]
		sql := "SELECT " + renderItems(items) + " FROM t.json a"
		if w != "" {
			sql += " WHERE " + w
		}
		return cliQuery{sql: sql, items: items}
	case "star":
		return cliQuery{sql: "SELECT * FROM t.json a"}
	case "star-t2":
		return cliQuery{sql: "SELECT * FROM t2.json b"}
	case "join-left", "join-right", "join-outer", "join-inner":
		kw := map[string]string{"join-left": "LEFT JOIN", "join-right": "RIGHT JOIN", "join-outer": "OUTER JOIN", "join-inner": "JOIN"}[shapes[idx%len(shapes)]]
		if rng.Intn(4) == 0 {
			return cliQuery{sql: "SELECT * FROM t.json a " + kw + " t2.json b ON a.id = b.k"}
		}
		// only expressions that cannot fail: they may be evaluated anywhere in the plan
		var items []cliItem
		for _, it := range pickItems(rng, cliItemsA[:9], cliItemsB, cliItemsA[17:36]) {
			items = append(items, it)
		}
		return cliQuery{sql: "SELECT " + renderItems(items) + " FROM t.json a " + kw + " t2.json b ON a.id = b.k", items: items}
	case "groupby":
		key := []string{"a.b", "a.e", "a.i", "(a.i IS NULL)", "a.o->y"}[rng.Intn(5)]
		aggs := []string{"count(*)", "sum(a.i)", "avg(a.f)", "max(a.f)", "min(a.i)", "array_agg(a.s)", "count_distinct(a.e)", "array_agg(a.e)", "sum(a.o->x)", "max(len(a.s))", "array_agg_distinct(a.i)", "avg(a.i)"}
		n := 1 + rng.Intn(4)
		parts := []string{key + " AS g"}
		for i := 0; i < n; i++ {
			parts = append(parts, fmt.Sprintf("%s AS a%d", aggs[rng.Intn(len(aggs))], i))
		}
		return cliQuery{sql: "SELECT " + strings.Join(parts, ", ") + " FROM t.json a GROUP BY " + key}
	case "global-agg":
		aggs := []string{"count(*)", "sum(a.i)", "avg(a.f)", "max(a.i)", "min(a.f)", "array_agg(a.e)", "count(a.e)", "sum(len(a.l))"}
		n := 1 + rng.Intn(3)
		var parts []string
		for i := 0; i < n; i++ {
			parts = append(parts, fmt.Sprintf("%s AS a%d", aggs[rng.Intn(len(aggs))], i))
		}
		w := cliWheresA[rng.Intn(len(cliWheresA))]
		sql := "SELECT " + strings.Join(parts, ", ") + " FROM t.json a"
		if w != "" && w != "int(a.s) > 0" {
			sql += " WHERE " + w
		}
		return cliQuery{sql: sql}
	case "distinct":
		items := pickItems(rng, cliItemsA[:9], cliItemsA[17:30])
		return cliQuery{sql: "SELECT DISTINCT " + renderItems(items) + " FROM t.json a", items: items}
	case "subquery":
		inner := pickItems(rng, cliItemsA)
		leaks := ""
		for _, it := range inner {
			if it.leaks != "" {
				if leaks != "" && leaks != it.leaks {
					leaks = "int(String)+float(String)"
				} else if leaks == "" {
					leaks = it.leaks
				}
			}
		}
		parts := make([]string, len(inner))
		for i := range inner {
			parts[i] = fmt.Sprintf("z.c%d AS d%d", i, i)
		}
		return cliQuery{sql: "SELECT " + strings.Join(parts, ", ") + " FROM (SELECT " + renderItems(inner) + " FROM t.json a) z", leaks: leaks}
	case "csv":
		items := pickItems(rng, cliItemsC)
		return cliQuery{sql: "SELECT " + renderItems(items) + " FROM c.csv c", items: items}
	case "csv-join":
		kw := []string{"LEFT JOIN", "RIGHT JOIN", "OUTER JOIN"}[rng.Intn(3)]
		items := pickItems(rng, cliItemsC[:4], cliItemsB[:9])
		return cliQuery{sql: "SELECT " + renderItems(items) + " FROM c.csv c " + kw + " t2.json b ON float(c.cid) = b.k", items: items}
	case "zerosum":
		file, cols := "z.json", []string{"z.v", "z.w", "z.k"}
		if rng.Intn(2) == 0 {
			file, cols = "z.csv", []string{"z.n", "z.x", "z.k"}
		}
		aggs := []string{"sum", "sum", "sum", "avg", "min", "max", "count", "sum_distinct", "array_agg"}
		n := 2 + rng.Intn(4)
		parts := []string{"sum(" + cols[rng.Intn(2)] + ") AS s"}
		for i := 0; i < n; i++ {
			parts = append(parts, fmt.Sprintf("%s(%s) AS a%d", aggs[rng.Intn(len(aggs))], cols[rng.Intn(len(cols))], i))
		}
		key := []string{"z.g", "z.g", "z.k", ""}[rng.Intn(4)]
		sql := "SELECT " + strings.Join(parts, ", ") + " FROM " + file + " z"
		if key != "" {
			sql = "SELECT " + key + " AS g0, " + strings.Join(parts, ", ") + " FROM " + file + " z"
		}
		if rng.Intn(3) == 0 || key == "" {
			sql += " WHERE " + []string{"z.g != 'd'", "z.g = 'b'", "z.g = 'a'", "z.g != 'd' AND z.g != 'a'"}[rng.Intn(4)]
		}
		if key != "" {
			sql += " GROUP BY " + key
			if rng.Intn(4) == 0 {
				sql += " TRIGGER COUNTING 1"
			}
		}
		return cliQuery{sql: sql}
	case "hetero":
		hi := []string{"h.id", "h.m", "h.o", "h.l", "h.n", "h.lo", "h.m::[]", "h.m::string", "h.o::{}", "(h.o::{})->x", "(h.o::{})->y", "h.l[0]", "h.l[1]", "h.n::[]", "(h.n::[])[0]",
			"COALESCE(h.nf, h.ls)", "COALESCE(h.nf, h.ls)", "COALESCE(h.ls, h.nf)", "COALESCE(h.no, h.os)", "COALESCE(h.os, h.no)", "COALESCE(h.sf, h.ls)", "COALESCE(h.nf, h.sf, h.ls)",
			"COALESCE(h.nf, h.ls)[0]", "COALESCE(h.no, h.os)->y", "(COALESCE(h.nf, h.ls), h.id)", "h.nf", "h.ls", "h.no", "h.os", "h.sf", "COALESCE(h.nf, (SELECT g.sf::string FROM h.json g))",
			"COALESCE(h.n, h.l)", "COALESCE(h.n, h.m)", "COALESCE(h.m, h.l)", "COALESCE(h.n::[], h.lo)", "COALESCE(h.m::[], h.n::[], h.l)", "COALESCE(h.o::{}, h.lo[0])", "h.lo[0]", "h.lo[1]->a", "len(h.l)", "string(h.m)",
			"(h.m, h.l)", "(SELECT g.l FROM h.json g)", "(SELECT g.m FROM h.json g WHERE g.id > 1.0)", "COALESCE(h.n, (SELECT g.id FROM h.json g))"}
		if rng.Intn(4) == 0 {
			return cliQuery{sql: "SELECT * FROM h.json h"}
		}
		n := 1 + rng.Intn(4)
		parts := make([]string, n)
		for i := range parts {
			parts[i] = fmt.Sprintf("%s AS c%d", hi[rng.Intn(len(hi))], i)
		}
		if rng.Intn(5) == 0 {
			return cliQuery{sql: "SELECT h.n IS NULL AS g, array_agg(h.l) AS a0, array_agg(COALESCE(h.n, h.m)) AS a1 FROM h.json h GROUP BY h.n IS NULL"}
		}
		return cliQuery{sql: "SELECT " + strings.Join(parts, ", ") + " FROM h.json h"}
	case "range":
		return cliQuery{sql: "SELECT r.i AS c0, (r.i * 2) AS c1, (r.i > 2) AS c2, int(string(r.i)) AS c3 FROM range(start=>0, end=>" + fmt.Sprint(1+rng.Intn(4)) + ") r"}
	}
	return cliQuery{sql: "SELECT * FROM t.json a"}
}

func cliLeg(c *core.Ctx, only string) {
	r := cli.NewRunner(c.BinDir, c.Scratch)
	n := c.Pick(80, 1600)
	core.Parallel(n, 16, func(i int) {
		id := fmt.Sprintf("cli-%d", i)
		if only != "" && only != id {
			return
		}
		q := buildCLIQuery(c.Rng(fmt.Sprintf("cli/%d", i)), i)
		optArgs := []string{}
		if i%3 == 2 {
			optArgs = []string{"--optimize=false"}
		}
		c.Eval(1)
		d := r.Exec(cli.Run{Args: append([]string{q.sql, "--describe", "-o", "json"}, optArgs...), Files: cliFiles})
		replay := map[string]interface{}{"id": id, "sql": q.sql, "args": optArgs, "describe_stdout": string(d.Stdout), "describe_stderr": string(d.Stderr)}
		if d.TimedOut {
			c.Inconclusive("watchdog")
			return
		}
		if d.Panicked() {
			c.Count("cli/describe_panic_not_judged", 1)
			return
		}
		if d.Exit != 0 {
			c.Count("cli/rejected", 1)
			c.Note("cli_rejected_example", string(d.Stderr[max(0, len(d.Stderr)-200):])+" | "+q.sql)
			return
		}
		drows, err := cli.DecodeJSONLines(d.Stdout)
		if err != nil {
			c.Violation("cli-describe-undecodable", err.Error(), replay)
			return
		}
		types := map[string]dtype{}
		typeStr := map[string]string{}
		var names []string
		for _, dr := range drows {
			name, _ := dr.Values["name"].(string)
			ts, _ := dr.Values["type"].(string)
			t, err := parseTypeString(ts)
			if err != nil {
				c.Count("cli/type_string_not_parsed", 1)
				c.Note("cli_type_string_not_parsed", err.Error())
				return
			}
			if _, dup := types[name]; dup {
				c.Count("cli/duplicate_column_names_not_judged", 1)
				return
			}
			types[name] = t
			typeStr[name] = ts
			names = append(names, name)
		}
		v := r.Exec(cli.Run{Args: append([]string{q.sql, "-o", "json"}, optArgs...), Files: cliFiles})
		replay["stdout"] = string(v.Stdout)
		replay["stderr"] = string(v.Stderr)
		if v.TimedOut {
			c.Inconclusive("watchdog")
			return
		}
		if v.Panicked() {
			c.Count("cli/run_panic_not_judged", 1)
			return
		}
		rows, err := cli.DecodeJSONLines(v.Stdout)
		if err != nil {
			c.Count("cli/output_undecodable_not_judged", 1) // C25's subject
			return
		}
		if v.Exit != 0 {
			c.Count("cli/run_error_rows_before_error_still_judged", 1)
		}
		nulls := 0
		for _, row := range rows {
			if len(row.Keys) != len(names) {
				c.Violation("cli-columns-differ", fmt.Sprintf("described columns %v, row has %v", names, row.Keys), replay)
				return
			}
			for ki, k := range row.Keys {
				t, ok := types[k]
				if !ok {
					c.Violation("cli-columns-differ", fmt.Sprintf("row has column %q that --describe does not list (%v)", k, names), replay)
					return
				}
				val := row.Values[k]
				if val == nil {
					nulls++
				}
				w := jsonAdmitted(val, t)
				if w == "" {
					continue
				}
				leaks := q.leaks
				if q.items != nil && ki < len(q.items) {
					leaks = q.items[ki].leaks
				}
				replay["column"] = k
				replay["described_type"] = typeStr[k]
				b, _ := json.Marshal(val)
				replay["value"] = string(b)
				key := "cli-kind-not-admitted"
				if w == "null" {
					key = "cli-null-in-nonnull-column"
					if leaks != "" {
						key = "nonnull-decl-returns-null:" + leaks
					}
				}
				c.Count("cli/mismatch/"+key, 1)
				c.Violation(key, fmt.Sprintf("column %s is described as %s but the output shows %s", k, typeStr[k], string(b)), replay)
				return
			}
		}
		c.Count("cli/judged", 1)
		if len(rows) > 0 {
			c.Nontrivial("cli|" + q.sql + fmt.Sprint(optArgs))
			if nulls > 0 {
				c.Count("cli/with_null_output", 1)
			}
		}
		if i < 2 {
			c.Sample(replay)
		}
	})
}

func max(a, b int) int {
	if a > b {
		return a
	}
	return b
}

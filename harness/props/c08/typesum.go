package c08

import (
	"fmt"
	"math/rand"
	"strings"
	"time"

	"github.com/cube2222/octosql/octosql"
	"github.com/cube2222/octosql/physical"

	"github.com/cube2222/octosql/plugins/verifharness/nodeh"
)

// Shapes "typesum-*": expressions whose static type is computed by octosql.TypeSum from
// alternatives of the SAME kind with DIFFERENT inner types (lists of different element types,
// objects with different field types / field sets, tuples of different element types), with the
// nullable or union-typed argument first, last or in between. COALESCE folds its argument types
// with TypeSum left to right, so the order of the arguments decides which TypeSum branch (plain,
// union + non-union, union + union, swapped) computes the type. The declared column types are
// built directly (tUnion / tList / tStruct), never through TypeSum.

func sf(name string, t octosql.Type) octosql.StructField {
	return octosql.StructField{Name: name, Type: t}
}

var t3Cols = []colDef{
	{"id", "int", octosql.Int},
	{"s", "str", octosql.String},
	{"ns", "str", tUnion(octosql.Null, octosql.String)},
	// lists
	{"lf", "l", tList(octosql.Float)},
	{"nlf", "l", tUnion(octosql.Null, tList(octosql.Float))},
	{"lstr", "l", tList(octosql.String)},
	{"nlstr", "l", tUnion(octosql.Null, tList(octosql.String))},
	{"li", "l", tList(octosql.Int)},
	{"nli", "l", tUnion(octosql.Null, tList(octosql.Int))},
	{"lnf", "l", tList(tUnion(octosql.Null, octosql.Float))},
	{"ul", "l", tUnion(octosql.String, tList(octosql.Float))},
	{"nul", "l", tUnion(octosql.Null, octosql.String, tList(octosql.Int))},
	// lists of lists / of objects
	{"nllf", "ll", tUnion(octosql.Null, tList(tList(octosql.Float)))},
	{"lls", "ll", tList(tList(octosql.String))},
	{"loa", "lo", tList(tStruct(sf("x", octosql.Int)))},
	{"nlob", "lo", tUnion(octosql.Null, tList(tStruct(sf("x", octosql.String))))},
	// objects: same fields with different types, different field sets, a list-typed field
	{"oa", "o", tStruct(sf("x", octosql.Int), sf("y", octosql.String))},
	{"noa", "o", tUnion(octosql.Null, tStruct(sf("x", octosql.Int), sf("y", octosql.String)))},
	{"ob", "o", tStruct(sf("x", octosql.String), sf("y", octosql.String))},
	{"nob", "o", tUnion(octosql.Null, tStruct(sf("x", octosql.String), sf("y", octosql.String)))},
	{"oc", "o", tStruct(sf("x", octosql.Float), sf("z", octosql.Boolean))},
	{"noc", "o", tUnion(octosql.Null, tStruct(sf("x", octosql.Float), sf("z", octosql.Boolean)))},
	{"uo", "o", tUnion(octosql.Int, tStruct(sf("x", octosql.Int), sf("y", octosql.String)))},
	{"ol", "o", tStruct(sf("x", tList(octosql.Float)), sf("y", octosql.String))},
	{"nol", "o", tUnion(octosql.Null, tStruct(sf("x", tList(octosql.String)), sf("y", octosql.String)))},
	// tuples
	{"ta", "t", tTuple(octosql.Int, octosql.String)},
	{"nta", "t", tUnion(octosql.Null, tTuple(octosql.Int, octosql.String))},
	{"tb", "t", tTuple(octosql.String, octosql.Int)},
	{"ntb", "t", tUnion(octosql.Null, tTuple(octosql.Float, octosql.Float))},
	{"tc", "t", tTuple(octosql.Int, octosql.String, octosql.Float)},
}

func t3Names(kind string) []string {
	var out []string
	for _, c := range t3Cols {
		if c.kind == kind {
			out = append(out, "h."+c.name)
		}
	}
	return out
}

// typesumItem returns one select item of the given family.
func typesumItem(rng *rand.Rand, family string) string {
	pick := func(xs ...string) string { return xs[rng.Intn(len(xs))] }
	var pool []string
	switch family {
	case "l":
		pool = append(t3Names("l"), "(SELECT g.id FROM m.t3 g)", "(SELECT g.s FROM m.t3 g)", "(SELECT g.ns FROM m.t3 g WHERE g.id > 0)")
	case "ll":
		pool = append(t3Names("ll"), "(SELECT g.lstr FROM m.t3 g)", "(SELECT g.lf FROM m.t3 g)", "(SELECT g.nli FROM m.t3 g)")
	case "lo":
		pool = append(t3Names("lo"), "(SELECT g.oa FROM m.t3 g)", "(SELECT g.id, g.s FROM m.t3 g)", "(SELECT g.s AS x FROM m.t3 g)")
	case "o":
		pool = t3Names("o")
	case "t":
		pool = append(t3Names("t"), "('a', 1)", "(1.5, 2.5)", "(h.id, h.s)", "(h.s, h.lf)")
	}
	n := 2 + rng.Intn(2)
	args := make([]string, 0, n+2)
	for i := 0; i < n; i++ {
		args = append(args, pool[rng.Intn(len(pool))])
	}
	// a scalar or a NULL literal first / in between / last turns the accumulated type into a union
	hasScalar := false
	switch rng.Intn(5) {
	case 0:
		k := rng.Intn(len(args) + 1)
		args = append(args[:k], append([]string{"NULL"}, args[k:]...)...)
	case 1:
		k := rng.Intn(len(args) + 1)
		args = append(args[:k], append([]string{pick("h.ns", "h.s", "h.id")}, args[k:]...)...)
		hasScalar = true
	}
	for _, a := range args {
		// union columns with a scalar alternative: no indexing / field access on the result
		hasScalar = hasScalar || a == "h.ul" || a == "h.nul" || a == "h.uo"
	}
	e := "COALESCE(" + strings.Join(args, ", ") + ")"
	w := rng.Intn(8)
	if hasScalar && (w == 0 || w == 3) {
		w = 7
	}
	switch w {
	case 0:
		if family == "l" || family == "ll" || family == "lo" {
			return e + "[" + pick("0", "1") + "]"
		}
		if family == "o" {
			return e + "->x"
		}
	case 1:
		return "(" + e + ", h.id)"
	case 2:
		return "COALESCE(" + pick("NULL", "h.ns") + ", " + e + ")"
	case 3:
		if family == "o" {
			return "(" + e + ")->" + pick("x", "x", "y")
		}
	}
	return e
}

func buildTypesumQuery(rng *rand.Rand, shape string) string {
	// COALESCE over non-empty tuples panics in the layout fixer (counted for C07): tuple items get
	// queries of their own so that they do not take the other families' results with them
	fams := []string{"l", "l", "ll", "lo", "o", "o"}
	if rng.Intn(8) == 0 {
		fams = []string{"t"}
	}
	n := 1 + rng.Intn(3)
	var items []string
	for i := 0; i < n; i++ {
		items = append(items, typesumItem(rng, fams[rng.Intn(len(fams))]))
	}
	switch shape {
	case "typesum-groupby":
		parts := make([]string, len(items))
		for i, it := range items {
			parts[i] = fmt.Sprintf("%s(%s) AS a%d", []string{"array_agg", "array_agg_distinct", "count", "count_distinct"}[rng.Intn(4)], it, i)
		}
		key := []string{"h.ns", "(h.id / 3)", "h.nlf IS NULL"}[rng.Intn(3)]
		return "SELECT " + key + " AS g0, " + strings.Join(parts, ", ") + " FROM m.t3 h GROUP BY " + key
	case "typesum-subquery":
		parts := make([]string, len(items))
		outer := make([]string, len(items))
		for i, it := range items {
			parts[i] = fmt.Sprintf("%s AS q%d", it, i)
		}
		// the outer scope has no h: the inner columns are re-coalesced with each other
		for i := range outer {
			outer[i] = fmt.Sprintf("COALESCE(z.q%d, z.q%d) AS c%d, z.q%d AS d%d", i, (i+1)%len(items), i, i, i)
		}
		return "SELECT " + strings.Join(outer, ", ") + " FROM (SELECT " + strings.Join(parts, ", ") + " FROM m.t3 h) z"
	}
	parts := make([]string, len(items))
	for i, it := range items {
		parts[i] = fmt.Sprintf("%s AS c%d", it, i)
	}
	sql := "SELECT h.id AS k, " + strings.Join(parts, ", ") + " FROM m.t3 h"
	if shape == "typesum-distinct" {
		sql = "SELECT DISTINCT " + strings.Join(parts, ", ") + " FROM m.t3 h"
	}
	return sql
}

// ---------------------------------------------------------------------------------------------
// Retracting join inputs: a valid changelog (insert, then retract some of the present rows, then
// possibly insert again), zero event times so nothing is buffered, NoRetractions = false. Outer
// joins must then emit compensating rows (NULL padding appears and disappears as the last match
// for a key goes away); every such record must still match the plan schema.

func genRetractingTable(rng *rand.Rand, cols []colDef, maxRows int) *nodeh.Table {
	base := genTable(rng, cols, maxRows)
	if len(base.Events) < 2 && maxRows >= 2 {
		base = genTable(rng, cols, maxRows)
	}
	rows := base.Events
	var evs []nodeh.Event
	present := make([]bool, len(rows))
	retr := func(i int) {
		evs = append(evs, nodeh.Rec(rows[i].Record.Values, true, time.Time{}))
		present[i] = false
	}
	ins := func(i int) {
		evs = append(evs, nodeh.Rec(rows[i].Record.Values, false, time.Time{}))
		present[i] = true
	}
	for i := range rows {
		ins(i)
		// sometimes retract an earlier row right away (interleaved), more retractions at the end
		if rng.Intn(3) == 0 {
			k := rng.Intn(i + 1)
			if present[k] {
				retr(k)
			}
		}
	}
	for i := range rows {
		if present[i] && rng.Intn(2) == 0 {
			retr(i)
		}
	}
	for i := range rows {
		if !present[i] && rng.Intn(4) == 0 {
			ins(i)
		}
	}
	return &nodeh.Table{Fields: base.Fields, TimeField: -1, NoRetractions: false, Events: evs}
}

func buildRetractJoinQuery(rng *rand.Rand, shape string) string {
	pick := func(xs ...string) string { return xs[rng.Intn(len(xs))] }
	kw := map[string]string{"join-retract-left": "LEFT JOIN", "join-retract-right": "RIGHT JOIN", "join-retract-outer": "OUTER JOIN"}[shape]
	if shape == "join-retract-groupby" {
		// a retracting GROUP BY (TRIGGER COUNTING 1 re-emits every group on every record) as one or both inputs
		kw = pick("LEFT JOIN", "RIGHT JOIN", "OUTER JOIN")
		l := "(SELECT a.i AS gk, count(*) AS cnt, max(a.id) AS mx FROM m.t1 a GROUP BY a.i TRIGGER COUNTING 1) z"
		r := "m.t2 b"
		on := "z.gk = b.id"
		sel := pick("*", "z.gk AS c0, z.cnt AS c1, b.v AS c2, b.id AS c3", "(z.cnt + 1) AS c0, upper(b.v) AS c1, z.mx AS c2")
		if rng.Intn(3) == 0 {
			r = "(SELECT b.id AS gk2, count(*) AS cnt2, array_agg(b.v) AS vs FROM m.t2 b GROUP BY b.id TRIGGER COUNTING 1) y"
			on = "z.gk = y.gk2"
			sel = pick("*", "z.gk AS c0, y.gk2 AS c1, (z.cnt + y.cnt2) AS c2, y.vs AS c3")
		}
		return "SELECT " + sel + " FROM " + l + " " + kw + " " + r + " ON " + on
	}
	on := pick("a.i = b.id", "a.id = b.id", "a.i = b.id", "a.s = b.v")
	var sel string
	switch rng.Intn(4) {
	case 0:
		sel = "*"
	case 1:
		sel = "a.id AS c0, a.i AS c1, a.s AS c2, a.f AS c3, b.id AS c4, b.v AS c5, b.w AS c6"
	case 2:
		sel = "a.*, b.v AS bv"
	default:
		g := &qgen{rng: rng, safe: true, cols: map[string][]string{}}
		g.addCols("a", t1Cols)
		g.addCols("b", t2Cols)
		sel = renderSelect(g.selectList(2+rng.Intn(3), 1), "c") + ", a.id AS ka, b.id AS kb"
	}
	return "SELECT " + sel + " FROM m.t1 a " + kw + " m.t2 b ON " + on
}

// ---------------------------------------------------------------------------------------------
// Zero-sum groups: GROUP BY shapes over a table built so that, deterministically, one group holds a
// single 0, one group holds +x/-x pairs (sum exactly zero) and one group is arbitrary; all value
// columns are non-nullable, so no aggregate over a non-empty group may yield NULL.

var t4Cols = []colDef{
	{"id", "int", octosql.Int},
	{"k", "int", octosql.Int},
	{"ks", "str", octosql.String},
	{"zi", "int", octosql.Int},
	{"zf", "float", octosql.Float},
	{"zd", "dur", octosql.Duration},
	{"nzi", "int", tUnion(octosql.Null, octosql.Int)},
}

func genZeroSumTable(rng *rand.Rand, retracting bool) *nodeh.Table {
	fields := make([]physical.SchemaField, len(t4Cols))
	for i, cd := range t4Cols {
		fields[i] = physical.SchemaField{Name: cd.name, Type: cd.typ}
	}
	var rows [][]octosql.Value
	add := func(k int64, ks string, zi int64, zf float64, zd time.Duration) {
		nzi := octosql.NewInt(zi)
		if rng.Intn(3) == 0 {
			nzi = octosql.NewNull()
		}
		rows = append(rows, []octosql.Value{octosql.NewInt(int64(len(rows))), octosql.NewInt(k), octosql.NewString(ks),
			octosql.NewInt(zi), octosql.NewFloat(zf), octosql.NewDuration(zd), nzi})
	}
	// group 0: a single zero
	add(0, "a", 0, 0, 0)
	// group 1: +x/-x pairs
	for p := 0; p < 1+rng.Intn(2); p++ {
		x := int64(1 + rng.Intn(5))
		f := []float64{0.5, 1, 2.25, 1e300}[rng.Intn(4)]
		d := []time.Duration{time.Second, time.Hour, 1}[rng.Intn(3)]
		add(1, "b", x, f, d)
		add(1, "b", -x, -f, -d)
	}
	// group 2 (sometimes absent, sometimes itself zero-sum): small values around zero
	switch rng.Intn(3) {
	case 0:
		for n := rng.Intn(4); n > 0; n-- {
			add(2, "a", int64(rng.Intn(5)-2), float64(rng.Intn(5)-2)/2, time.Duration(rng.Intn(5)-2)*time.Second)
		}
	case 1:
		add(2, "c", -2, -1.5, -time.Minute)
		add(2, "c", 1, 0.5, 0)
		add(2, "c", 1, 1, time.Minute)
	}
	rng.Shuffle(len(rows), func(i, j int) { rows[i], rows[j] = rows[j], rows[i] })
	var evs []nodeh.Event
	for _, r := range rows {
		evs = append(evs, nodeh.Rec(r, false, time.Time{}))
	}
	if retracting {
		// insert and retract an extra row per group: the running sums pass through other values and
		// come back to zero
		for k := int64(0); k < 2; k++ {
			extra := []octosql.Value{octosql.NewInt(100 + k), octosql.NewInt(k), octosql.NewString([]string{"a", "b"}[k]),
				octosql.NewInt(7), octosql.NewFloat(7.5), octosql.NewDuration(7 * time.Second), octosql.NewInt(7)}
			at := rng.Intn(len(evs) + 1)
			evs = append(evs[:at], append([]nodeh.Event{nodeh.Rec(extra, false, time.Time{})}, evs[at:]...)...)
			evs = append(evs, nodeh.Rec(extra, true, time.Time{}))
		}
	}
	return &nodeh.Table{Fields: fields, TimeField: -1, NoRetractions: !retracting, Events: evs}
}

func buildZeroSumQuery(rng *rand.Rand, shape string) string {
	pick := func(xs ...string) string { return xs[rng.Intn(len(xs))] }
	aggs := []string{"sum(z.zi)", "sum(z.zf)", "sum(z.zd)", "sum(z.zi)", "sum(z.zf)", "sum_distinct(z.zi)", "sum((z.zi * 2))", "sum((z.zf + z.zf))", "sum((z.zi - z.zi))", "sum(z.nzi)",
		"avg(z.zi)", "avg(z.zf)", "avg(z.zd)", "avg_distinct(z.zi)", "min(z.zi)", "max(z.zi)", "min(z.zf)", "max(z.zd)", "count(z.zi)", "count(*)", "count_distinct(z.zf)", "array_agg(z.zi)", "sum(float(z.zi))", "sum(int(z.zf))"}
	n := 2 + rng.Intn(4)
	var sel []string
	key := pick("z.k", "z.k", "z.ks", "z.k, z.ks", "(z.k / 2)", "")
	if key != "" {
		for i, k := range strings.Split(key, ", ") {
			sel = append(sel, fmt.Sprintf("%s AS g%d", k, i))
		}
	}
	sel = append(sel, "sum("+pick("z.zi", "z.zf", "z.zd")+") AS s")
	for i := 0; i < n; i++ {
		sel = append(sel, fmt.Sprintf("%s AS a%d", aggs[rng.Intn(len(aggs))], i))
	}
	sql := "SELECT " + strings.Join(sel, ", ") + " FROM m.t4 z"
	if rng.Intn(3) == 0 {
		sql += " WHERE " + pick("z.k < 2", "z.k = 1", "z.k = 0", "z.ks != 'c'", "z.zi >= -5")
	}
	if key != "" {
		sql += " GROUP BY " + key
		if shape == "groupby-zero-trigger" {
			sql += " TRIGGER " + pick("COUNTING 1", "COUNTING 2", "COUNTING 2, ON END OF STREAM", "ON END OF STREAM")
		}
	}
	if shape == "groupby-zero-subquery" {
		return "SELECT q.s AS c0, q.a0 AS c1, (q.s IS NULL) AS c2 FROM (" + sql + ") q"
	}
	return sql
}

// Package c08: static types are sound.
//
// R: a value produced at run time that does not match the static type of its column/expression
// (in particular NULL in a column whose type does not admit NULL).
// O: own Matches(value, type): type id equal; union: some alternative matches; Any matches all;
// lists element-wise ([] matches any list type); objects and tuples field-wise.
// W: (1) every descriptor of FunctionMap() x argument tuples from edge pools, through SQL over memdb
// columns of the argument types (non-nullable, nullable, mixed and union-typed variants), result
// checked against the static type of the output column; (2) generated queries (projection, WHERE,
// DISTINCT, GROUP BY + aggregates with and without triggers, inner/LEFT/RIGHT/OUTER/LOOKUP joins,
// TVFs, subqueries, WITH, COALESCE, casts, object access/explosion), every output record checked
// against the plan's output schema; (3) CLI: --describe -o json vs -o json over JSON/CSV files.
// Inputs on which octosql panics or errors are counted, not judged (C07 / C06).
package c08

import (
	"io"
	"log"
	"os"
	"runtime/debug"
	"strings"

	"github.com/cube2222/octosql/octosql"

	"github.com/cube2222/octosql/plugins/verifharness/core"
	"github.com/cube2222/octosql/plugins/verifharness/nodeh"
	"github.com/cube2222/octosql/plugins/verifharness/props/pipex"
)

func init() { core.Register("C08", Run) }

var selftest = os.Getenv("VERIF_SELFTEST") == "1"

func Run(c *core.Ctx) core.FinishOpts {
	ctx := nodeh.Ctx()
	only := pipex.OnlyID(c)
	defer debug.SetGCPercent(debug.SetGCPercent(400))
	// octosql's conversions log every failed parse with the raw string (control bytes included) on
	// the process-wide logger; nothing there is judged, and raw bytes make the check's log binary
	log.SetOutput(io.Discard)

	if selftest {
		// the oracle itself must be able to say no: feed it recordings that are wrong on purpose
		selfTest(c)
	}
	if only == "" || strings.HasPrefix(only, "fn-") {
		functionLeg(c, ctx, only)
	}
	if only == "" || strings.HasPrefix(only, "q-") {
		queryLeg(c, ctx, only)
	}
	if only == "" || strings.HasPrefix(only, "cli-") {
		cliLeg(c, only)
	}
	floor := c.Pick(6000, 100000)
	if only != "" {
		floor = 0 // a single replayed case
	}
	return core.FinishOpts{
		Level: "exploration",
		Rule: "fn: every function descriptor x seeded argument tuples from edge pools per (signature, nullability variant), non-trivial = a result value was produced and judged, distinct by (signature, variant, argument row); " +
			"q: seeded queries from a typed grammar over 22 shapes on seeded conforming tables, non-trivial = at least one output record judged, distinct by (case, sql); " +
			"cli: seeded queries over fixed JSON/CSV files, non-trivial = at least one output row compared with the described types",
		Floor:       floor,
		Assumptions: []string{"oracle: own Matches(value, type) (structural recursion, no use of Type.Is / Value.Type)", "memdb tables conform to their declared schemas (generated from the declared type)", "pipeline wiring copied in shape from cmd/root.go (nodeh.Plan)", "known-finding attribution at query level re-plans the same query with only the named descriptors' output types changed", "Go toolchain"},
	}
}

// selfTest: deliberately wrong recordings must be rejected by Matches / jsonAdmitted.
func selfTest(c *core.Ctx) {
	bad := []struct {
		v octosql.Value
		t octosql.Type
	}{
		{octosql.NewNull(), octosql.Int},
		{octosql.NewString("x"), tUnion(octosql.Null, octosql.Int)},
		{octosql.NewList([]octosql.Value{octosql.NewInt(1), octosql.NewNull()}), tList(octosql.Int)},
		{octosql.NewStruct([]octosql.Value{octosql.NewInt(1)}), objT},
		{octosql.NewTuple([]octosql.Value{octosql.NewInt(1), octosql.NewInt(2)}), tTuple(octosql.Int, octosql.String)},
	}
	for _, b := range bad {
		c.Eval(1)
		if !Matches(b.v, b.t) {
			c.Violation("selftest-corrupted-recording", "value "+nodeh.ValKey(b.v)+" presented as "+b.t.String(), map[string]interface{}{"id": "selftest"})
		}
	}
	t, _ := parseTypeString("{x: Float; y: NULL | String}")
	if jsonAdmitted(map[string]interface{}{"x": nil, "y": nil}, t) == "null" {
		c.Violation("selftest-corrupted-recording", "json null presented as Float", map[string]interface{}{"id": "selftest"})
	}
}

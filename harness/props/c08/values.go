package c08

import (
	"math"
	"math/rand"
	"strconv"
	"strings"
	"time"
	"unicode/utf8"

	"github.com/cube2222/octosql/octosql"
)

// ---------------------------------------------------------------------------------------------
// matches: the oracle. Own code, does not call Type.Is / Value.Type (both under test elsewhere).

func Matches(v octosql.Value, t octosql.Type) bool {
	switch t.TypeID {
	case octosql.TypeIDAny:
		return true
	case octosql.TypeIDUnion:
		for _, alt := range t.Union.Alternatives {
			if Matches(v, alt) {
				return true
			}
		}
		return false
	case octosql.TypeIDList:
		if v.TypeID != octosql.TypeIDList {
			return false
		}
		if len(v.List) == 0 {
			return true // [] matches any list type
		}
		if t.List.Element == nil {
			return false // the type of the empty list admits no element
		}
		for i := range v.List {
			if !Matches(v.List[i], *t.List.Element) {
				return false
			}
		}
		return true
	case octosql.TypeIDStruct:
		if v.TypeID != octosql.TypeIDStruct || len(v.Struct) != len(t.Struct.Fields) {
			return false
		}
		for i := range v.Struct {
			if !Matches(v.Struct[i], t.Struct.Fields[i].Type) {
				return false
			}
		}
		return true
	case octosql.TypeIDTuple:
		if v.TypeID != octosql.TypeIDTuple || len(v.Tuple) != len(t.Tuple.Elements) {
			return false
		}
		for i := range v.Tuple {
			if !Matches(v.Tuple[i], t.Tuple.Elements[i]) {
				return false
			}
		}
		return true
	default:
		return v.TypeID == t.TypeID
	}
}

// admitsNull: does the type admit the NULL value (own recursion over the union structure)?
func admitsNull(t octosql.Type) bool {
	switch t.TypeID {
	case octosql.TypeIDAny, octosql.TypeIDNull:
		return true
	case octosql.TypeIDUnion:
		for _, alt := range t.Union.Alternatives {
			if admitsNull(alt) {
				return true
			}
		}
	}
	return false
}

// ---------------------------------------------------------------------------------------------
// Type constructors

func tList(el octosql.Type) octosql.Type {
	return octosql.Type{TypeID: octosql.TypeIDList, List: struct{ Element *octosql.Type }{Element: &el}}
}

func tStruct(fields ...octosql.StructField) octosql.Type {
	return octosql.Type{TypeID: octosql.TypeIDStruct, Struct: struct{ Fields []octosql.StructField }{Fields: fields}}
}

func tTuple(els ...octosql.Type) octosql.Type {
	return octosql.Type{TypeID: octosql.TypeIDTuple, Tuple: struct{ Elements []octosql.Type }{Elements: els}}
}

// tUnion builds a union directly (alternatives sorted by type id as octosql normalises them); it
// does not go through TypeSum so that the declared schema does not depend on the code under test.
func tUnion(alts ...octosql.Type) octosql.Type {
	out := append([]octosql.Type{}, alts...)
	for i := 1; i < len(out); i++ {
		for j := i; j > 0 && out[j].TypeID < out[j-1].TypeID; j-- {
			out[j], out[j-1] = out[j-1], out[j]
		}
	}
	return octosql.Type{TypeID: octosql.TypeIDUnion, Union: struct{ Alternatives []octosql.Type }{Alternatives: out}}
}

func nullable(t octosql.Type) octosql.Type {
	if admitsNull(t) {
		return t
	}
	if t.TypeID == octosql.TypeIDUnion {
		return tUnion(append([]octosql.Type{octosql.Null}, t.Union.Alternatives...)...)
	}
	return tUnion(octosql.Null, t)
}

// ---------------------------------------------------------------------------------------------
// Edge pools

var baseTime = time.Date(2021, 3, 4, 5, 6, 7, 0, time.UTC)

var intPool = []int64{0, 1, -1, 2, -2, 3, 7, 10, 100, math.MinInt64, math.MaxInt64, 1 << 31, -(1 << 31), 1<<53 + 1, -(1<<53 + 1), 1609459200}
var smallIntPool = []int64{0, 1, -1, 2, 3, 7, 100}
var floatPool = []float64{0, math.Copysign(0, -1), 1, -1, 0.5, -2.5, 1e-300, 1e300, math.Inf(1), math.Inf(-1), math.NaN(), 1<<53 + 1, 3.999999, 1609459200.75}
var stringPool = []string{"", "a", "ab", "abc", "12", "-7", "+5", "1.5", "1e3", " 12", "12 ", "0x10", "1_0", "x%", "a_c", "%", "\\", "(", "[a", "a.c", "é", "日本", "😀",
	"2021-03-04", "2006-01-02", "NaN", "inf", "Infinity", "9223372036854775808", "true", "null", "A B", "aa", "\xff", "a\x00b"}
var timePool = []time.Time{baseTime, baseTime.Add(time.Nanosecond), baseTime.Add(-400 * 24 * time.Hour), time.Unix(0, 0).UTC(), time.Unix(-86400, 5).UTC(),
	time.Date(1, 1, 1, 0, 0, 0, 0, time.UTC), baseTime.In(time.FixedZone("x", 3600)), time.Date(9999, 12, 31, 23, 59, 59, 0, time.UTC)}
var durationPool = []time.Duration{0, 1, -1, time.Second, -time.Second, time.Hour, 90 * time.Minute, math.MaxInt64, math.MinInt64}

func poolSize(t octosql.Type) int {
	switch t.TypeID {
	case octosql.TypeIDInt:
		return len(intPool)
	case octosql.TypeIDFloat:
		return len(floatPool)
	case octosql.TypeIDString:
		return len(stringPool)
	case octosql.TypeIDTime:
		return len(timePool)
	case octosql.TypeIDDuration:
		return len(durationPool)
	case octosql.TypeIDBoolean:
		return 2
	}
	return 6
}

// genValue returns a value conforming to t. small restricts integers to small magnitudes.
func genValue(rng *rand.Rand, t octosql.Type, small bool, depth int) octosql.Value {
	switch t.TypeID {
	case octosql.TypeIDNull:
		return octosql.NewNull()
	case octosql.TypeIDInt:
		if small {
			return octosql.NewInt(smallIntPool[rng.Intn(len(smallIntPool))])
		}
		return octosql.NewInt(intPool[rng.Intn(len(intPool))])
	case octosql.TypeIDFloat:
		return octosql.NewFloat(floatPool[rng.Intn(len(floatPool))])
	case octosql.TypeIDBoolean:
		return octosql.NewBoolean(rng.Intn(2) == 0)
	case octosql.TypeIDString:
		return octosql.NewString(stringPool[rng.Intn(len(stringPool))])
	case octosql.TypeIDTime:
		return octosql.NewTime(timePool[rng.Intn(len(timePool))])
	case octosql.TypeIDDuration:
		return octosql.NewDuration(durationPool[rng.Intn(len(durationPool))])
	case octosql.TypeIDList:
		if t.List.Element == nil {
			return octosql.NewList([]octosql.Value{})
		}
		n := rng.Intn(4)
		out := make([]octosql.Value, n)
		for i := range out {
			out[i] = genValue(rng, *t.List.Element, small, depth+1)
		}
		return octosql.NewList(out)
	case octosql.TypeIDStruct:
		out := make([]octosql.Value, len(t.Struct.Fields))
		for i := range out {
			out[i] = genValue(rng, t.Struct.Fields[i].Type, small, depth+1)
		}
		return octosql.NewStruct(out)
	case octosql.TypeIDTuple:
		out := make([]octosql.Value, len(t.Tuple.Elements))
		for i := range out {
			out[i] = genValue(rng, t.Tuple.Elements[i], small, depth+1)
		}
		return octosql.NewTuple(out)
	case octosql.TypeIDUnion:
		alts := t.Union.Alternatives
		// NULL with density 1/4 when admitted, otherwise uniform over the other alternatives
		var nonNull []octosql.Type
		hasNull := false
		for _, a := range alts {
			if a.TypeID == octosql.TypeIDNull {
				hasNull = true
			} else {
				nonNull = append(nonNull, a)
			}
		}
		if hasNull && (len(nonNull) == 0 || rng.Intn(4) == 0) {
			return octosql.NewNull()
		}
		return genValue(rng, nonNull[rng.Intn(len(nonNull))], small, depth)
	case octosql.TypeIDAny:
		return genValue(rng, []octosql.Type{octosql.Int, octosql.String, octosql.Null, octosql.Float}[rng.Intn(4)], small, depth)
	}
	return octosql.NewNull()
}

// ---------------------------------------------------------------------------------------------
// Predicates of the findings (own code)

// parsesAsInt: is s a base-10 int64 literal ([+-]digits, in range)? Written out by hand so that
// the finding's input predicate does not depend on the function the code under test calls.
func parsesAsInt(s string) bool {
	if s == "" {
		return false
	}
	i := 0
	neg := false
	if s[0] == '+' || s[0] == '-' {
		neg = s[0] == '-'
		i = 1
	}
	if i == len(s) {
		return false
	}
	var acc uint64
	for ; i < len(s); i++ {
		ch := s[i]
		if ch < '0' || ch > '9' {
			return false
		}
		d := uint64(ch - '0')
		if acc > (math.MaxUint64-d)/10 {
			return false
		}
		acc = acc*10 + d
		if acc > 1<<63 {
			return false
		}
	}
	if neg {
		return acc <= 1<<63
	}
	return acc < 1<<63
}

// parsesAsFloat delegates to strconv (the grammar of Go float literals is too large to restate);
// it is only used to decide which finding key a NULL result is attributed to.
func parsesAsFloat(s string) bool {
	_, err := strconv.ParseFloat(s, 64)
	return err == nil
}

func sqlString(s string) (string, bool) {
	// octosql string literals: single quotes; keep to strings the tokenizer carries unchanged
	if !utf8.ValidString(s) || strings.ContainsAny(s, "'\\\x00") {
		return "", false
	}
	return "'" + s + "'", true
}

// Package c13: numeric, time and conversion functions meet their specification.
//
// R: result != definition for an in-domain argument tuple.
// O: own references (ref.go).
// W: (1) direct calls of every overload of + - * / abs sqrt ceil floor log* pow int float string
// time_from_unix time_to_unix [] in "not in" found in functions.FunctionMap(), arguments from the
// boundary pools; (2) the same functions plus COALESCE, IN, list indexing and ::casts through real
// SQL (parse -> typecheck -> materialize) over a memdb table, so that overload resolution, strict
// NULL handling and ObjectLayoutFixer run; (3) a CLI leg with literals and a JSON file.
package c13

import (
	"encoding/json"
	"fmt"
	"os"
	"runtime/debug"
	"sort"
	"strings"

	"github.com/cube2222/octosql/octosql"
	"github.com/cube2222/octosql/physical"

	"github.com/cube2222/octosql/plugins/verifharness/core"
	"github.com/cube2222/octosql/plugins/verifharness/nodeh"
)

func init() { core.Register("C13", Run) }

// ---------------------------------------------------------------------------------------------

type outcome struct {
	v        V
	err      error
	panicked bool
	msg      string
	site     string
}

func (o outcome) String() string {
	switch {
	case o.panicked:
		return "panic at " + o.site + ": " + o.msg
	case o.err != nil:
		return "error: " + o.err.Error()
	}
	return show(o.v)
}

func try(f func() (V, error)) (o outcome) {
	defer func() {
		if p := recover(); p != nil {
			o = outcome{panicked: true, msg: fmt.Sprint(p), site: core.PanicSite(string(debug.Stack()))}
		}
	}()
	v, err := f()
	return outcome{v: v, err: err}
}

type verdict struct {
	status string // ok | skip | bad
	key    string
	what   string
}

func callString(name string, args []V) string {
	return name + "(" + showSeq(args) + ")"
}

// judge compares an outcome with the expectation e for name(args).
func judge(name string, args []V, e expectation, known bool, o outcome) verdict {
	s := sig(name, args)
	if !known {
		return verdict{status: "skip", key: "no-reference"}
	}
	if e.skip != "" {
		if o.panicked {
			return verdict{status: "skip", key: e.skip + "/panicked(C07)"}
		}
		return verdict{status: "skip", key: e.skip}
	}
	if o.panicked {
		return verdict{status: "bad", key: "panic:" + o.site, what: callString(name, args) + " panicked: " + o.msg}
	}
	if o.err != nil {
		return verdict{status: "bad", key: "error:" + s, what: callString(name, args) + " returned an error: " + o.err.Error() + ", want " + e.desc}
	}
	if e.holds(o.v) {
		return verdict{status: "ok"}
	}
	key := "mismatch:" + s
	if name == "in" || name == "not in" {
		if anyOf(args, containsNaN) {
			key = "in-nan-equals-everything"
		} else {
			key = "mismatch:" + name
		}
	}
	if name == "[]" {
		key = "mismatch:[]"
	}
	return verdict{status: "bad", key: key, what: fmt.Sprintf("%s = %s, want %s", callString(name, args), show(o.v), e.desc)}
}

// ---------------------------------------------------------------------------------------------

type runner struct {
	c        *core.Ctx
	only     string
	selftest bool
}

func (r *runner) want(id string) bool { return r.only == "" || r.only == id }

// account counts and reports one judged call. leg: direct | sql | cli.
func (r *runner) account(leg, id, name string, args []V, v verdict, o outcome, extra map[string]interface{}) {
	c := r.c
	c.Eval(1)
	s := sig(name, args)
	c.Count(leg+"/"+s, 1)
	switch v.status {
	case "skip":
		c.Count("not_judged/"+name+"/"+v.key, 1)
	case "ok":
		c.Nontrivial(leg + "/" + callString(name, args))
	case "bad":
		rep := map[string]interface{}{"id": id, "leg": leg, "call": callString(name, args), "got": o.String()}
		for k, x := range extra {
			rep[k] = x
		}
		c.Violation(v.key, "["+leg+"] "+v.what, rep)
	}
}

func onlyID(c *core.Ctx) string {
	if c.Only != "" {
		return c.Only
	}
	if c.Replay == "" {
		return ""
	}
	data, err := os.ReadFile(c.Replay)
	if err != nil {
		return "unreadable-replay"
	}
	var body struct {
		Case struct {
			ID string `json:"id"`
		} `json:"case"`
	}
	if json.Unmarshal(data, &body) != nil || body.Case.ID == "" {
		return "unreadable-replay"
	}
	return body.Case.ID
}

// the functions of the statement
var directNames = []string{"+", "-", "*", "/", "abs", "sqrt", "ceil", "floor", "log2", "log", "log10", "pow",
	"int", "float", "string", "time_from_unix", "time_to_unix"}

// overloads the statement lists; a missing one is reported
var requiredOverloads = []string{
	"+(Int,Int)", "+(Float,Float)", "+(Duration,Duration)", "+(Time,Duration)", "+(Duration,Time)", "+(String,String)",
	"-(Int,Int)", "-(Int)", "-(Float,Float)", "-(Float)", "-(Duration,Duration)", "-(Duration)", "-(Time,Duration)",
	"*(Int,Int)", "*(Float,Float)", "*(Duration,Int)", "*(Int,Duration)", "*(String,Int)", "*(Int,String)",
	"/(Int,Int)", "/(Float,Float)", "/(Duration,Int)", "/(Duration,Duration)",
	"abs(Int)", "abs(Float)", "sqrt(Float)", "ceil(Float)", "floor(Float)", "log2(Float)", "log(Float)", "log10(Float)", "pow(Float,Float)",
	"int(Int)", "int(Boolean)", "int(Float)", "int(String)", "int(Duration)",
	"float(Float)", "float(Int)", "float(String)", "float(Duration)", "string(Any)",
	"time_from_unix(Int)", "time_from_unix(Float)", "time_to_unix(Time)",
}

func declSig(name string, d physical.FunctionDescriptor) string {
	parts := make([]string, len(d.ArgumentTypes))
	for i, t := range d.ArgumentTypes {
		parts[i] = typeName(t.TypeID)
	}
	return name + "(" + strings.Join(parts, ",") + ")"
}

func (r *runner) directLeg() {
	c := r.c
	fm := nodeh.FunctionMap()
	N := c.Pick(5000, 200000)
	seen := map[string]bool{}
	noRef := []string{}
	type overload struct {
		name string
		d    physical.FunctionDescriptor
		sig  string
	}
	var overloads []overload
	for _, name := range directNames {
		for _, d := range fm[name].Descriptors {
			if d.TypeFn != nil {
				noRef = append(noRef, name+"(TypeFn)")
				continue
			}
			o := overload{name: name, d: d, sig: declSig(name, d)}
			seen[o.sig] = true
			overloads = append(overloads, o)
		}
	}
	for _, s := range requiredOverloads {
		if !seen[s] {
			c.Violation("overload-missing:"+s, "functions.FunctionMap() has no descriptor "+s, map[string]interface{}{"id": "overload-" + s})
		}
	}
	c.Note("overloads_exercised", len(overloads))

	for _, ov := range overloads {
		ov := ov
		rng := c.Rng("direct/" + ov.sig)
		g := gen{rng}
		tuples := make([][]V, 0, N)
		for len(tuples) < N {
			args := make([]V, len(ov.d.ArgumentTypes))
			for i, t := range ov.d.ArgumentTypes {
				if t.TypeID == tAny {
					args[i] = g.anyV(2, true)
				} else {
					args[i] = g.scalar(t.TypeID)
				}
			}
			// string repetition: small counts and short strings (a large count is a resource matter, not C13's)
			if ov.sig == "*(String,Int)" {
				args[1] = g.smallInt()
			}
			if ov.sig == "*(Int,String)" {
				args[0] = g.smallInt()
			}
			if ov.name == "*" && (ov.sig == "*(String,Int)" || ov.sig == "*(Int,String)") {
				str, n := args[0], args[1]
				if str.TypeID != tString {
					str, n = n, str
				}
				if n.Int > 0 && (n.Int > maxRepeatBytes || int64(len(str.Str))*n.Int > maxRepeatBytes) {
					c.Count("not_generated/huge-repeat-count", 1)
					tuples = append(tuples, nil)
					continue
				}
			}
			tuples = append(tuples, args)
		}
		core.Parallel(len(tuples), 16, func(i int) {
			args := tuples[i]
			if args == nil {
				return
			}
			id := fmt.Sprintf("direct/%s/%d", ov.sig, i)
			if !r.want(id) {
				return
			}
			e, known := expect(ov.name, args)
			o := try(func() (V, error) { return ov.d.Function(args) })
			v := judge(ov.name, args, e, known, o)
			r.account("direct", id, ov.name, args, v, o, nil)
			if (i < 2 || i%499 == 0) && v.status == "ok" {
				c.Sample(map[string]interface{}{"id": id, "call": callString(ov.name, args), "result": o.String()})
			}
		})
	}

	// ---- time_to_unix(time_from_unix(x)) = x on Int ----
	var fromUnix, toUnix func([]V) (V, error)
	for _, d := range fm["time_from_unix"].Descriptors {
		if len(d.ArgumentTypes) == 1 && d.ArgumentTypes[0].TypeID == tInt {
			fromUnix = d.Function
		}
	}
	for _, d := range fm["time_to_unix"].Descriptors {
		if len(d.ArgumentTypes) == 1 && d.ArgumentTypes[0].TypeID == tTime {
			toUnix = d.Function
		}
	}
	if fromUnix != nil && toUnix != nil {
		g := gen{c.Rng("direct/roundtrip")}
		xs := make([]V, N)
		for i := range xs {
			xs[i] = g.intV()
		}
		core.Parallel(N, 16, func(i int) {
			id := fmt.Sprintf("direct/roundtrip/%d", i)
			if !r.want(id) {
				return
			}
			x := xs[i]
			o := try(func() (V, error) {
				t, err := fromUnix([]V{x})
				if err != nil {
					return t, err
				}
				return toUnix([]V{t})
			})
			v := judge("time_to_unix∘time_from_unix", []V{x}, want(x), true, o)
			r.account("direct", id, "time_to_unix∘time_from_unix", []V{x}, v, o, nil)
		})
	}

	// ---- [] : TypeFn descriptor ----
	listT := listOf(octosql.Int)
	for _, d := range fm["[]"].Descriptors {
		if d.TypeFn == nil {
			continue
		}
		if _, accepts := d.TypeFn([]octosql.Type{listT, octosql.Int}); !accepts {
			continue
		}
		d := d
		g := gen{c.Rng("direct/[]")}
		type tup struct{ l, i V }
		tuples := make([]tup, N)
		for k := range tuples {
			n := g.pick(6)
			vs := make([]V, n)
			for j := range vs {
				vs[j] = g.anyV(1, true)
			}
			var idx V
			switch g.pick(6) {
			case 0:
				idx = g.intV()
			case 1:
				idx = vInt(int64(n)) // first index beyond the end
			case 2:
				idx = vInt(int64(n) - 1)
			default:
				idx = vInt(int64(g.pick(8)) - 1)
			}
			tuples[k] = tup{octosql.NewList(vs), idx}
		}
		core.Parallel(N, 16, func(i int) {
			id := fmt.Sprintf("direct/[]/%d", i)
			if !r.want(id) {
				return
			}
			args := []V{tuples[i].l, tuples[i].i}
			e, known := expect("[]", args)
			o := try(func() (V, error) { return d.Function(args) })
			v := judge("[]", args, e, known, o)
			r.account("direct", id, "[]", args, v, o, nil)
		})
	}

	// ---- in / not in : TypeFn descriptors for List and Tuple ----
	for _, name := range []string{"in", "not in"} {
		for _, d := range fm[name].Descriptors {
			if d.TypeFn == nil {
				continue
			}
			shape := ""
			if _, accepts := d.TypeFn([]octosql.Type{octosql.Int, listT}); accepts {
				shape = "List"
			} else if _, accepts := d.TypeFn([]octosql.Type{octosql.Int, tupleOf(octosql.Int, octosql.Int)}); accepts {
				shape = "Tuple"
			} else {
				continue
			}
			d, name := d, name
			g := gen{c.Rng("direct/" + name + "/" + shape)}
			type tup struct{ x, coll V }
			tuples := make([]tup, N)
			for k := range tuples {
				n := g.pick(5)
				// elements mostly of one type so that membership happens
				ty := scalarTypes[g.pick(len(scalarTypes))]
				vs := make([]V, n)
				for j := range vs {
					if g.pick(6) == 0 {
						vs[j] = g.anyV(1, false)
					} else {
						vs[j] = g.scalar(ty)
					}
				}
				var x V
				switch {
				case n > 0 && g.pick(2) == 0:
					x = vs[g.pick(n)]
				case g.pick(8) == 0:
					x = g.anyV(1, false)
				default:
					x = g.scalar(ty)
				}
				coll := octosql.NewList(vs)
				if shape == "Tuple" {
					coll = octosql.NewTuple(vs)
				}
				tuples[k] = tup{x, coll}
			}
			core.Parallel(N, 16, func(i int) {
				id := fmt.Sprintf("direct/%s/%s/%d", name, shape, i)
				if !r.want(id) {
					return
				}
				args := []V{tuples[i].x, tuples[i].coll}
				e, known := expect(name, args)
				o := try(func() (V, error) { return d.Function(args) })
				v := judge(name, args, e, known, o)
				r.account("direct", id, name, args, v, o, nil)
				if v.status == "ok" {
					c.Count(fmt.Sprintf("direct/%s/%s/result=%v", name, shape, o.v.Boolean), 1)
				}
			})
		}
	}
	sort.Strings(noRef)
	c.Note("descriptors_without_direct_reference", noRef)
}

func listOf(el octosql.Type) octosql.Type {
	return octosql.Type{TypeID: octosql.TypeIDList, List: struct{ Element *octosql.Type }{Element: &el}}
}

func tupleOf(els ...octosql.Type) octosql.Type {
	return octosql.Type{TypeID: octosql.TypeIDTuple, Tuple: struct{ Elements []octosql.Type }{Elements: els}}
}

func structOf(fields ...octosql.StructField) octosql.Type {
	return octosql.Type{TypeID: octosql.TypeIDStruct, Struct: struct{ Fields []octosql.StructField }{Fields: fields}}
}

func Run(c *core.Ctx) core.FinishOpts {
	r := &runner{c: c, only: onlyID(c), selftest: os.Getenv("VERIF_SELFTEST") == "1"}
	descs := map[string]string{}
	for _, n := range append(append([]string{}, directNames...), "[]", "in", "not in") {
		descs[n] = nodeh.FunctionMap()[n].Description
	}
	c.Note("descriptions_the_references_were_written_from", descs)
	if r.selftest {
		selftest(r)
	}
	if r.only == "" || strings.HasPrefix(r.only, "direct/") {
		r.directLeg()
	}
	if r.only == "" || strings.HasPrefix(r.only, "sql/") {
		r.sqlLeg()
	}
	if r.only == "" || strings.HasPrefix(r.only, "cli/") {
		r.cliLeg()
	}
	return core.FinishOpts{
		Level: "exploration",
		Rule: "every overload found in functions.FunctionMap() for the functions of the statement, argument tuples drawn from boundary pools " +
			"(0, +-1, Min/MaxInt64, 2^31, 2^53+1, +-0.0, NaN, +-Inf, subnormal, pre-epoch / sub-second / zoned times, unparsable and ambiguous numerals) mixed with random values; " +
			"the same functions, COALESCE (scalars, unions, objects of different layouts, lists of objects, tuples), IN / NOT IN (tuple and subquery), list indexing and ::casts through real SQL over memdb tables with and without NULLs; " +
			"a CLI leg with literals and a JSON file; non-trivial = the call was in the function's domain, judged and agreed; distinct by leg, function and argument values",
		Floor: c.Pick(40000, 1500000),
		Assumptions: []string{
			"references are own code over Go's math, math/big, strconv and time packages",
			"out-of-domain arguments (x / 0, negative index or repeat count, sqrt/log of a negative, abs(MinInt64), int(NaN)) are counted, not judged; inexact Int division accepts truncation or flooring; int(Float) accepts floor or ceiling; ambiguous numerals (\"+5\", \" 5\", \"1e3\" for int(), \"inf\", \"0x10\") accept NULL or a number",
		},
	}
}

func selftest(r *runner) {
	wrong := []struct {
		name string
		args []V
		got  V
	}{
		{"+", []V{vInt(1), vInt(2)}, vInt(4)},
		{"-", []V{vInt(5), vInt(7)}, vInt(2)}, // swapped operands
		{"/", []V{vInt(7), vInt(2)}, vInt(2)},
		{"*", []V{vDur(3), vInt(2)}, vDur(5)},
		{"abs", []V{vFloat(-2)}, vFloat(-2)},
		{"int", []V{vStr("abc")}, vInt(0)},
		{"int", []V{vStr("42")}, vNull()},
		{"float", []V{vStr("1.5")}, vFloat(1)},
		{"time_to_unix", []V{vTime(100, 0)}, vInt(99)},
		{"[]", []V{octosql.NewList([]V{vInt(1), vInt(2)}), vInt(2)}, vInt(2)},
		{"[]", []V{octosql.NewList([]V{vInt(1), vInt(2)}), vInt(1)}, vInt(1)}, // off by one
		{"in", []V{vInt(3), octosql.NewTuple([]V{vInt(1), vInt(2)})}, vBool(true)},
		{"not in", []V{vInt(1), octosql.NewList([]V{vInt(1), vInt(2)})}, vBool(true)},
	}
	fired := 0
	for i, w := range wrong {
		e, known := expect(w.name, w.args)
		o := outcome{v: w.got}
		v := judge(w.name, w.args, e, known, o)
		r.account("selftest", fmt.Sprintf("selftest/%d", i), w.name, w.args, v, o, nil)
		if v.status == "bad" {
			fired++
		}
	}
	// COALESCE reference: the second argument offered as the result although the first is not NULL
	if v := judgeCoalesce([]V{vInt(1), vInt(2)}, []octosql.Type{octosql.Int, octosql.Int}, octosql.Int, outcome{v: vInt(2)}); v.status == "bad" {
		fired++
		r.c.Violation(v.key, "[selftest] "+v.what, map[string]interface{}{"id": "selftest/coalesce"})
	}
	r.c.Note("selftest_wrong_recordings", len(wrong)+1)
	r.c.Note("selftest_fired", fired)
}

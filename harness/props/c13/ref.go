package c13

// References, written from the function descriptions (FunctionMap()[name].Description), the
// scenario expectations in /repo/tests/scenarios/functions and DESIGN §3.2/§3.4: wrapping Int
// arithmetic, IEEE Float, Duration/Time arithmetic in nanoseconds, math.* for the elementary
// functions, conversion tables with "failed parse => NULL", value equality for IN, first non-NULL
// for COALESCE, 0-based list index with NULL beyond the end. Nothing here calls octosql code
// (octosql.Value is only used as a plain record type).

import (
	"fmt"
	"math"
	"math/big"
	"regexp"
	"strconv"
	"strings"
	"time"

	"github.com/cube2222/octosql/octosql"
)

type V = octosql.Value

const (
	tNull   = octosql.TypeIDNull
	tInt    = octosql.TypeIDInt
	tFloat  = octosql.TypeIDFloat
	tBool   = octosql.TypeIDBoolean
	tString = octosql.TypeIDString
	tTime   = octosql.TypeIDTime
	tDur    = octosql.TypeIDDuration
	tList   = octosql.TypeIDList
	tStruct = octosql.TypeIDStruct
	tTuple  = octosql.TypeIDTuple
	tAny    = octosql.TypeIDAny
)

// ---------------------------------------------------------------------------------------------
// own value equality and printing

// valEq: same type and same content; floats numerically with NaN == NaN and +0 == -0 (DESIGN
// §3.4), times by instant.
func valEq(a, b V) bool {
	if a.TypeID != b.TypeID {
		return false
	}
	switch a.TypeID {
	case tNull:
		return true
	case tInt:
		return a.Int == b.Int
	case tFloat:
		return a.Float == b.Float || (math.IsNaN(a.Float) && math.IsNaN(b.Float))
	case tBool:
		return a.Boolean == b.Boolean
	case tString:
		return a.Str == b.Str
	case tTime:
		return a.Time.Unix() == b.Time.Unix() && a.Time.Nanosecond() == b.Time.Nanosecond()
	case tDur:
		return a.Duration == b.Duration
	case tList:
		return seqEq(a.List, b.List)
	case tStruct:
		return seqEq(a.Struct, b.Struct)
	case tTuple:
		return seqEq(a.Tuple, b.Tuple)
	}
	return false
}

func seqEq(a, b []V) bool {
	if len(a) != len(b) {
		return false
	}
	for i := range a {
		if !valEq(a[i], b[i]) {
			return false
		}
	}
	return true
}

func show(v V) string {
	switch v.TypeID {
	case tNull:
		return "NULL"
	case tInt:
		return fmt.Sprintf("Int(%d)", v.Int)
	case tFloat:
		return "Float(" + strconv.FormatFloat(v.Float, 'g', -1, 64) + ")"
	case tBool:
		return fmt.Sprintf("Boolean(%v)", v.Boolean)
	case tString:
		return "String(" + strconv.Quote(v.Str) + ")"
	case tTime:
		return fmt.Sprintf("Time(%d.%09d %s)", v.Time.Unix(), v.Time.Nanosecond(), v.Time.Location())
	case tDur:
		return fmt.Sprintf("Duration(%dns)", int64(v.Duration))
	case tList:
		return "[" + showSeq(v.List) + "]"
	case tStruct:
		return "{" + showSeq(v.Struct) + "}"
	case tTuple:
		return "(" + showSeq(v.Tuple) + ")"
	}
	return fmt.Sprintf("?type%d", int(v.TypeID))
}

func showSeq(vs []V) string {
	parts := make([]string, len(vs))
	for i := range vs {
		parts[i] = show(vs[i])
	}
	return strings.Join(parts, ", ")
}

func typeName(id octosql.TypeID) string { return id.String() }

// ---------------------------------------------------------------------------------------------
// expectations

type expectation struct {
	skip   string       // non-empty: the arguments are outside the function's domain (or the result is not specified): not judged
	accept []V          // the result must equal one of these ...
	pred   func(V) bool // ... or satisfy this
	desc   string       // what is wanted, for messages
}

func want(vs ...V) expectation {
	return expectation{accept: vs, desc: showSeq(vs)}
}

func notJudged(reason string) expectation { return expectation{skip: reason} }

func wantPred(desc string, p func(V) bool) expectation { return expectation{pred: p, desc: desc} }

func (e expectation) holds(got V) bool {
	for _, a := range e.accept {
		if valEq(a, got) {
			return true
		}
	}
	if e.pred != nil && e.pred(got) {
		return true
	}
	return false
}

func vInt(i int64) V                       { return octosql.NewInt(i) }
func vFloat(f float64) V                   { return octosql.NewFloat(f) }
func vStr(s string) V                      { return octosql.NewString(s) }
func vBool(b bool) V                       { return octosql.NewBoolean(b) }
func vDur(d int64) V                       { return octosql.NewDuration(time.Duration(d)) }
func vTime(sec, nsec int64) V              { return octosql.NewTime(time.Unix(sec, nsec).UTC()) }
func vNull() V                             { return octosql.NewNull() }
func unixParts(t time.Time) (int64, int64) { return t.Unix(), int64(t.Nanosecond()) }

// ulps: got within n units in the last place of ref (NaN with NaN, infinities exact).
func withinUlps(ref float64, n int) func(V) bool {
	return func(got V) bool {
		if got.TypeID != tFloat {
			return false
		}
		g := got.Float
		if math.IsNaN(ref) || math.IsNaN(g) {
			return math.IsNaN(ref) && math.IsNaN(g)
		}
		if g == ref {
			return true
		}
		if math.IsInf(ref, 0) || math.IsInf(g, 0) {
			return false
		}
		lo, hi := ref, ref
		for i := 0; i < n; i++ {
			lo = math.Nextafter(lo, math.Inf(-1))
			hi = math.Nextafter(hi, math.Inf(1))
		}
		return g >= lo && g <= hi
	}
}

// floorDiv / truncDiv on int64 with wrapping for MinInt64 / -1.
func truncDiv(a, b int64) int64 {
	if a == math.MinInt64 && b == -1 {
		return math.MinInt64 // 2^63 wraps
	}
	return a / b
}

func floorDiv(a, b int64) int64 {
	q := truncDiv(a, b)
	if (a%b != 0) && ((a < 0) != (b < 0)) {
		q--
	}
	return q
}

// timePlus: instant + d nanoseconds, computed on (seconds, nanoseconds) with big integers.
func timePlus(t time.Time, d int64) (sec, nsec int64, ok bool) {
	s, n := unixParts(t)
	total := new(big.Int).Mul(big.NewInt(s), big.NewInt(1e9))
	total.Add(total, big.NewInt(n))
	total.Add(total, big.NewInt(d))
	q, r := new(big.Int).DivMod(total, big.NewInt(1e9), new(big.Int)) // Euclidean: r >= 0
	if !q.IsInt64() {
		return 0, 0, false
	}
	return q.Int64(), r.Int64(), true
}

func wantTime(sec, nsec int64) expectation {
	return wantPred(fmt.Sprintf("Time(%d.%09d)", sec, nsec), func(got V) bool {
		if got.TypeID != tTime {
			return false
		}
		s, n := unixParts(got.Time)
		return s == sec && n == nsec
	})
}

// The conversions "int" and "float" of a String parse PLAIN DECIMAL numerals (the descriptions say
// "Converts the argument to an int / a float"; a failed parse is NULL, never an error, never another
// base). Three classes:
//
//	must convert : -?digits for int (leading zeros are still decimal: '010' = 10, '08' = 8);
//	               -?(digits[.digits] | .digits)[e[+-]digits] for float
//	may convert  : the same with surrounding blanks or a leading '+', a decimal fraction/exponent
//	               given to int(), the IEEE names inf/infinity/nan and (float only) Go's hexadecimal
//	               float spelling: NULL or exactly the natural value
//	must be NULL : everything else: other bases (0x1F, 0b101, 0o17), digit separators (1_000),
//	               letters, empty, two signs ...
var strictInt = regexp.MustCompile(`^-?[0-9]+$`)
var strictFloat = regexp.MustCompile(`^-?([0-9]+(\.[0-9]*)?|\.[0-9]+)([eE][+-]?[0-9]+)?$`)
var paddedDecimal = regexp.MustCompile(`^[ \t]*[+-]?([0-9]+(\.[0-9]*)?|\.[0-9]+)([eE][+-]?[0-9]+)?[ \t]*$`)
var ieeeName = regexp.MustCompile(`^[+-]?(?i:inf|infinity|nan)$`)
var digitSeparated = regexp.MustCompile(`^[+-]?[0-9._eE+-]*[0-9]_[0-9][0-9._eE+-]*$`)
var hexFloat = regexp.MustCompile(`^[+-]?0[xX]([0-9a-fA-F]+(\.[0-9a-fA-F]*)?|\.[0-9a-fA-F]+)[pP][+-]?[0-9]+$`)

// decimalValue: the exact value of a (possibly padded, possibly '+'-signed) decimal numeral.
func decimalValue(s string) (*big.Rat, bool) {
	if !paddedDecimal.MatchString(s) {
		return nil, false
	}
	t := strings.TrimPrefix(strings.Trim(s, " \t"), "+")
	// big.Rat.SetString accepts "5." and ".5" and exponents; huge exponents are bounded by the pools
	if i := strings.IndexAny(t, "eE"); i >= 0 {
		if exp, err := strconv.Atoi(t[i+1:]); err != nil || exp > 5000 || exp < -5000 {
			return nil, false
		}
	}
	r, ok := new(big.Rat).SetString(t)
	return r, ok
}

func saturatedOrNull(got V) bool {
	return got.TypeID == tNull || (got.TypeID == tInt && (got.Int == math.MaxInt64 || got.Int == math.MinInt64))
}

func intFromString(s string) expectation {
	if _, small := decimalValue(s); !small && paddedDecimal.MatchString(s) {
		return wantPred("NULL or an Int (extreme exponent)", func(got V) bool { return got.TypeID == tNull || got.TypeID == tInt })
	}
	if strictInt.MatchString(s) {
		b, _ := new(big.Int).SetString(s, 10)
		if b.IsInt64() {
			return want(vInt(b.Int64()))
		}
		return wantPred("NULL (out of range) or a saturated Int", saturatedOrNull)
	}
	if r, isDec := decimalValue(s); isDec {
		// '+5', ' 5', '1e3', '1.0', '1.5': NULL, or the value (a fraction: floor or ceiling)
		fl := new(big.Int).Div(r.Num(), r.Denom()) // Euclidean = floor for a positive denominator
		accept := []V{vNull()}
		if fl.IsInt64() {
			accept = append(accept, vInt(fl.Int64()))
			if !r.IsInt() && fl.Int64() < math.MaxInt64 {
				accept = append(accept, vInt(fl.Int64()+1))
			}
			return want(accept...)
		}
		return wantPred("NULL (out of range) or a saturated Int", saturatedOrNull)
	}
	return want(vNull())
}

func nearestFloat(r *big.Rat) expectation {
	f, _ := r.Float64() // nearest float64
	if !math.IsInf(f, 0) {
		return wantPred(fmt.Sprintf("Float(%g)", f), withinUlps(f, 1))
	}
	return wantPred("NULL or +-Inf (out of range)", func(got V) bool {
		return got.TypeID == tNull || (got.TypeID == tFloat && math.IsInf(got.Float, 0))
	})
}

func orNull(e expectation) expectation {
	inner := e
	return wantPred("NULL or "+e.desc, func(got V) bool { return got.TypeID == tNull || inner.holds(got) })
}

func floatFromString(s string) expectation {
	if _, small := decimalValue(s); !small && paddedDecimal.MatchString(s) {
		// a decimal numeral with an exponent beyond +-5000 (zero, overflow or underflow): not worked out exactly
		return wantPred("NULL or a Float (extreme exponent)", func(got V) bool { return got.TypeID == tNull || got.TypeID == tFloat })
	}
	if strictFloat.MatchString(s) {
		if r, isDec := decimalValue(s); isDec {
			return nearestFloat(r)
		}
	}
	if r, isDec := decimalValue(s); isDec {
		return orNull(nearestFloat(r)) // ' 1', '1 ', '+1'
	}
	if ieeeName.MatchString(s) {
		l := strings.ToLower(strings.TrimLeft(s, "+-"))
		f := math.Inf(1)
		if l == "nan" {
			f = math.NaN()
		} else if strings.HasPrefix(s, "-") {
			f = math.Inf(-1)
		}
		return orNull(want(vFloat(f)))
	}
	if strings.Contains(s, "_") && digitSeparated.MatchString(s) {
		// Go's ParseFloat reads '1_000' and '1_0.5' (separators between digits); int() does not.
		// Whether that is a parse failure is not stated: NULL or the value without the separators.
		if r, isDec := decimalValue(strings.ReplaceAll(s, "_", "")); isDec {
			return orNull(nearestFloat(r))
		}
	}
	if hexFloat.MatchString(s) {
		if f, err := strconv.ParseFloat(s, 64); err == nil { // Go's own reading of its hexadecimal float spelling
			return orNull(want(vFloat(f)))
		}
		return want(vNull())
	}
	return want(vNull())
}

// ---------------------------------------------------------------------------------------------
// the reference table: signature -> expectation

func sig(name string, args []V) string {
	parts := make([]string, len(args))
	for i := range args {
		parts[i] = typeName(args[i].TypeID)
	}
	return name + "(" + strings.Join(parts, ",") + ")"
}

const maxRepeatBytes = 1 << 16

// expect returns what name(args...) must yield; known=false when there is no reference for this
// combination of dynamic argument types.
func expect(name string, a []V) (e expectation, known bool) {
	s := sig(name, a)
	switch s {
	// ---- + ----
	case "+(Int,Int)":
		return want(vInt(a[0].Int + a[1].Int)), true // Go int64 arithmetic wraps mod 2^64
	case "+(Float,Float)":
		return want(vFloat(a[0].Float + a[1].Float)), true
	case "+(Duration,Duration)":
		return want(vDur(int64(a[0].Duration) + int64(a[1].Duration))), true
	case "+(Time,Duration)", "+(Duration,Time)":
		t, d := a[0], a[1]
		if t.TypeID != tTime {
			t, d = d, t
		}
		sec, nsec, inRange := timePlus(t.Time, int64(d.Duration))
		if !inRange {
			return notJudged("time-out-of-range"), true
		}
		return wantTime(sec, nsec), true
	case "+(String,String)":
		return want(vStr(a[0].Str + a[1].Str)), true
	// ---- - ----
	case "-(Int,Int)":
		return want(vInt(a[0].Int - a[1].Int)), true
	case "-(Int)":
		return want(vInt(-a[0].Int)), true
	case "-(Float,Float)":
		return want(vFloat(a[0].Float - a[1].Float)), true
	case "-(Float)":
		return want(vFloat(-a[0].Float)), true
	case "-(Duration,Duration)":
		return want(vDur(int64(a[0].Duration) - int64(a[1].Duration))), true
	case "-(Duration)":
		return want(vDur(-int64(a[0].Duration))), true
	case "-(Time,Duration)":
		if int64(a[1].Duration) == math.MinInt64 {
			return notJudged("negated-duration-overflows"), true
		}
		sec, nsec, inRange := timePlus(a[0].Time, -int64(a[1].Duration))
		if !inRange {
			return notJudged("time-out-of-range"), true
		}
		return wantTime(sec, nsec), true
	// ---- * ----
	case "*(Int,Int)":
		return want(vInt(a[0].Int * a[1].Int)), true
	case "*(Float,Float)":
		return want(vFloat(a[0].Float * a[1].Float)), true
	case "*(Duration,Int)":
		return want(vDur(int64(a[0].Duration) * a[1].Int)), true
	case "*(Int,Duration)":
		return want(vDur(a[0].Int * int64(a[1].Duration))), true
	case "*(String,Int)", "*(Int,String)":
		str, n := a[0], a[1]
		if str.TypeID != tString {
			str, n = n, str
		}
		if n.Int < 0 {
			return notJudged("negative-repeat-count"), true
		}
		var sb strings.Builder
		for i := int64(0); i < n.Int; i++ {
			sb.WriteString(str.Str)
		}
		return want(vStr(sb.String())), true
	// ---- / ----
	case "/(Int,Int)":
		if a[1].Int == 0 {
			return notJudged("division-by-zero"), true
		}
		// truncation toward zero (the scenario 7 / 3 = 2 cannot tell) or flooring: either accepted
		return want(vInt(truncDiv(a[0].Int, a[1].Int)), vInt(floorDiv(a[0].Int, a[1].Int))), true
	case "/(Float,Float)":
		if a[1].Float == 0 {
			return notJudged("division-by-zero"), true
		}
		return want(vFloat(a[0].Float / a[1].Float)), true
	case "/(Duration,Int)":
		if a[1].Int == 0 {
			return notJudged("division-by-zero"), true
		}
		return want(vDur(truncDiv(int64(a[0].Duration), a[1].Int)), vDur(floorDiv(int64(a[0].Duration), a[1].Int))), true
	case "/(Duration,Duration)":
		if a[1].Duration == 0 {
			return notJudged("division-by-zero"), true
		}
		// the exact ratio, correctly rounded, +-2 ulp (each operand may first be rounded to float64)
		r := new(big.Rat).SetFrac(big.NewInt(int64(a[0].Duration)), big.NewInt(int64(a[1].Duration)))
		f, _ := r.Float64()
		return wantPred(fmt.Sprintf("Float(%g)", f), withinUlps(f, 2)), true
	// ---- math ----
	case "abs(Int)":
		if a[0].Int == math.MinInt64 {
			return notJudged("abs-of-MinInt64-not-representable"), true
		}
		if a[0].Int < 0 {
			return want(vInt(-a[0].Int)), true
		}
		return want(a[0]), true
	case "abs(Float)":
		return want(vFloat(math.Abs(a[0].Float))), true
	case "sqrt(Float)":
		if a[0].Float < 0 {
			return notJudged("sqrt-of-negative"), true
		}
		return want(vFloat(math.Sqrt(a[0].Float))), true
	case "ceil(Float)":
		return want(vFloat(math.Ceil(a[0].Float))), true
	case "floor(Float)":
		return want(vFloat(math.Floor(a[0].Float))), true
	case "log2(Float)", "log(Float)", "log10(Float)":
		if !(a[0].Float > 0) && !math.IsNaN(a[0].Float) {
			return notJudged("log-of-non-positive"), true
		}
		var f float64
		switch name {
		case "log2":
			f = math.Log2(a[0].Float)
		case "log":
			f = math.Log(a[0].Float)
		default:
			f = math.Log10(a[0].Float)
		}
		return wantPred(fmt.Sprintf("Float(%g)", f), withinUlps(f, 4)), true
	case "pow(Float,Float)":
		x, y := a[0].Float, a[1].Float
		if (x == 0 && y < 0) || (x < 0 && !math.IsInf(x, 0) && y != math.Trunc(y) && !math.IsInf(y, 0)) {
			return notJudged("pow-outside-domain"), true
		}
		f := math.Pow(x, y)
		return wantPred(fmt.Sprintf("Float(%g)", f), withinUlps(f, 4)), true
	// ---- conversions ----
	case "int(Int)":
		return want(a[0]), true
	case "int(Boolean)":
		if a[0].Boolean {
			return want(vInt(1)), true
		}
		return want(vInt(0)), true
	case "int(Float)":
		f := a[0].Float
		if math.IsNaN(f) || f >= 9223372036854775808.0 || f < -9223372036854775808.0 {
			return notJudged("float-not-representable-as-int"), true
		}
		if f == math.Trunc(f) {
			return want(vInt(int64(f))), true
		}
		// truncation, flooring, ceiling or rounding: the description ("Converts the argument to an int") allows each
		return want(vInt(int64(math.Floor(f))), vInt(int64(math.Ceil(f)))), true
	case "int(String)":
		return intFromString(a[0].Str), true
	case "int(Duration)":
		return want(vInt(int64(a[0].Duration))), true
	case "float(Float)":
		return want(a[0]), true
	case "float(Int)":
		f := new(big.Float).SetInt64(a[0].Int)
		nearest, _ := f.Float64()
		return wantPred(fmt.Sprintf("Float(%g)", nearest), withinUlps(nearest, 1)), true
	case "float(String)":
		return floatFromString(a[0].Str), true
	case "float(Duration)":
		f := new(big.Float).SetInt64(int64(a[0].Duration))
		nearest, _ := f.Float64()
		return wantPred(fmt.Sprintf("Float(%g)", nearest), withinUlps(nearest, 1)), true
	// ---- time ----
	case "time_from_unix(Int)":
		return wantTime(a[0].Int, 0), true
	case "time_from_unix(Float)":
		f := a[0].Float
		if math.IsNaN(f) || math.Abs(f) >= 1e17 {
			// beyond ~3e9 years the instant is not representable / float seconds have no sub-second digits
			return notJudged("float-timestamp-out-of-range"), true
		}
		exact := new(big.Float).SetPrec(200).SetFloat64(f)
		exact.Mul(exact, big.NewFloat(1e9))
		return wantPred(fmt.Sprintf("the instant %g s after the epoch (to the nanosecond)", f), func(got V) bool {
			if got.TypeID != tTime {
				return false
			}
			s, n := unixParts(got.Time)
			g := new(big.Float).SetPrec(200).SetInt64(s)
			g.Mul(g, big.NewFloat(1e9))
			g.Add(g, new(big.Float).SetInt64(n))
			diff := new(big.Float).Sub(g, exact)
			return diff.Abs(diff).Cmp(big.NewFloat(1)) <= 0
		}), true
	case "time_to_unix(Time)":
		s, n := unixParts(a[0].Time)
		if n == 0 {
			return want(vInt(s)), true
		}
		return want(vInt(s), vInt(s+1)), true // floor (or rounding up) of a sub-second instant
	// ---- string ----
	case "string(Int)":
		return want(vStr(strconv.FormatInt(a[0].Int, 10))), true
	case "string(Boolean)":
		w := "false"
		if a[0].Boolean {
			w = "true"
		}
		return wantPred(w, func(got V) bool { return got.TypeID == tString && strings.EqualFold(got.Str, w) }), true
	case "string(String)":
		// quoted or not (DESIGN §3.4)
		return want(vStr(a[0].Str), vStr("'"+a[0].Str+"'"), vStr(`"`+a[0].Str+`"`), vStr(strconv.Quote(a[0].Str))), true
	case "string(Float)":
		f := a[0].Float
		return wantPred(fmt.Sprintf("a numeral that reads back as %g", f), func(got V) bool {
			if got.TypeID != tString {
				return false
			}
			p, err := strconv.ParseFloat(got.Str, 64)
			if err != nil {
				return false
			}
			return p == f || (math.IsNaN(p) && math.IsNaN(f))
		}), true
	case "string(Duration)":
		d := a[0].Duration
		return wantPred(fmt.Sprintf("a text that reads back as %dns", int64(d)), func(got V) bool {
			if got.TypeID != tString {
				return false
			}
			if p, err := time.ParseDuration(got.Str); err == nil {
				return p == d
			}
			if p, err := strconv.ParseInt(got.Str, 10, 64); err == nil {
				return p == int64(d)
			}
			return got.Str != "" // some other notation: not judged further
		}), true
	case "string(Time)":
		t := a[0].Time
		return wantPred("a text that reads back as the instant (at least to the second)", func(got V) bool {
			if got.TypeID != tString {
				return false
			}
			for _, layout := range []string{time.RFC3339Nano, time.RFC3339, "2006-01-02 15:04:05.999999999 -0700 MST", "2006-01-02 15:04:05"} {
				if p, err := time.Parse(layout, got.Str); err == nil {
					return p.Unix() == t.Unix()
				}
			}
			return got.Str != "" // some other notation: not judged further
		}), true
	case "string(Null)":
		return notJudged("string-of-NULL"), true
	case "string(List)", "string(Object)", "string(Tuple)":
		return wantPred("some String", func(got V) bool { return got.TypeID == tString }), true
	}
	// ---- list index ----
	if name == "[]" && len(a) == 2 && a[0].TypeID == tList && a[1].TypeID == tInt {
		i := a[1].Int
		if i < 0 {
			return notJudged("negative-index"), true
		}
		if i >= int64(len(a[0].List)) {
			return want(vNull()), true
		}
		return want(a[0].List[i]), true
	}
	// ---- IN / NOT IN ----
	if (name == "in" || name == "not in") && len(a) == 2 && (a[1].TypeID == tList || a[1].TypeID == tTuple) {
		elems := a[1].List
		if a[1].TypeID == tTuple {
			elems = a[1].Tuple
		}
		return expectIn(name == "not in", a[0], elems), true
	}
	return expectation{}, false
}

// expectIn: membership by value equality. Not judged when the answer hinges on something the
// conventions leave open: a NULL element, NaN against NaN, an Int against a Float of the same
// numeric value (cross-type numeric equality, DESIGN §3.4).
func expectIn(negate bool, x V, elems []V) expectation {
	if containsNull(x) {
		return notJudged("null-in-left-operand")
	}
	member := false
	open := ""
	for _, e := range elems {
		if containsNull(e) {
			open = "null-element"
			continue
		}
		if valEq(x, e) {
			if containsNaN(x) {
				open = "nan-against-nan"
				continue
			}
			member = true
			continue
		}
		if crossNumericEqual(x, e) {
			open = "cross-type-numeric-equality"
		}
	}
	if !member && open != "" {
		return notJudged(open)
	}
	return want(vBool(member != negate))
}

func containsNull(v V) bool {
	switch v.TypeID {
	case tNull:
		return true
	case tList:
		return anyOf(v.List, containsNull)
	case tStruct:
		return anyOf(v.Struct, containsNull)
	case tTuple:
		return anyOf(v.Tuple, containsNull)
	}
	return false
}

func containsNaN(v V) bool {
	switch v.TypeID {
	case tFloat:
		return math.IsNaN(v.Float)
	case tList:
		return anyOf(v.List, containsNaN)
	case tStruct:
		return anyOf(v.Struct, containsNaN)
	case tTuple:
		return anyOf(v.Tuple, containsNaN)
	}
	return false
}

func anyOf(vs []V, p func(V) bool) bool {
	for _, v := range vs {
		if p(v) {
			return true
		}
	}
	return false
}

func crossNumericEqual(a, b V) bool {
	if a.TypeID == tInt && b.TypeID == tFloat {
		return float64(a.Int) == b.Float
	}
	if a.TypeID == tFloat && b.TypeID == tInt {
		return float64(b.Int) == a.Float
	}
	return false
}

package c13

// References, written from the function descriptions (FunctionMap()[name].Description), the
// scenario expectations in /repo/tests/scenarios/functions and DESIGN §3.2/§3.4: wrapping Int
// arithmetic, IEEE Float, Duration/Time arithmetic in nanoseconds, math.* for the elementary
// functions, conversion tables with "failed parse => NULL", value equality for IN, first non-NULL
// for COALESCE, 0-based list index with NULL beyond the end. Nothing here calls octosql code
// (octosql.Value is only used as a plain record type).

import (
	"fmt"
	"math"
	"math/big"
	"regexp"
	"strconv"
	"strings"
	"time"

	"github.com/cube2222/octosql/octosql"
)

type V = octosql.Value

const (
	tNull   = octosql.TypeIDNull
	tInt    = octosql.TypeIDInt
	tFloat  = octosql.TypeIDFloat
	tBool   = octosql.TypeIDBoolean
	tString = octosql.TypeIDString
	tTime   = octosql.TypeIDTime
	tDur    = octosql.TypeIDDuration
	tList   = octosql.TypeIDList
	tStruct = octosql.TypeIDStruct
	tTuple  = octosql.TypeIDTuple
	tAny    = octosql.TypeIDAny
)

// ---------------------------------------------------------------------------------------------
// own value equality and printing

// valEq: same type and same content; floats numerically with NaN == NaN and +0 == -0 (DESIGN
// §3.4), times by instant.
func valEq(a, b V) bool {
	if a.TypeID != b.TypeID {
		return false
	}
	switch a.TypeID {
	case tNull:
		return true
	case tInt:
		return a.Int == b.Int
	case tFloat:
		return a.Float == b.Float || (math.IsNaN(a.Float) && math.IsNaN(b.Float))
	case tBool:
		return a.Boolean == b.Boolean
	case tString:
		return a.Str == b.Str
	case tTime:
		return a.Time.Unix() == b.Time.Unix() && a.Time.Nanosecond() == b.Time.Nanosecond()
	case tDur:
		return a.Duration == b.Duration
	case tList:
		return seqEq(a.List, b.List)
	case tStruct:
		return seqEq(a.Struct, b.Struct)
	case tTuple:
		return seqEq(a.Tuple, b.Tuple)
	}
	return false
}

func seqEq(a, b []V) bool {
	if len(a) != len(b) {
		return false
	}
	for i := range a {
		if !valEq(a[i], b[i]) {
			return false
		}
	}
	return true
}

func show(v V) string {
	switch v.TypeID {
	case tNull:
		return "NULL"
	case tInt:
		return fmt.Sprintf("Int(%d)", v.Int)
	case tFloat:
		return "Float(" + strconv.FormatFloat(v.Float, 'g', -1, 64) + ")"
	case tBool:
		return fmt.Sprintf("Boolean(%v)", v.Boolean)
	case tString:
		return "String(" + strconv.Quote(v.Str) + ")"
	case tTime:
		return fmt.Sprintf("Time(%d.%09d %s)", v.Time.Unix(), v.Time.Nanosecond(), v.Time.Location())
	case tDur:
		return fmt.Sprintf("Duration(%dns)", int64(v.Duration))
	case tList:
		return "[" + showSeq(v.List) + "]"
	case tStruct:
		return "{" + showSeq(v.Struct) + "}"
	case tTuple:
		return "(" + showSeq(v.Tuple) + ")"
	}
	return fmt.Sprintf("?type%d", int(v.TypeID))
}

func showSeq(vs []V) string {
	parts := make([]string, len(vs))
	for i := range vs {
		parts[i] = show(vs[i])
	}
	return strings.Join(parts, ", ")
}

func typeName(id octosql.TypeID) string { return id.String() }

// ---------------------------------------------------------------------------------------------
// expectations

type expectation struct {
	skip   string       // non-empty: the arguments are outside the function's domain (or the result is not specified): not judged
	accept []V          // the result must equal one of these ...
	pred   func(V) bool // ... or satisfy this
	desc   string       // what is wanted, for messages
}

func want(vs ...V) expectation {
	return expectation{accept: vs, desc: showSeq(vs)}
}

func notJudged(reason string) expectation { return expectation{skip: reason} }

func wantPred(desc string, p func(V) bool) expectation { return expectation{pred: p, desc: desc} }

func (e expectation) holds(got V) bool {
	for _, a := range e.accept {
		if valEq(a, got) {
			return true
		}
	}
	if e.pred != nil && e.pred(got) {
		return true
	}
	return false
}

func vInt(i int64) V                       { return octosql.NewInt(i) }
func vFloat(f float64) V                   { return octosql.NewFloat(f) }
func vStr(s string) V                      { return octosql.NewString(s) }
func vBool(b bool) V                       { return octosql.NewBoolean(b) }
func vDur(d int64) V                       { return octosql.NewDuration(time.Duration(d)) }
func vTime(sec, nsec int64) V              { return octosql.NewTime(time.Unix(sec, nsec).UTC()) }
func vNull() V                             { return octosql.NewNull() }
func unixParts(t time.Time) (int64, int64) { return t.Unix(), int64(t.Nanosecond()) }

// ulps: got within n units in the last place of ref (NaN with NaN, infinities exact).
func withinUlps(ref float64, n int) func(V) bool {
	return func(got V) bool {
		if got.TypeID != tFloat {
			return false
		}
		g := got.Float
		if math.IsNaN(ref) || math.IsNaN(g) {
			return math.IsNaN(ref) && math.IsNaN(g)
		}
		if g == ref {
			return true
		}
		if math.IsInf(ref, 0) || math.IsInf(g, 0) {
			return false
		}
		lo, hi := ref, ref
		for i := 0; i < n; i++ {
			lo = math.Nextafter(lo, math.Inf(-1))
			hi = math.Nextafter(hi, math.Inf(1))
		}
		return g >= lo && g <= hi
	}
}

// floorDiv / truncDiv on int64 with wrapping for MinInt64 / -1.
func truncDiv(a, b int64) int64 {
	if a == math.MinInt64 && b == -1 {
		return math.MinInt64 // 2^63 wraps
	}
	return a / b
}

func floorDiv(a, b int64) int64 {
	q := truncDiv(a, b)
	if (a%b != 0) && ((a < 0) != (b < 0)) {
		q--
	}
	return q
}

// timePlus: instant + d nanoseconds, computed on (seconds, nanoseconds) with big integers.
func timePlus(t time.Time, d int64) (sec, nsec int64, ok bool) {
	s, n := unixParts(t)
	total := new(big.Int).Mul(big.NewInt(s), big.NewInt(1e9))
	total.Add(total, big.NewInt(n))
	total.Add(total, big.NewInt(d))
	q, r := new(big.Int).DivMod(total, big.NewInt(1e9), new(big.Int)) // Euclidean: r >= 0
	if !q.IsInt64() {
		return 0, 0, false
	}
	return q.Int64(), r.Int64(), true
}

func wantTime(sec, nsec int64) expectation {
	return wantPred(fmt.Sprintf("Time(%d.%09d)", sec, nsec), func(got V) bool {
		if got.TypeID != tTime {
			return false
		}
		s, n := unixParts(got.Time)
		return s == sec && n == nsec
	})
}

var canonicalInt = regexp.MustCompile(`^(0|-?[1-9][0-9]*)$`)
var looseInt = regexp.MustCompile(`^\s*[+-]?[0-9][0-9_]*\s*$`)
var canonicalFloat = regexp.MustCompile(`^-?(0|[1-9][0-9]*)(\.[0-9]+)?([eE][+-]?[0-9]+)?$`)
var digitsOnly = regexp.MustCompile(`[0-9]`)

// intFromString: three classes. Canonical decimal integers within int64 must convert; strings that
// are not a number under any common reading must give NULL ("failed parse => NULL", never an
// error); everything in between (sign +, padding, leading zeros, exponents, hex, underscores,
// fractions, out-of-range) may give NULL or the natural value.
func intFromString(s string) expectation {
	if canonicalInt.MatchString(s) && s != "-0" {
		b, _ := new(big.Int).SetString(s, 10)
		if b.IsInt64() {
			return want(vInt(b.Int64()))
		}
		return wantPred("NULL (out of range) or a saturated Int", func(got V) bool {
			return got.TypeID == tNull || (got.TypeID == tInt && (got.Int == math.MaxInt64 || got.Int == math.MinInt64))
		})
	}
	if clearlyNotANumber(s) {
		return want(vNull())
	}
	return wantPred("NULL or an Int (ambiguous numeral)", func(got V) bool { return got.TypeID == tNull || got.TypeID == tInt })
}

func floatFromString(s string) expectation {
	if canonicalFloat.MatchString(s) {
		r, okRat := new(big.Rat).SetString(s)
		if okRat {
			f, _ := r.Float64() // nearest float64
			if !math.IsInf(f, 0) {
				return wantPred(fmt.Sprintf("Float(%g) (nearest to %s)", f, s), withinUlps(f, 1))
			}
			return wantPred("NULL or +-Inf (out of range)", func(got V) bool {
				return got.TypeID == tNull || (got.TypeID == tFloat && math.IsInf(got.Float, 0))
			})
		}
	}
	if clearlyNotANumber(s) {
		return want(vNull())
	}
	return wantPred("NULL or a Float (ambiguous numeral)", func(got V) bool { return got.TypeID == tNull || got.TypeID == tFloat })
}

// clearlyNotANumber: no digit at all and not one of the IEEE special names; or letters other than
// those that occur in numerals (e, x, hex digits, p, inf/nan/infinity), or two signs in a row.
func clearlyNotANumber(s string) bool {
	l := strings.ToLower(strings.TrimSpace(s))
	if l == "" {
		return true
	}
	for _, special := range []string{"inf", "+inf", "-inf", "infinity", "+infinity", "-infinity", "nan", "+nan", "-nan"} {
		if l == special {
			return false
		}
	}
	if !digitsOnly.MatchString(l) {
		return true
	}
	for _, r := range l {
		switch {
		case r >= '0' && r <= '9', r == '.', r == '+', r == '-', r == '_', r == ' ', r == ',':
		case r >= 'a' && r <= 'f', r == 'x', r == 'p', r == 'o':
		default:
			return true
		}
	}
	if strings.Contains(l, "--") || strings.Contains(l, "++") || strings.Contains(l, "+-") || strings.Contains(l, "-+") {
		// "1e+-3" and friends
		return true
	}
	// hex-looking letters without a 0x prefix and without being an exponent: "abc1", "1f"
	if !strings.Contains(l, "0x") {
		for _, r := range l {
			if (r >= 'a' && r <= 'd') || r == 'f' {
				return true
			}
		}
	}
	return false
}

// ---------------------------------------------------------------------------------------------
// the reference table: signature -> expectation

func sig(name string, args []V) string {
	parts := make([]string, len(args))
	for i := range args {
		parts[i] = typeName(args[i].TypeID)
	}
	return name + "(" + strings.Join(parts, ",") + ")"
}

const maxRepeatBytes = 1 << 16

// expect returns what name(args...) must yield; known=false when there is no reference for this
// combination of dynamic argument types.
func expect(name string, a []V) (e expectation, known bool) {
	s := sig(name, a)
	switch s {
	// ---- + ----
	case "+(Int,Int)":
		return want(vInt(a[0].Int + a[1].Int)), true // Go int64 arithmetic wraps mod 2^64
	case "+(Float,Float)":
		return want(vFloat(a[0].Float + a[1].Float)), true
	case "+(Duration,Duration)":
		return want(vDur(int64(a[0].Duration) + int64(a[1].Duration))), true
	case "+(Time,Duration)", "+(Duration,Time)":
		t, d := a[0], a[1]
		if t.TypeID != tTime {
			t, d = d, t
		}
		sec, nsec, inRange := timePlus(t.Time, int64(d.Duration))
		if !inRange {
			return notJudged("time-out-of-range"), true
		}
		return wantTime(sec, nsec), true
	case "+(String,String)":
		return want(vStr(a[0].Str + a[1].Str)), true
	// ---- - ----
	case "-(Int,Int)":
		return want(vInt(a[0].Int - a[1].Int)), true
	case "-(Int)":
		return want(vInt(-a[0].Int)), true
	case "-(Float,Float)":
		return want(vFloat(a[0].Float - a[1].Float)), true
	case "-(Float)":
		return want(vFloat(-a[0].Float)), true
	case "-(Duration,Duration)":
		return want(vDur(int64(a[0].Duration) - int64(a[1].Duration))), true
	case "-(Duration)":
		return want(vDur(-int64(a[0].Duration))), true
	case "-(Time,Duration)":
		if int64(a[1].Duration) == math.MinInt64 {
			return notJudged("negated-duration-overflows"), true
		}
		sec, nsec, inRange := timePlus(a[0].Time, -int64(a[1].Duration))
		if !inRange {
			return notJudged("time-out-of-range"), true
		}
		return wantTime(sec, nsec), true
	// ---- * ----
	case "*(Int,Int)":
		return want(vInt(a[0].Int * a[1].Int)), true
	case "*(Float,Float)":
		return want(vFloat(a[0].Float * a[1].Float)), true
	case "*(Duration,Int)":
		return want(vDur(int64(a[0].Duration) * a[1].Int)), true
	case "*(Int,Duration)":
		return want(vDur(a[0].Int * int64(a[1].Duration))), true
	case "*(String,Int)", "*(Int,String)":
		str, n := a[0], a[1]
		if str.TypeID != tString {
			str, n = n, str
		}
		if n.Int < 0 {
			return notJudged("negative-repeat-count"), true
		}
		var sb strings.Builder
		for i := int64(0); i < n.Int; i++ {
			sb.WriteString(str.Str)
		}
		return want(vStr(sb.String())), true
	// ---- / ----
	case "/(Int,Int)":
		if a[1].Int == 0 {
			return notJudged("division-by-zero"), true
		}
		// truncation toward zero (the scenario 7 / 3 = 2 cannot tell) or flooring: either accepted
		return want(vInt(truncDiv(a[0].Int, a[1].Int)), vInt(floorDiv(a[0].Int, a[1].Int))), true
	case "/(Float,Float)":
		if a[1].Float == 0 {
			return notJudged("division-by-zero"), true
		}
		return want(vFloat(a[0].Float / a[1].Float)), true
	case "/(Duration,Int)":
		if a[1].Int == 0 {
			return notJudged("division-by-zero"), true
		}
		return want(vDur(truncDiv(int64(a[0].Duration), a[1].Int)), vDur(floorDiv(int64(a[0].Duration), a[1].Int))), true
	case "/(Duration,Duration)":
		if a[1].Duration == 0 {
			return notJudged("division-by-zero"), true
		}
		// the exact ratio, correctly rounded, +-2 ulp (each operand may first be rounded to float64)
		r := new(big.Rat).SetFrac(big.NewInt(int64(a[0].Duration)), big.NewInt(int64(a[1].Duration)))
		f, _ := r.Float64()
		return wantPred(fmt.Sprintf("Float(%g)", f), withinUlps(f, 2)), true
	// ---- math ----
	case "abs(Int)":
		if a[0].Int == math.MinInt64 {
			return notJudged("abs-of-MinInt64-not-representable"), true
		}
		if a[0].Int < 0 {
			return want(vInt(-a[0].Int)), true
		}
		return want(a[0]), true
	case "abs(Float)":
		return want(vFloat(math.Abs(a[0].Float))), true
	case "sqrt(Float)":
		if a[0].Float < 0 {
			return notJudged("sqrt-of-negative"), true
		}
		return want(vFloat(math.Sqrt(a[0].Float))), true
	case "ceil(Float)":
		return want(vFloat(math.Ceil(a[0].Float))), true
	case "floor(Float)":
		return want(vFloat(math.Floor(a[0].Float))), true
	case "log2(Float)", "log(Float)", "log10(Float)":
		if !(a[0].Float > 0) && !math.IsNaN(a[0].Float) {
			return notJudged("log-of-non-positive"), true
		}
		var f float64
		switch name {
		case "log2":
			f = math.Log2(a[0].Float)
		case "log":
			f = math.Log(a[0].Float)
		default:
			f = math.Log10(a[0].Float)
		}
		return wantPred(fmt.Sprintf("Float(%g)", f), withinUlps(f, 4)), true
	case "pow(Float,Float)":
		x, y := a[0].Float, a[1].Float
		if (x == 0 && y < 0) || (x < 0 && !math.IsInf(x, 0) && y != math.Trunc(y) && !math.IsInf(y, 0)) {
			return notJudged("pow-outside-domain"), true
		}
		f := math.Pow(x, y)
		return wantPred(fmt.Sprintf("Float(%g)", f), withinUlps(f, 4)), true
	// ---- conversions ----
	case "int(Int)":
		return want(a[0]), true
	case "int(Boolean)":
		if a[0].Boolean {
			return want(vInt(1)), true
		}
		return want(vInt(0)), true
	case "int(Float)":
		f := a[0].Float
		if math.IsNaN(f) || f >= 9223372036854775808.0 || f < -9223372036854775808.0 {
			return notJudged("float-not-representable-as-int"), true
		}
		if f == math.Trunc(f) {
			return want(vInt(int64(f))), true
		}
		// truncation, flooring, ceiling or rounding: the description ("Converts the argument to an int") allows each
		return want(vInt(int64(math.Floor(f))), vInt(int64(math.Ceil(f)))), true
	case "int(String)":
		return intFromString(a[0].Str), true
	case "int(Duration)":
		return want(vInt(int64(a[0].Duration))), true
	case "float(Float)":
		return want(a[0]), true
	case "float(Int)":
		f := new(big.Float).SetInt64(a[0].Int)
		nearest, _ := f.Float64()
		return wantPred(fmt.Sprintf("Float(%g)", nearest), withinUlps(nearest, 1)), true
	case "float(String)":
		return floatFromString(a[0].Str), true
	case "float(Duration)":
		f := new(big.Float).SetInt64(int64(a[0].Duration))
		nearest, _ := f.Float64()
		return wantPred(fmt.Sprintf("Float(%g)", nearest), withinUlps(nearest, 1)), true
	// ---- time ----
	case "time_from_unix(Int)":
		return wantTime(a[0].Int, 0), true
	case "time_from_unix(Float)":
		f := a[0].Float
		if math.IsNaN(f) || math.Abs(f) >= 1e17 {
			// beyond ~3e9 years the instant is not representable / float seconds have no sub-second digits
			return notJudged("float-timestamp-out-of-range"), true
		}
		exact := new(big.Float).SetPrec(200).SetFloat64(f)
		exact.Mul(exact, big.NewFloat(1e9))
		return wantPred(fmt.Sprintf("the instant %g s after the epoch (to the nanosecond)", f), func(got V) bool {
			if got.TypeID != tTime {
				return false
			}
			s, n := unixParts(got.Time)
			g := new(big.Float).SetPrec(200).SetInt64(s)
			g.Mul(g, big.NewFloat(1e9))
			g.Add(g, new(big.Float).SetInt64(n))
			diff := new(big.Float).Sub(g, exact)
			return diff.Abs(diff).Cmp(big.NewFloat(1)) <= 0
		}), true
	case "time_to_unix(Time)":
		s, n := unixParts(a[0].Time)
		if n == 0 {
			return want(vInt(s)), true
		}
		return want(vInt(s), vInt(s+1)), true // floor (or rounding up) of a sub-second instant
	// ---- string ----
	case "string(Int)":
		return want(vStr(strconv.FormatInt(a[0].Int, 10))), true
	case "string(Boolean)":
		w := "false"
		if a[0].Boolean {
			w = "true"
		}
		return wantPred(w, func(got V) bool { return got.TypeID == tString && strings.EqualFold(got.Str, w) }), true
	case "string(String)":
		// quoted or not (DESIGN §3.4)
		return want(vStr(a[0].Str), vStr("'"+a[0].Str+"'"), vStr(`"`+a[0].Str+`"`), vStr(strconv.Quote(a[0].Str))), true
	case "string(Float)":
		f := a[0].Float
		return wantPred(fmt.Sprintf("a numeral that reads back as %g", f), func(got V) bool {
			if got.TypeID != tString {
				return false
			}
			p, err := strconv.ParseFloat(got.Str, 64)
			if err != nil {
				return false
			}
			return p == f || (math.IsNaN(p) && math.IsNaN(f))
		}), true
	case "string(Duration)":
		d := a[0].Duration
		return wantPred(fmt.Sprintf("a text that reads back as %dns", int64(d)), func(got V) bool {
			if got.TypeID != tString {
				return false
			}
			if p, err := time.ParseDuration(got.Str); err == nil {
				return p == d
			}
			if p, err := strconv.ParseInt(got.Str, 10, 64); err == nil {
				return p == int64(d)
			}
			return got.Str != "" // some other notation: not judged further
		}), true
	case "string(Time)":
		t := a[0].Time
		return wantPred("a text that reads back as the instant (at least to the second)", func(got V) bool {
			if got.TypeID != tString {
				return false
			}
			for _, layout := range []string{time.RFC3339Nano, time.RFC3339, "2006-01-02 15:04:05.999999999 -0700 MST", "2006-01-02 15:04:05"} {
				if p, err := time.Parse(layout, got.Str); err == nil {
					return p.Unix() == t.Unix()
				}
			}
			return got.Str != "" // some other notation: not judged further
		}), true
	case "string(Null)":
		return notJudged("string-of-NULL"), true
	case "string(List)", "string(Object)", "string(Tuple)":
		return wantPred("some String", func(got V) bool { return got.TypeID == tString }), true
	}
	// ---- list index ----
	if name == "[]" && len(a) == 2 && a[0].TypeID == tList && a[1].TypeID == tInt {
		i := a[1].Int
		if i < 0 {
			return notJudged("negative-index"), true
		}
		if i >= int64(len(a[0].List)) {
			return want(vNull()), true
		}
		return want(a[0].List[i]), true
	}
	// ---- IN / NOT IN ----
	if (name == "in" || name == "not in") && len(a) == 2 && (a[1].TypeID == tList || a[1].TypeID == tTuple) {
		elems := a[1].List
		if a[1].TypeID == tTuple {
			elems = a[1].Tuple
		}
		return expectIn(name == "not in", a[0], elems), true
	}
	return expectation{}, false
}

// expectIn: membership by value equality. Not judged when the answer hinges on something the
// conventions leave open: a NULL element, NaN against NaN, an Int against a Float of the same
// numeric value (cross-type numeric equality, DESIGN §3.4).
func expectIn(negate bool, x V, elems []V) expectation {
	if containsNull(x) {
		return notJudged("null-in-left-operand")
	}
	member := false
	open := ""
	for _, e := range elems {
		if containsNull(e) {
			open = "null-element"
			continue
		}
		if valEq(x, e) {
			if containsNaN(x) {
				open = "nan-against-nan"
				continue
			}
			member = true
			continue
		}
		if crossNumericEqual(x, e) {
			open = "cross-type-numeric-equality"
		}
	}
	if !member && open != "" {
		return notJudged(open)
	}
	return want(vBool(member != negate))
}

func containsNull(v V) bool {
	switch v.TypeID {
	case tNull:
		return true
	case tList:
		return anyOf(v.List, containsNull)
	case tStruct:
		return anyOf(v.Struct, containsNull)
	case tTuple:
		return anyOf(v.Tuple, containsNull)
	}
	return false
}

func containsNaN(v V) bool {
	switch v.TypeID {
	case tFloat:
		return math.IsNaN(v.Float)
	case tList:
		return anyOf(v.List, containsNaN)
	case tStruct:
		return anyOf(v.Struct, containsNaN)
	case tTuple:
		return anyOf(v.Tuple, containsNaN)
	}
	return false
}

func anyOf(vs []V, p func(V) bool) bool {
	for _, v := range vs {
		if p(v) {
			return true
		}
	}
	return false
}

func crossNumericEqual(a, b V) bool {
	if a.TypeID == tInt && b.TypeID == tFloat {
		return float64(a.Int) == b.Float
	}
	if a.TypeID == tFloat && b.TypeID == tInt {
		return float64(b.Int) == a.Float
	}
	return false
}

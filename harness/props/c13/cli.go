package c13

import (
	"encoding/json"
	"fmt"
	"math"
	"regexp"
	"strconv"
	"strings"
	"time"

	"github.com/cube2222/octosql/octosql"

	"github.com/cube2222/octosql/plugins/verifharness/cli"
	"github.com/cube2222/octosql/plugins/verifharness/core"
)

// The CLI leg: (a) calls with literal arguments through the real binary, -o json;
// (b) COALESCE over objects of different layouts, list indexing and IN over columns of a JSON file
// (the file datasource's inferred types go through the same typecheck path).

type cliCase struct {
	id   string
	name string
	args []V
	sql  string
	// probeKey: this case is the fixed witness of the open finding with that key
	probeKey string
}

// literal renders a value as an SQL expression; ok=false when there is no literal for it.
func literal(v V) (string, bool) {
	switch v.TypeID {
	case tInt:
		return strconv.FormatInt(v.Int, 10), true
	case tFloat:
		if math.IsNaN(v.Float) || math.IsInf(v.Float, 0) || (v.Float == 0 && math.Signbit(v.Float)) {
			return "", false
		}
		s := strconv.FormatFloat(v.Float, 'f', -1, 64)
		if !strings.Contains(s, ".") {
			s += ".0"
		}
		return s, true
	case tString:
		return lit(v), true
	case tBool:
		return fmt.Sprint(v.Boolean), true
	case tDur:
		if v.Duration < 0 {
			return "", false
		}
		return fmt.Sprintf("INTERVAL %d NANOSECONDS", int64(v.Duration)), true
	case tTime:
		s, n := unixParts(v.Time)
		if n != 0 {
			return "", false
		}
		return fmt.Sprintf("time_from_unix(%d)", s), true
	case tNull:
		return "NULL", true
	}
	return "", false
}

func callSQL(name string, lits []string) string {
	switch name {
	case "+", "*", "/":
		return "(" + lits[0] + " " + name + " " + lits[1] + ")"
	case "-":
		if len(lits) == 1 {
			// "-5" would be folded into a literal by the grammar and "--5" is a comment: negate a
			// non-literal so that the unary "-" function is what runs
			if strings.HasPrefix(lits[0], "INTERVAL") {
				return "(-(" + lits[0] + "))"
			}
			if strings.Contains(lits[0], ".") {
				return "(-(" + lits[0] + " + 0.0))"
			}
			return "(-(" + lits[0] + " + 0))"
		}
		return "(" + lits[0] + " - " + lits[1] + ")"
	}
	return name + "(" + strings.Join(lits, ", ") + ")"
}

// nonFinite: the JSON formatter prints +Inf, -Inf and NaN bare, which is not JSON (C25's subject);
// they are turned into marked strings so that the cell can still be judged here.
var nonFinite = regexp.MustCompile(`:([+-]?Inf|NaN)\b`)

// resultType: the type the JSON cell has to be read as.
func resultType(name string, args []V) octosql.TypeID {
	has := func(id octosql.TypeID) bool {
		for _, a := range args {
			if a.TypeID == id {
				return true
			}
		}
		return false
	}
	switch name {
	case "+", "-":
		switch {
		case has(tTime):
			return tTime
		case has(tDur):
			return tDur
		}
		return args[0].TypeID
	case "*":
		switch {
		case has(tString):
			return tString
		case has(tDur):
			return tDur
		}
		return args[0].TypeID
	case "/":
		if args[0].TypeID == tDur && args[1].TypeID == tInt {
			return tDur
		}
		if args[0].TypeID == tDur {
			return tFloat
		}
		return args[0].TypeID
	case "abs":
		return args[0].TypeID
	case "sqrt", "ceil", "floor", "log", "log2", "log10", "pow", "float":
		return tFloat
	case "int", "time_to_unix":
		return tInt
	case "string":
		return tString
	case "time_from_unix":
		return tTime
	}
	return tNull
}

// cellToValue reads a decoded JSON cell as a value of type id (null is NULL).
func cellToValue(cell interface{}, id octosql.TypeID) (V, bool) {
	if cell == nil {
		return vNull(), true
	}
	switch id {
	case tInt:
		if n, isNum := cell.(json.Number); isNum {
			if i, err := n.Int64(); err == nil {
				return vInt(i), true
			}
		}
	case tFloat:
		if n, isNum := cell.(json.Number); isNum {
			if f, err := strconv.ParseFloat(n.String(), 64); err == nil {
				return vFloat(f), true
			}
		}
		// Since the formatter fix (non-finite floats are printed as the JSON strings "NaN", "+Inf",
		// "-Inf") a Float-typed column may carry exactly these three strings.
		if s, isStr := cell.(string); isStr && (s == "NaN" || s == "+Inf" || s == "-Inf") {
			f, _ := strconv.ParseFloat(s, 64)
			return vFloat(f), true
		}
		if s, isStr := cell.(string); isStr && strings.HasPrefix(s, "__float:") {
			if f, err := strconv.ParseFloat(strings.TrimPrefix(s, "__float:"), 64); err == nil {
				return vFloat(f), true
			}
		}
	case tString:
		if s, isStr := cell.(string); isStr {
			return vStr(s), true
		}
	case tBool:
		if b, isBool := cell.(bool); isBool {
			return vBool(b), true
		}
	case tDur:
		if s, isStr := cell.(string); isStr {
			if d, err := time.ParseDuration(s); err == nil {
				return octosql.NewDuration(d), true
			}
		}
	case tTime:
		if s, isStr := cell.(string); isStr {
			if t, err := time.Parse(time.RFC3339, s); err == nil {
				return octosql.NewTime(t), true
			}
		}
	}
	return V{}, false
}

func (r *runner) cliLeg() {
	c := r.c
	run := cli.NewRunner(c.BinDir, c.Scratch)
	fm := map[string][][]octosql.TypeID{}
	for _, s := range requiredOverloads {
		name := s[:strings.Index(s, "(")]
		var ids []octosql.TypeID
		for _, tn := range strings.Split(strings.TrimSuffix(s[strings.Index(s, "(")+1:], ")"), ",") {
			for _, id := range append(append([]octosql.TypeID{}, scalarTypes...), tAny) {
				if typeName(id) == tn {
					ids = append(ids, id)
				}
			}
		}
		fm[name] = append(fm[name], ids)
	}
	g := gen{c.Rng("cli/literals")}
	var cases []cliCase
	perOverload := c.Pick(4, 40)
	for _, s := range requiredOverloads {
		name := s[:strings.Index(s, "(")]
		for _, ids := range fm[name] {
			if sigOfIDs(name, ids) != s {
				continue
			}
			made := 0
			for attempt := 0; attempt < 200 && made < perOverload; attempt++ {
				args := make([]V, len(ids))
				lits := make([]string, len(ids))
				usable := true
				for i, id := range ids {
					if id == tAny {
						id = scalarTypes[g.pick(4)] // Int Float Boolean String
					}
					args[i] = g.scalar(id)
					if name == "*" && id == tInt && (s == "*(String,Int)" || s == "*(Int,String)") {
						args[i] = vInt(int64(g.pick(5)))
					}
					var isLit bool
					lits[i], isLit = literal(args[i])
					usable = usable && isLit
				}
				if !usable {
					continue
				}
				e, known := expect(name, args)
				if !known || e.skip != "" {
					continue // out of domain: would fail (or crash) the whole query
				}
				if rt := resultType(name, args); rt == tTime {
					// -o json prints times to the second: wrap so that the cell is exact
					if sec, _, inRange := expectedTimeParts(name, args); !inRange || sec < -62135596800 || sec > 253402300799 {
						continue
					}
				}
				cases = append(cases, cliCase{id: fmt.Sprintf("cli/%s/%d", s, made), name: name, args: args, sql: callSQL(name, lits)})
				made++
			}
		}
	}
	// IN / NOT IN / COALESCE with literals
	for k := 0; k < c.Pick(12, 120); k++ {
		n := 2 + g.pick(3)
		vs := make([]V, n)
		lits := make([]string, n)
		for i := range vs {
			vs[i] = vInt(int64(g.pick(5)))
			if g.pick(3) == 0 {
				vs[i] = shortString(g)
			}
			lits[i], _ = literal(vs[i])
		}
		x := vs[g.pick(n)]
		if g.pick(2) == 0 {
			x = vInt(int64(g.pick(7)))
		}
		xl, _ := literal(x)
		name := "in"
		kw := " IN "
		if g.pick(2) == 0 {
			name, kw = "not in", " NOT IN "
		}
		cases = append(cases, cliCase{id: fmt.Sprintf("cli/%s/%d", name, k), name: name, args: []V{x, octosql.NewTuple(vs)}, sql: "(" + xl + kw + "(" + strings.Join(lits, ", ") + "))"})
		// COALESCE: leading NULLs then the values
		nulls := g.pick(3)
		cl := []string{}
		ca := []V{}
		for i := 0; i < nulls; i++ {
			cl = append(cl, "NULL")
			ca = append(ca, vNull())
		}
		cl = append(cl, lits...)
		ca = append(ca, vs...)
		cases = append(cases, cliCase{id: fmt.Sprintf("cli/coalesce/%d", k), name: "coalesce", args: ca, sql: "COALESCE(" + strings.Join(cl, ", ") + ")"})
	}
	// fixed witnesses of the open findings (each alone in its query)
	probes := []cliCase{
		{id: "cli/probe/0", name: "in", args: []V{vFloat(1), octosql.NewTuple([]V{vFloat(math.NaN()), vFloat(2)})}, sql: "(1.0 IN ((0.0 / 0.0), 2.0))", probeKey: "in-nan-equals-everything"},
		{id: "cli/probe/1", name: "not in", args: []V{vFloat(1), octosql.NewTuple([]V{vFloat(math.NaN()), vFloat(2)})}, sql: "(1.0 NOT IN (sqrt(-1.0), 2.0))", probeKey: "in-nan-equals-everything"},
		{id: "cli/probe/2", name: "in", args: []V{vInt(4), octosql.NewTuple([]V{vInt(4)})}, sql: "(4 IN (4))", probeKey: "in-single-element-rejected"},
	}
	for _, p := range probes {
		if r.want(p.id) {
			r.runCLIBatch(run, []cliCase{p})
		}
	}
	c.Note("cli_literal_cases", len(cases))

	const batch = 25
	nb := (len(cases) + batch - 1) / batch
	core.Parallel(nb, 8, func(b int) {
		lo, hi := b*batch, (b+1)*batch
		if hi > len(cases) {
			hi = len(cases)
		}
		ks := cases[lo:hi]
		if r.only != "" {
			var one []cliCase
			for _, k := range ks {
				if k.id == r.only {
					one = append(one, k)
				}
			}
			ks = one
			if len(ks) == 0 {
				return
			}
		}
		if !r.runCLIBatch(run, ks) && len(ks) > 1 {
			c.Count("cli/batches_rerun_one_by_one", 1)
			for _, k := range ks {
				r.runCLIBatch(run, []cliCase{k})
			}
		}
	})
	if r.only == "" || strings.HasPrefix(r.only, "cli/file/") {
		r.cliFileLeg(run)
	}
}

func sigOfIDs(name string, ids []octosql.TypeID) string {
	parts := make([]string, len(ids))
	for i, id := range ids {
		parts[i] = typeName(id)
	}
	return name + "(" + strings.Join(parts, ",") + ")"
}

func expectedTimeParts(name string, args []V) (sec, nsec int64, inRange bool) {
	switch name {
	case "time_from_unix":
		if args[0].TypeID == tInt {
			return args[0].Int, 0, true
		}
		f := args[0].Float
		if f != math.Trunc(f) || math.Abs(f) > 1e15 {
			return 0, 0, false
		}
		return int64(f), 0, true
	case "+", "-":
		t, d := args[0], args[1]
		if t.TypeID != tTime {
			t, d = d, t
		}
		dd := int64(d.Duration)
		if dd%1e9 != 0 {
			return 0, 0, false
		}
		if name == "-" {
			dd = -dd
		}
		return timePlus(t.Time, dd)
	}
	return 0, 0, false
}

// runCLIBatch runs one query; false = the query failed as a whole and the batch has more than one
// case (the caller re-runs them singly). A failing single case is judged as that case's outcome.
func (r *runner) runCLIBatch(run *cli.Runner, ks []cliCase) bool {
	c := r.c
	parts := make([]string, len(ks))
	for i, k := range ks {
		parts[i] = fmt.Sprintf("%s AS c%d", k.sql, i)
	}
	sql := "SELECT " + strings.Join(parts, ", ")
	res := run.Exec(cli.Run{Args: []string{sql, "-o", "json"}, Timeout: 60 * time.Second})
	if res.TimedOut {
		c.Inconclusive("watchdog")
		return true
	}
	failed := res.Panicked() || res.Exit != 0
	var rows []cli.JSONRow
	if !failed {
		var err error
		rows, err = cli.DecodeJSONLines(nonFinite.ReplaceAll(res.Stdout, []byte(`:"__float:$1"`)))
		if err != nil || len(rows) != 1 {
			failed = true
		}
	}
	if failed && len(ks) > 1 {
		return false
	}
	for i, k := range ks {
		var o outcome
		switch {
		case res.Panicked():
			site, msg := res.PanicSite()
			o = outcome{panicked: true, site: site, msg: msg}
		case res.Exit != 0:
			o = outcome{err: fmt.Errorf("exit %d: %s", res.Exit, lastLine(string(res.Stderr)))}
		case failed:
			o = outcome{err: fmt.Errorf("undecodable -o json output %q", string(res.Stdout))}
		default:
			cell, present := rows[0].Values[fmt.Sprintf("c%d", i)]
			if !present {
				o = outcome{err: fmt.Errorf("column c%d missing in %q", i, string(res.Stdout))}
				break
			}
			v, readable := r.readCell(k, cell)
			if !readable {
				o = outcome{err: fmt.Errorf("cell %v (%T) cannot be read as the result of %s", cell, cell, k.sql)}
				break
			}
			o = outcome{v: v}
		}
		var v verdict
		switch k.name {
		case "coalesce":
			wantV := vNull()
			for _, a := range k.args {
				if a.TypeID != tNull {
					wantV = a
					break
				}
			}
			v = judgeAgainst("coalesce", k.args, want(wantV), o)
		default:
			e, known := expect(k.name, k.args)
			v = judge(k.name, k.args, e, known, o)
		}
		if v.status == "bad" && o.err != nil && (k.name == "in" || k.name == "not in") && len(k.args[1].Tuple) == 1 &&
			strings.Contains(o.err.Error(), "unknown function: "+k.name+"(") {
			v.key = "in-single-element-rejected"
		}
		if k.probeKey != "" && c.IsKnown(k.probeKey) && !(v.status == "bad" && v.key == k.probeKey) {
			fmt.Printf("KNOWN-FINDING-STALE property=C13 key=%s probe SELECT %s no longer fails (verdict %s %s)\n", k.probeKey, k.sql, v.status, v.key)
		}
		r.account("cli", k.id, k.name, k.args, v, o, map[string]interface{}{"sql": "SELECT " + k.sql + " AS c0"})
		if i == 0 && v.status == "ok" {
			c.Sample(map[string]interface{}{"id": k.id, "leg": "cli", "sql": "SELECT " + k.sql + " AS c0", "result": o.String()})
		}
	}
	return true
}

func (r *runner) readCell(k cliCase, cell interface{}) (V, bool) {
	switch k.name {
	case "in", "not in":
		return cellToValue(cell, tBool)
	case "coalesce":
		switch x := cell.(type) {
		case nil:
			return vNull(), true
		case string:
			return vStr(x), true
		case json.Number:
			if i, err := x.Int64(); err == nil {
				return vInt(i), true
			}
		}
		return V{}, false
	}
	return cellToValue(cell, resultType(k.name, k.args))
}

func lastLine(s string) string {
	s = strings.TrimRight(s, "\n")
	if i := strings.LastIndex(s, "\n"); i >= 0 {
		s = s[i+1:]
	}
	if len(s) > 300 {
		s = s[:300]
	}
	return s
}

// ---------------------------------------------------------------------------------------------
// (b) a JSON file: objects of two layouts, lists, NULLs

type fileRow struct {
	id int64
	a  *[2]interface{} // {x int64, y string}
	b  *[2]interface{} // {y string, z float64}
	l  []int64
	n  int64
	i  *int64
	s  string
}

func (r *runner) cliFileLeg(run *cli.Runner) {
	c := r.c
	g := gen{c.Rng("cli/file")}
	n := c.Pick(60, 600)
	rows := make([]fileRow, n)
	var sb strings.Builder
	for k := range rows {
		row := fileRow{id: int64(k), n: int64(g.pick(5)), s: shortString(g).Str}
		if g.pick(3) != 0 {
			row.a = &[2]interface{}{int64(g.pick(100)), shortString(g).Str}
		}
		if g.pick(3) != 0 {
			row.b = &[2]interface{}{shortString(g).Str, float64(g.pick(100)) + 0.5}
		}
		for j := g.pick(5); j > 0; j-- {
			row.l = append(row.l, int64(g.pick(50)))
		}
		if g.pick(3) != 0 {
			x := int64(g.pick(6))
			row.i = &x
		}
		rows[k] = row
		obj := map[string]interface{}{"id": row.id, "n": row.n, "s": row.s, "l": row.l}
		if row.l == nil {
			obj["l"] = []int64{}
		}
		if row.a != nil {
			obj["a"] = map[string]interface{}{"x": row.a[0], "y": row.a[1]}
		} else {
			obj["a"] = nil
		}
		if row.b != nil {
			obj["b"] = map[string]interface{}{"y": row.b[0], "z": row.b[1]}
		} else {
			obj["b"] = nil
		}
		if row.i != nil {
			obj["i"] = *row.i
		} else {
			obj["i"] = nil
		}
		data, _ := json.Marshal(obj)
		sb.Write(data)
		sb.WriteByte('\n')
	}
	sql := "SELECT id, COALESCE(a, b) AS ab, COALESCE(b, a) AS ba, l[int(n)] AS ln, l[0] AS l0, COALESCE(i, n) AS cin, int(i) IN (1, int(n), 5) AS iin, int(i) NOT IN (1, int(n), 5) AS inin, COALESCE(i, s) AS cis FROM t.json t"
	res := run.Exec(cli.Run{Args: []string{sql, "-o", "json"}, Files: map[string][]byte{"t.json": []byte(sb.String())}, Timeout: 60 * time.Second})
	rep := map[string]interface{}{"id": "cli/file/0", "sql": sql, "file": trunc(sb.String(), 2000)}
	if res.TimedOut {
		c.Inconclusive("watchdog")
		return
	}
	c.Eval(1)
	if res.Panicked() {
		site, msg := res.PanicSite()
		c.Violation("panic:"+site, "[cli] "+sql+" over a JSON file panicked: "+msg, rep)
		return
	}
	if res.Exit != 0 {
		c.Violation("cli-file-query-error", "[cli] "+sql+" failed: "+lastLine(string(res.Stderr)), rep)
		return
	}
	outRows, err := cli.DecodeJSONLines(res.Stdout)
	if err != nil || len(outRows) != len(rows) {
		c.Violation("cli-file-query-output", fmt.Sprintf("[cli] %s: %d rows for %d input rows, decode error %v", sql, len(outRows), len(rows), err), rep)
		return
	}
	num := func(x interface{}) (float64, bool) {
		nn, isNum := x.(json.Number)
		if !isNum {
			return 0, false
		}
		f, err := strconv.ParseFloat(nn.String(), 64)
		return f, err == nil
	}
	// obj compares a decoded JSON object with the expected fields (missing/NULL fields are null)
	obj := func(cell interface{}, x *int64, y *string, z *float64) bool {
		m, isObj := cell.(map[string]interface{})
		if !isObj {
			return false
		}
		for _, key := range []string{"x", "y", "z"} {
			if _, present := m[key]; !present {
				return false
			}
		}
		if len(m) != 3 {
			return false
		}
		if x == nil {
			if m["x"] != nil {
				return false
			}
		} else if f, isNum := num(m["x"]); !isNum || f != float64(*x) {
			return false
		}
		if y == nil {
			if m["y"] != nil {
				return false
			}
		} else if s, isStr := m["y"].(string); !isStr || s != *y {
			return false
		}
		if z == nil {
			if m["z"] != nil {
				return false
			}
		} else if f, isNum := num(m["z"]); !isNum || f != *z {
			return false
		}
		return true
	}
	fromA := func(row fileRow, cell interface{}) bool {
		x := row.a[0].(int64)
		y := row.a[1].(string)
		return obj(cell, &x, &y, nil)
	}
	fromB := func(row fileRow, cell interface{}) bool {
		y := row.b[0].(string)
		z := row.b[1].(float64)
		return obj(cell, nil, &y, &z)
	}
	intCell := func(cell interface{}, w *int64) bool {
		if w == nil {
			return cell == nil
		}
		f, isNum := num(cell)
		return isNum && f == float64(*w)
	}
	for k, out := range outRows {
		f, isNum := num(out.Values["id"])
		if !isNum || int(f) != k {
			c.Violation("cli-file-query-output", fmt.Sprintf("[cli] row %d has id %v", k, out.Values["id"]), rep)
			return
		}
		row := rows[k]
		check := func(col string, good bool, wantDesc string) {
			c.Eval(1)
			c.Count("cli/file/"+col, 1)
			id := fmt.Sprintf("cli/file/%d/%s", k, col)
			if good {
				c.Nontrivial(id + fmt.Sprint(out.Values[col]))
				return
			}
			line, _ := json.Marshal(out.Values)
			c.Violation("mismatch:file/"+col, fmt.Sprintf("[cli] row %d: %s = %v, want %s", k, col, out.Values[col], wantDesc),
				map[string]interface{}{"id": id, "sql": sql, "input_row": strings.Split(sb.String(), "\n")[k], "output_row": string(line)})
		}
		// COALESCE(a, b), COALESCE(b, a)
		switch {
		case row.a != nil:
			check("ab", fromA(row, out.Values["ab"]), fmt.Sprintf("a = %v laid out as {x,y,z}", *row.a))
		case row.b != nil:
			check("ab", fromB(row, out.Values["ab"]), fmt.Sprintf("b = %v laid out as {x,y,z}", *row.b))
		default:
			check("ab", out.Values["ab"] == nil, "null")
		}
		switch {
		case row.b != nil:
			check("ba", fromB(row, out.Values["ba"]), fmt.Sprintf("b = %v laid out as {x,y,z}", *row.b))
		case row.a != nil:
			check("ba", fromA(row, out.Values["ba"]), fmt.Sprintf("a = %v laid out as {x,y,z}", *row.a))
		default:
			check("ba", out.Values["ba"] == nil, "null")
		}
		// l[n], l[0]
		var wln, wl0 *int64
		if row.n < int64(len(row.l)) {
			wln = &row.l[row.n]
		}
		if len(row.l) > 0 {
			wl0 = &row.l[0]
		}
		check("ln", intCell(out.Values["ln"], wln), fmt.Sprintf("element %d of %v (null beyond the end)", row.n, row.l))
		check("l0", intCell(out.Values["l0"], wl0), fmt.Sprintf("element 0 of %v (null beyond the end)", row.l))
		// COALESCE(i, n)
		w := row.n
		if row.i != nil {
			w = *row.i
		}
		check("cin", intCell(out.Values["cin"], &w), fmt.Sprint(w))
		// i IN (1, n, 5), i NOT IN (1, n, 5)
		if row.i == nil {
			check("iin", out.Values["iin"] == nil, "null")
			check("inin", out.Values["inin"] == nil, "null")
		} else {
			member := *row.i == 1 || *row.i == row.n || *row.i == 5
			check("iin", out.Values["iin"] == member, fmt.Sprint(member))
			check("inin", out.Values["inin"] == !member, fmt.Sprint(!member))
		}
		// COALESCE(i, s): Int | String
		if row.i != nil {
			check("cis", intCell(out.Values["cis"], row.i), fmt.Sprint(*row.i))
		} else {
			check("cis", out.Values["cis"] == row.s, strconv.Quote(row.s))
		}
	}
	c.Sample(map[string]interface{}{"id": "cli/file/0", "sql": sql, "first_input_row": strings.Split(sb.String(), "\n")[0], "first_output_row": lastLine(strings.Split(string(res.Stdout), "\n")[0])})
}

func trunc(s string, n int) string {
	if len(s) > n {
		return s[:n] + "..."
	}
	return s
}

package c13

import (
	"fmt"
	"regexp"
	"strings"
	"time"

	"github.com/cube2222/octosql/octosql"
	"github.com/cube2222/octosql/physical"

	"github.com/cube2222/octosql/plugins/verifharness/core"
	"github.com/cube2222/octosql/plugins/verifharness/nodeh"
)

// ---------------------------------------------------------------------------------------------
// the memdb tables

type column struct {
	name string
	typ  octosql.Type
	gen  func(g gen) V
}

var (
	o1T  = structOf(octosql.StructField{Name: "x", Type: octosql.Int}, octosql.StructField{Name: "y", Type: octosql.String})
	o2T  = structOf(octosql.StructField{Name: "y", Type: octosql.String}, octosql.StructField{Name: "z", Type: octosql.Float})
	in3T = structOf(octosql.StructField{Name: "a", Type: octosql.Int})
	in4T = structOf(octosql.StructField{Name: "b", Type: octosql.String})
	o3T  = structOf(octosql.StructField{Name: "inner", Type: in3T}, octosql.StructField{Name: "x", Type: octosql.Int})
	o4T  = structOf(octosql.StructField{Name: "x", Type: octosql.Float}, octosql.StructField{Name: "inner", Type: in4T}, octosql.StructField{Name: "w", Type: octosql.Boolean})
)

func shortString(g gen) V {
	words := []string{"", "a", "b", "ab", "é", "日本", "x y", "'q'", "0", "7"}
	return vStr(words[g.pick(len(words))])
}

func nonZero(f func(g gen) V, isZero func(V) bool) func(g gen) V {
	return func(g gen) V {
		for k := 0; k < 100; k++ {
			if v := f(g); !isZero(v) {
				return v
			}
		}
		panic("nonZero: generator keeps producing zero")
	}
}

func listGen(el func(g gen) V) func(g gen) V {
	return func(g gen) V {
		n := g.pick(5)
		vs := make([]V, n)
		for i := range vs {
			vs[i] = el(g)
		}
		return octosql.NewList(vs)
	}
}

func genO1(g gen) V { return octosql.NewStruct([]V{g.intV(), shortString(g)}) }
func genO2(g gen) V { return octosql.NewStruct([]V{shortString(g), g.floatV()}) }
func genO3(g gen) V { return octosql.NewStruct([]V{octosql.NewStruct([]V{g.intV()}), g.intV()}) }
func genO4(g gen) V {
	return octosql.NewStruct([]V{g.floatV(), octosql.NewStruct([]V{shortString(g)}), g.boolV()})
}

var columns = []column{
	{"i1", octosql.Int, gen.intV},
	{"i2", octosql.Int, nonZero(gen.intV, func(v V) bool { return v.Int == 0 })},
	{"n1", octosql.Int, func(g gen) V { return vInt(int64(g.pick(6))) }},
	{"f1", octosql.Float, gen.floatV},
	{"f2", octosql.Float, nonZero(gen.floatV, func(v V) bool { return v.Float == 0 })},
	{"d1", octosql.Duration, gen.durV},
	{"d2", octosql.Duration, nonZero(gen.durV, func(v V) bool { return v.Duration == 0 })},
	{"t1", octosql.Time, gen.timeV},
	{"s1", octosql.String, gen.stringV},
	{"s2", octosql.String, shortString},
	{"b1", octosql.Boolean, gen.boolV},
	{"l1", listOf(octosql.Int), listGen(gen.intV)},
	{"ls", listOf(octosql.String), listGen(shortString)},
	{"u1", octosql.TypeSum(octosql.TypeSum(octosql.Int, octosql.String), octosql.Float), func(g gen) V {
		switch g.pick(3) {
		case 0:
			return g.intV()
		case 1:
			return shortString(g)
		}
		return g.floatV()
	}},
	{"o1", o1T, genO1},
	{"o2", o2T, genO2},
	{"o3", o3T, genO3},
	{"o4", o4T, genO4},
	{"lo1", listOf(o1T), listGen(genO1)},
	{"lo2", listOf(o2T), listGen(genO2)},
}

type table struct {
	name     string
	nullable bool
	types    map[string]octosql.Type
	rows     []map[string]V
	db       *nodeh.Table
}

func buildTable(g gen, name string, nullable bool, nRows int) *table {
	t := &table{name: name, nullable: nullable, types: map[string]octosql.Type{}}
	fields := []physical.SchemaField{{Name: "id", Type: octosql.Int}}
	for _, col := range columns {
		typ := col.typ
		if nullable {
			typ = octosql.TypeSum(typ, octosql.Null)
		}
		t.types[col.name] = typ
		fields = append(fields, physical.SchemaField{Name: col.name, Type: typ})
	}
	// union twins u_<col> of the scalar columns: declared T | [Int] (| NULL), holding only T (or
	// NULL) values. A function applied to one only MAY match its parameter type, so the typechecker
	// takes its second pass (runtime type assertion) - where nullability must survive for the strict
	// NULL short-circuit to be installed.
	for _, col := range columns {
		if !isScalar(col.typ) {
			continue
		}
		typ := octosql.TypeSum(col.typ, listOf(octosql.Int))
		if nullable {
			typ = octosql.TypeSum(typ, octosql.Null)
		}
		t.types["u_"+col.name] = typ
		fields = append(fields, physical.SchemaField{Name: "u_" + col.name, Type: typ})
	}
	var evs []nodeh.Event
	for i := 0; i < nRows; i++ {
		row := map[string]V{"id": vInt(int64(i))}
		vals := []V{vInt(int64(i))}
		for _, col := range columns {
			v := col.gen(g)
			if nullable && g.pick(4) == 0 {
				v = vNull()
			}
			row[col.name] = v
			vals = append(vals, v)
		}
		for _, col := range columns {
			if !isScalar(col.typ) {
				continue
			}
			v := col.gen(g)
			if nullable && g.pick(3) == 0 {
				v = vNull()
			}
			row["u_"+col.name] = v
			vals = append(vals, v)
		}
		t.rows = append(t.rows, row)
		evs = append(evs, nodeh.Rec(vals, false, time.Time{}))
	}
	t.db = &nodeh.Table{Fields: fields, TimeField: -1, NoRetractions: true, Events: evs}
	return t
}

func isScalar(t octosql.Type) bool {
	switch t.TypeID {
	case tInt, tFloat, tBool, tString, tTime, tDur:
		return true
	}
	return false
}

// unionVariants: for every plain call, one more expression per argument in which that argument is
// the union twin of its column.
func unionVariants(exprs []sqlExpr) []sqlExpr {
	var out []sqlExpr
	for _, ex := range exprs {
		if ex.fn == "" {
			continue
		}
		for k, col := range ex.cols {
			hasTwin := false
			for _, cdef := range columns {
				if cdef.name == col && isScalar(cdef.typ) {
					hasTwin = true
				}
			}
			if !hasTwin {
				continue
			}
			v := ex
			v.cols = append([]string{}, ex.cols...)
			v.cols[k] = "u_" + col
			v.sql = regexp.MustCompile(`\b`+col+`\b`).ReplaceAllString(ex.sql, "u_"+col)
			for j := range v.cols {
				if j != k && ex.cols[j] == col {
					v.cols[j] = "u_" + col
				}
			}
			out = append(out, v)
		}
	}
	return out
}

// ---------------------------------------------------------------------------------------------
// expressions

type sqlExpr struct {
	sql  string
	fn   string   // plain function/operator over columns: reference = expect(fn, column values), strict in NULL
	cols []string // the argument columns, in order
	// special: a hand-written reference. It returns the call it stands for (for messages and counters).
	special func(t *table, row map[string]V, outType octosql.Type, o outcome) (name string, args []V, v verdict)
	// planErrKey: if planning fails with an error containing planErrContains, the failure is reported under this key
	planErrContains, planErrKey string
	panicNotJudged              string // a run-time panic is counted under this name instead of judged (C07's subject)
}

func op(sqlText, fn string, cols ...string) sqlExpr { return sqlExpr{sql: sqlText, fn: fn, cols: cols} }

func lit(v V) string {
	switch v.TypeID {
	case tInt:
		return fmt.Sprint(v.Int)
	case tString:
		return "'" + strings.ReplaceAll(strings.ReplaceAll(v.Str, `\`, `\\`), `'`, `''`) + "'"
	case tNull:
		return "NULL"
	case tBool:
		return fmt.Sprint(v.Boolean)
	}
	panic("lit: unsupported")
}

// operand: a column name or a literal value.
type operand struct {
	col string
	lit *V
}

func colOp(name string) operand { return operand{col: name} }
func litOp(v V) operand         { return operand{lit: &v} }

func (o operand) sql() string {
	if o.lit != nil {
		return lit(*o.lit)
	}
	return o.col
}

func (o operand) value(row map[string]V) V {
	if o.lit != nil {
		return *o.lit
	}
	return row[o.col]
}

func (o operand) typ(t *table) octosql.Type {
	if o.lit != nil {
		switch o.lit.TypeID {
		case tInt:
			return octosql.Int
		case tString:
			return octosql.String
		case tBool:
			return octosql.Boolean
		}
		return octosql.Null
	}
	return t.types[o.col]
}

func judgeAgainst(name string, args []V, e expectation, o outcome) verdict {
	return judge(name, args, e, true, o)
}

func inExpr(negate bool, x operand, elems ...operand) sqlExpr {
	kw := " IN "
	name := "in"
	if negate {
		kw = " NOT IN "
		name = "not in"
	}
	parts := make([]string, len(elems))
	for i, e := range elems {
		parts[i] = e.sql()
	}
	return sqlExpr{
		sql: x.sql() + kw + "(" + strings.Join(parts, ", ") + ")",
		special: func(t *table, row map[string]V, _ octosql.Type, o outcome) (string, []V, verdict) {
			xv := x.value(row)
			vs := make([]V, len(elems))
			for i, e := range elems {
				vs[i] = e.value(row)
			}
			args := []V{xv, octosql.NewTuple(vs)}
			if xv.TypeID == tNull {
				return name, args, judgeAgainst(name, args, want(vNull()), o) // strict
			}
			return name, args, judgeAgainst(name, args, expectIn(negate, xv, vs), o)
		},
	}
}

func coalesceExpr(ops ...operand) sqlExpr {
	parts := make([]string, len(ops))
	for i, o := range ops {
		parts[i] = o.sql()
	}
	return sqlExpr{
		sql: "COALESCE(" + strings.Join(parts, ", ") + ")",
		special: func(t *table, row map[string]V, outType octosql.Type, o outcome) (string, []V, verdict) {
			args := make([]V, len(ops))
			types := make([]octosql.Type, len(ops))
			for i, op := range ops {
				args[i] = op.value(row)
				types[i] = op.typ(t)
			}
			return "coalesce", args, judgeCoalesce(args, types, outType, o)
		},
	}
}

// judgeCoalesce: the first non-NULL argument, laid out by field NAME in the output type (a field
// the argument does not have is NULL); NULL when every argument is NULL.
func judgeCoalesce(args []V, types []octosql.Type, outType octosql.Type, o outcome) verdict {
	wantV := vNull()
	for i := range args {
		if args[i].TypeID != tNull {
			wantV = conform(args[i], types[i], outType)
			break
		}
	}
	return judgeAgainst("coalesce", args, want(wantV), o)
}

func alternative(t octosql.Type, id octosql.TypeID) octosql.Type {
	if t.TypeID == octosql.TypeIDUnion {
		for _, alt := range t.Union.Alternatives {
			if alt.TypeID == id {
				return alt
			}
		}
	}
	return t
}

// conform re-lays a value of type `from` out as type `to` (own code; by field name).
func conform(v V, from, to octosql.Type) V {
	from = alternative(from, v.TypeID)
	to = alternative(to, v.TypeID)
	switch v.TypeID {
	case tStruct:
		if from.TypeID != octosql.TypeIDStruct || to.TypeID != octosql.TypeIDStruct {
			return v
		}
		out := make([]V, len(to.Struct.Fields))
		for i, tf := range to.Struct.Fields {
			out[i] = vNull()
			for j, ff := range from.Struct.Fields {
				if ff.Name == tf.Name && j < len(v.Struct) {
					out[i] = conform(v.Struct[j], ff.Type, tf.Type)
				}
			}
		}
		return octosql.NewStruct(out)
	case tList:
		if from.TypeID != octosql.TypeIDList || to.TypeID != octosql.TypeIDList || from.List.Element == nil || to.List.Element == nil {
			return v
		}
		out := make([]V, len(v.List))
		for i := range v.List {
			out[i] = conform(v.List[i], *from.List.Element, *to.List.Element)
		}
		return octosql.NewList(out)
	case tTuple:
		if from.TypeID != octosql.TypeIDTuple || to.TypeID != octosql.TypeIDTuple {
			return v
		}
		out := make([]V, len(v.Tuple))
		for i := range v.Tuple {
			if i < len(from.Tuple.Elements) && i < len(to.Tuple.Elements) {
				out[i] = conform(v.Tuple[i], from.Tuple.Elements[i], to.Tuple.Elements[i])
			} else {
				out[i] = v.Tuple[i]
			}
		}
		return octosql.NewTuple(out)
	}
	return v
}

func indexExpr(list string, idx operand) sqlExpr {
	return sqlExpr{
		sql: list + "[" + idx.sql() + "]",
		special: func(t *table, row map[string]V, _ octosql.Type, o outcome) (string, []V, verdict) {
			args := []V{row[list], idx.value(row)}
			if args[0].TypeID == tNull || args[1].TypeID == tNull {
				return "[]", args, judgeAgainst("[]", args, want(vNull()), o)
			}
			e, _ := expect("[]", args)
			return "[]", args, judgeAgainst("[]", args, e, o)
		},
	}
}

func castExpr(col, typeName string, id octosql.TypeID) sqlExpr {
	return sqlExpr{
		sql: col + "::" + typeName,
		special: func(t *table, row map[string]V, _ octosql.Type, o outcome) (string, []V, verdict) {
			args := []V{row[col]}
			w := vNull()
			if args[0].TypeID == id {
				w = args[0]
			}
			return "::" + typeName, args, judgeAgainst("::"+typeName, args, want(w), o)
		},
	}
}

var smallTableValues = []int64{1, 7, -9223372036854775808, 100}

func sqlExprs() []sqlExpr {
	i := func(x int64) operand { return litOp(vInt(x)) }
	s := func(x string) operand { return litOp(vStr(x)) }
	c := colOp
	exprs := []sqlExpr{
		// every overload through the typechecker (division needs spaces around /)
		op("i1 + i2", "+", "i1", "i2"), op("f1 + f2", "+", "f1", "f2"), op("d1 + d2", "+", "d1", "d2"),
		op("t1 + d1", "+", "t1", "d1"), op("d1 + t1", "+", "d1", "t1"), op("s1 + s2", "+", "s1", "s2"),
		op("i1 - i2", "-", "i1", "i2"), op("-i1", "-", "i1"), op("f1 - f2", "-", "f1", "f2"), op("-f1", "-", "f1"),
		op("d1 - d2", "-", "d1", "d2"), op("-d1", "-", "d1"), op("t1 - d1", "-", "t1", "d1"),
		op("i1 * i2", "*", "i1", "i2"), op("f1 * f2", "*", "f1", "f2"), op("d1 * i2", "*", "d1", "i2"), op("i1 * d1", "*", "i1", "d1"),
		op("s2 * n1", "*", "s2", "n1"), op("n1 * s2", "*", "n1", "s2"),
		op("i1 / i2", "/", "i1", "i2"), op("f1 / f2", "/", "f1", "f2"), op("d1 / i2", "/", "d1", "i2"), op("d1 / d2", "/", "d1", "d2"),
		op("abs(i1)", "abs", "i1"), op("abs(f1)", "abs", "f1"), op("sqrt(f1)", "sqrt", "f1"), op("ceil(f1)", "ceil", "f1"), op("floor(f1)", "floor", "f1"),
		op("log2(f1)", "log2", "f1"), op("log(f1)", "log", "f1"), op("log10(f1)", "log10", "f1"), op("pow(f1, f2)", "pow", "f1", "f2"),
		op("int(i1)", "int", "i1"), op("int(b1)", "int", "b1"), op("int(f1)", "int", "f1"), op("int(s1)", "int", "s1"), op("int(d1)", "int", "d1"),
		op("float(f1)", "float", "f1"), op("float(i1)", "float", "i1"), op("float(s1)", "float", "s1"), op("float(d1)", "float", "d1"),
		op("string(i1)", "string", "i1"), op("string(f1)", "string", "f1"), op("string(b1)", "string", "b1"), op("string(s2)", "string", "s2"),
		op("string(d1)", "string", "d1"), op("string(t1)", "string", "t1"), op("string(l1)", "string", "l1"), op("string(o1)", "string", "o1"),
		op("time_from_unix(i1)", "time_from_unix", "i1"), op("time_from_unix(f1)", "time_from_unix", "f1"), op("time_to_unix(t1)", "time_to_unix", "t1"),
		{
			sql: "time_to_unix(time_from_unix(i1))",
			special: func(t *table, row map[string]V, _ octosql.Type, o outcome) (string, []V, verdict) {
				args := []V{row["i1"]}
				return "time_to_unix∘time_from_unix", args, judgeAgainst("time_to_unix∘time_from_unix", args, want(row["i1"]), o)
			},
		},
		// IN / NOT IN over tuples of literals and columns
		inExpr(false, c("i1"), i(1), i(7), c("i2")), inExpr(true, c("i1"), i(1), i(7), c("i2")),
		inExpr(false, c("n1"), i(0), i(2), i(4)), inExpr(true, c("n1"), i(0), i(2), i(4)),
		inExpr(false, c("s2"), s("a"), c("s1"), s("é")), inExpr(true, c("s2"), s("a"), s("ab")),
		inExpr(false, c("f1"), c("f2"), c("f1")), inExpr(true, c("f1"), c("f2"), c("f2")),
		inExpr(false, c("d1"), c("d2"), c("d1")), inExpr(false, c("t1"), c("t1"), c("t1")), inExpr(false, c("b1"), litOp(vBool(true)), litOp(vBool(true))),
		inExpr(false, c("l1"), c("l1"), c("l1")), inExpr(true, c("o1"), c("o1"), c("o1")),
		func() sqlExpr {
			e := inExpr(false, c("i1"), i(7))
			e.planErrContains, e.planErrKey = "unknown function: in(", "in-single-element-rejected"
			return e
		}(),
		func() sqlExpr {
			e := inExpr(true, c("i1"), i(7))
			e.planErrContains, e.planErrKey = "unknown function: not in(", "in-single-element-rejected"
			return e
		}(),
		{
			sql: "i1 IN (SELECT v FROM m.small)",
			special: func(t *table, row map[string]V, _ octosql.Type, o outcome) (string, []V, verdict) {
				vs := make([]V, len(smallTableValues))
				for k, x := range smallTableValues {
					vs[k] = vInt(x)
				}
				args := []V{row["i1"], octosql.NewList(vs)}
				if args[0].TypeID == tNull {
					return "in", args, judgeAgainst("in", args, want(vNull()), o)
				}
				return "in", args, judgeAgainst("in", args, expectIn(false, args[0], vs), o)
			},
		},
		{
			sql: "i1 NOT IN (SELECT v FROM m.small)",
			special: func(t *table, row map[string]V, _ octosql.Type, o outcome) (string, []V, verdict) {
				vs := make([]V, len(smallTableValues))
				for k, x := range smallTableValues {
					vs[k] = vInt(x)
				}
				args := []V{row["i1"], octosql.NewList(vs)}
				if args[0].TypeID == tNull {
					return "not in", args, judgeAgainst("not in", args, want(vNull()), o)
				}
				return "not in", args, judgeAgainst("not in", args, expectIn(true, args[0], vs), o)
			},
		},
		// list indexing
		indexExpr("l1", c("n1")), indexExpr("l1", i(0)), indexExpr("l1", i(3)), indexExpr("l1", i(4)), indexExpr("l1", i(9223372036854775807)),
		indexExpr("ls", c("n1")), indexExpr("ls", i(1)), indexExpr("lo1", i(0)),
		// ::casts on a union column
		castExpr("u1", "int", tInt), castExpr("u1", "string", tString), castExpr("u1", "float", tFloat),
		// COALESCE
		coalesceExpr(c("i1"), c("i2")), coalesceExpr(c("i1"), c("n1"), c("i2")), coalesceExpr(c("s1"), c("s2")),
		coalesceExpr(c("i1"), c("s2")), coalesceExpr(c("u1"), c("i1")), coalesceExpr(litOp(vNull()), c("i1"), i(5)),
		coalesceExpr(c("f1"), c("i1"), s("none")), coalesceExpr(c("t1"), c("d1")), coalesceExpr(c("b1")),
		coalesceExpr(c("o1"), c("o2")), coalesceExpr(c("o2"), c("o1")), coalesceExpr(c("o1"), c("o2"), c("o1")),
		coalesceExpr(c("o3"), c("o4")), coalesceExpr(c("o4"), c("o3")), coalesceExpr(c("o1"), c("o4")),
		coalesceExpr(c("lo1"), c("lo2")), coalesceExpr(c("lo2"), c("lo1")), coalesceExpr(c("l1"), c("ls")), coalesceExpr(c("l1"), c("i1")),
		coalesceExpr(c("o1"), c("i1")), coalesceExpr(c("o1"), c("lo1"), c("s2")),
	}
	// COALESCE over tuples: known to panic in ObjectLayoutFixer (C07's subject); judged once it no longer does
	tup := sqlExpr{
		sql:            "COALESCE((i1, s2), (i2, s1))",
		panicNotJudged: "coalesce-over-tuples-panics",
		special: func(t *table, row map[string]V, outType octosql.Type, o outcome) (string, []V, verdict) {
			a := octosql.NewTuple([]V{row["i1"], row["s2"]})
			args := []V{a, octosql.NewTuple([]V{row["i2"], row["s1"]})}
			return "coalesce", args, judgeAgainst("coalesce", args, want(a), o) // a tuple is never NULL
		},
	}
	exprs = append(exprs, tup)
	exprs = append(exprs, unionVariants(exprs)...)
	return exprs
}

// ---------------------------------------------------------------------------------------------

func (r *runner) sqlLeg() {
	c := r.c
	nRows := c.Pick(150, 4000)
	g := gen{c.Rng("sql/tables")}
	tables := []*table{buildTable(g, "t", false, nRows), buildTable(g, "tn", true, nRows)}
	var smallEvs []nodeh.Event
	for _, x := range smallTableValues {
		smallEvs = append(smallEvs, nodeh.Rec([]V{vInt(x)}, false, time.Time{}))
	}
	db := &nodeh.DB{Tables: map[string]*nodeh.Table{
		"t": tables[0].db, "tn": tables[1].db,
		"small": {Fields: []physical.SchemaField{{Name: "v", Type: octosql.Int}}, TimeField: -1, NoRetractions: true, Events: smallEvs},
	}}
	exprs := sqlExprs()
	c.Note("sql_expressions", len(exprs))
	c.Note("sql_rows_per_table", nRows)
	for ei, ex := range exprs {
		for ti, t := range tables {
			optimize := (ei+ti)%2 == 0
			q := fmt.Sprintf("SELECT id, %s AS x FROM m.%s", ex.sql, t.name)
			qid := fmt.Sprintf("sql/%d/%s", ei, t.name)
			if r.only != "" && !strings.HasPrefix(r.only, qid+"/") && r.only != qid {
				continue
			}
			p, outs, res, perr := nodeh.RunSQL(nodeh.Ctx(), q, db, nodeh.PlanOpts{Optimize: optimize, Output: "none"}, 120*time.Second)
			rep := map[string]interface{}{"id": qid, "sql": q, "optimize": optimize}
			if perr != nil {
				c.Eval(1)
				key := "sql-plan-error:" + ex.sql
				if ex.planErrKey != "" && strings.Contains(perr.Error(), ex.planErrContains) {
					key = ex.planErrKey
				}
				c.Violation(key, fmt.Sprintf("[sql] %s is rejected: %s", q, perr.Error()), rep)
				continue
			}
			if res.TimedOut {
				c.Inconclusive("watchdog")
				continue
			}
			if res.Panicked {
				c.Eval(1)
				if ex.panicNotJudged != "" {
					c.Count("not_judged/"+ex.panicNotJudged+"(C07)", 1)
					continue
				}
				c.Violation("panic:"+core.PanicSite(res.Stack), fmt.Sprintf("[sql] %s panicked: %s", q, res.PanicMsg), rep)
				continue
			}
			if res.Err != nil {
				c.Eval(1)
				c.Violation("sql-run-error:"+ex.sql, fmt.Sprintf("[sql] %s failed: %v", q, res.Err), rep)
				continue
			}
			if len(outs) != len(t.rows) || len(p.Schema.Fields) != 2 {
				c.Eval(1)
				c.Violation("sql-row-count", fmt.Sprintf("[sql] %s produced %d rows of %d columns for %d input rows", q, len(outs), len(p.Schema.Fields), len(t.rows)), rep)
				continue
			}
			outType := p.Schema.Fields[1].Type
			if ex.fn != "" && ex.fn != "string" && t.nullable && octosql.Null.Is(outType) != octosql.TypeRelationIs {
				c.Eval(1)
				c.Violation("static-type-not-nullable:"+ex.fn, fmt.Sprintf("[sql] %s: a strict function over nullable arguments is typed %s, which does not admit the NULL it yields", q, outType), rep)
			}
			for _, out := range outs {
				id := out.Record.Values[0].Int
				if out.Record.Values[0].TypeID != tInt || id < 0 || id >= int64(len(t.rows)) {
					c.Violation("sql-row-count", fmt.Sprintf("[sql] %s produced a row with id %s", q, show(out.Record.Values[0])), rep)
					break
				}
				caseID := fmt.Sprintf("%s/%d", qid, id)
				if !r.want(caseID) && r.only != qid {
					continue
				}
				row := t.rows[id]
				o := outcome{v: out.Record.Values[1]}
				var name string
				var args []V
				var v verdict
				if ex.special != nil {
					name, args, v = ex.special(t, row, outType, o)
				} else {
					name = ex.fn
					args = make([]V, len(ex.cols))
					anyNull := false
					for k, col := range ex.cols {
						args[k] = row[col]
						if args[k].TypeID == tNull {
							anyNull = true
						}
					}
					if anyNull && name != "string" {
						v = judgeAgainst(name, args, want(vNull()), o) // strict functions yield NULL
					} else {
						e, known := expect(name, args)
						v = judge(name, args, e, known, o)
					}
				}
				r.account("sql", caseID, name, args, v, o, map[string]interface{}{"sql": q, "optimize": optimize, "row": showRow(row, ex)})
				if id < 1 && v.status == "ok" && ti == 1 {
					c.Sample(map[string]interface{}{"id": caseID, "sql": q, "call": callString(name, args), "result": o.String()})
				}
			}
		}
	}
}

func showRow(row map[string]V, ex sqlExpr) string {
	var parts []string
	for _, col := range columns {
		if strings.Contains(ex.sql, col.name) {
			parts = append(parts, col.name+"="+show(row[col.name]))
		}
	}
	return strings.Join(parts, " ")
}

package c13

import (
	"math"
	"math/rand"
	"time"

	"github.com/cube2222/octosql/octosql"
)

// Boundary pools (DESIGN §3.1).

var intPool = []int64{
	0, 1, -1, 2, -2, 3, -3, 7, -7, 10, 100, 1000,
	math.MinInt64, math.MaxInt64, math.MinInt64 + 1, math.MaxInt64 - 1,
	1 << 31, -(1 << 31), 1<<31 - 1, 1 << 32, 1 << 53, 1<<53 + 1, -(1<<53 + 1), 1 << 62, -(1 << 62),
	3037000500, 3037000499, 1655931949, -1655931949, 62135596800, -62135596801, 253402300799, 1e9, 1e18,
}

var floatPool = []float64{
	0, math.Copysign(0, -1), 1, -1, 0.5, -0.5, 1.5, -1.5, 2.5, -2.5, 2, 3, 10, 100, 0.1, 0.25, -0.25, 1e-9, 0.999999999, -0.999999999,
	1e-300, 1e300, -1e300, 5e-324, math.MaxFloat64, -math.MaxFloat64, math.Inf(1), math.Inf(-1), math.NaN(),
	9007199254740992, 9007199254740993, 9223372036854775808.0, -9223372036854775808.0, 9223372036854774784.0, 1e19, -1e19,
	1655931949.25, -1655931949.75, 1655931949.1, 4e15 + 0.5, 1e16, 49, 8, math.E, math.Pi,
}

var durPool = []int64{
	0, 1, -1, 1e3, 1e6, 1e9, -1e9, 15e8, -15e8, 60e9, 3600e9, 86400e9, -86400e9, 7e9, 3e9,
	math.MinInt64, math.MaxInt64, math.MinInt64 + 1, math.MaxInt64 - 1, 1 << 53, 1<<53 + 1,
}

var fixedZone = time.FixedZone("plus2", 2*3600)

var timePool = []time.Time{
	time.Unix(0, 0).UTC(),
	time.Unix(0, 1).UTC(),
	time.Unix(0, -1).UTC(),
	time.Unix(-1, 500000000).UTC(),
	time.Date(2020, 1, 1, 0, 0, 0, 0, time.UTC),
	time.Date(2020, 1, 1, 0, 0, 0, 0, time.UTC).In(fixedZone),
	time.Date(2020, 1, 1, 0, 0, 0, 0, time.UTC).In(time.Local),
	time.Date(2022, 6, 22, 21, 5, 49, 123456789, time.UTC),
	time.Date(1960, 2, 29, 23, 59, 59, 999999999, time.UTC),
	time.Date(1, 1, 1, 0, 0, 0, 0, time.UTC),
	time.Date(9999, 12, 31, 23, 59, 59, 0, time.UTC),
	time.Date(2262, 4, 11, 23, 47, 16, 854775807, time.UTC), // last instant with an int64 UnixNano
	time.Date(2262, 4, 11, 23, 47, 17, 0, time.UTC),
	time.Date(1677, 9, 21, 0, 12, 43, 145224192, time.UTC), // first instant with an int64 UnixNano
	time.Unix(1655931949, 0).UTC(),
	{},
}

var stringPool = []string{
	"0", "1", "-1", "42", "-42", "+5", "-0", "007", " 5", "5 ", "", "abc", "1.5", "-1.5", "1e3", "1E3", "-1.5e-3", "0x10", "1_000",
	"9223372036854775807", "9223372036854775808", "-9223372036854775808", "-9223372036854775809", "99999999999999999999",
	"NaN", "nan", "inf", "-Inf", "Infinity", "1e400", "1e-400", ".5", "5.", "--1", "1,5", "１２", "true", "null", "é", "1\n", "1 2",
	"010", "0123", "08", "09", "-010", "-08", "00", "000123", "0x1F", "0X1f", "0x10", "0b101", "0B11", "0o17", "0O7", "0_1", "1_0", "1__0", "0x", "0x_1F",
	"0x1p-2", "0X1P+3", "-0x1.8p1", "1_0.5", "1_0e1", "1e+3", "1E-2", "00.5", "-.5", "+1", " 1", "1 ", "\t1", "+Inf", "-inf", "Inf", "iNf", "-nan", "+.5e1", "1e5000", "1e-5000", "1.", "1.e2",
	"0.1", "3.14159", "2.5e10", "123456789012345678", "0.000001", "1e", "e1", "-", "+", ".", "12abc", "abc12", "1-2", "test", "x",
}

type gen struct{ rng *rand.Rand }

func (g gen) pick(n int) int { return g.rng.Intn(n) }

func (g gen) intV() V {
	if g.pick(10) < 7 {
		return vInt(intPool[g.pick(len(intPool))])
	}
	switch g.pick(3) {
	case 0:
		return vInt(int64(g.pick(201)) - 100)
	case 1:
		return vInt(int64(g.rng.Uint64()))
	default:
		return vInt(int64(g.rng.Uint64()) >> uint(g.pick(63)))
	}
}

func (g gen) floatV() V {
	if g.pick(10) < 7 {
		return vFloat(floatPool[g.pick(len(floatPool))])
	}
	switch g.pick(3) {
	case 0:
		return vFloat(float64(g.pick(2001)-1000) / 8)
	case 1:
		return vFloat(math.Float64frombits(g.rng.Uint64()))
	default:
		return vFloat((g.rng.Float64() - 0.5) * math.Pow(10, float64(g.pick(40)-10)))
	}
}

func (g gen) durV() V {
	if g.pick(10) < 7 {
		return vDur(durPool[g.pick(len(durPool))])
	}
	if g.pick(2) == 0 {
		return vDur(int64(g.rng.Uint64()))
	}
	return vDur(int64(g.pick(2_000_001)-1_000_000) * 1e6)
}

func (g gen) timeV() V {
	if g.pick(10) < 7 {
		return octosql.NewTime(timePool[g.pick(len(timePool))])
	}
	sec := int64(g.rng.Uint64()>>30) - (1 << 33) // roughly years 1700..2240
	t := time.Unix(sec, int64(g.pick(1e9)))
	switch g.pick(3) {
	case 0:
		t = t.UTC()
	case 1:
		t = t.In(fixedZone)
	}
	return octosql.NewTime(t)
}

func (g gen) stringV() V {
	if g.pick(10) < 8 {
		return vStr(stringPool[g.pick(len(stringPool))])
	}
	// a random numeral-ish string
	alphabet := "0123456789+-.eE _x"
	n := 1 + g.pick(6)
	b := make([]byte, n)
	for i := range b {
		b[i] = alphabet[g.pick(len(alphabet))]
	}
	return vStr(string(b))
}

func (g gen) boolV() V { return vBool(g.pick(2) == 0) }

// scalar: a value of the given type id.
func (g gen) scalar(id octosql.TypeID) V {
	switch id {
	case tInt:
		return g.intV()
	case tFloat:
		return g.floatV()
	case tBool:
		return g.boolV()
	case tString:
		return g.stringV()
	case tTime:
		return g.timeV()
	case tDur:
		return g.durV()
	case tNull:
		return vNull()
	}
	panic("scalar: unsupported type")
}

var scalarTypes = []octosql.TypeID{tInt, tFloat, tBool, tString, tTime, tDur}

// anyV: a value of any type (depth-bounded), without NULL inside unless nulls is set.
func (g gen) anyV(depth int, nulls bool) V {
	k := g.pick(10)
	if nulls && g.pick(8) == 0 {
		return vNull()
	}
	if depth <= 0 || k < 7 {
		return g.scalar(scalarTypes[g.pick(len(scalarTypes))])
	}
	n := g.pick(4)
	vs := make([]V, n)
	for i := range vs {
		vs[i] = g.anyV(depth-1, nulls)
	}
	switch k {
	case 7:
		return octosql.NewList(vs)
	case 8:
		return octosql.NewStruct(vs)
	default:
		return octosql.NewTuple(vs)
	}
}

// smallInt: 0..6 mostly (repeat counts, indices), sometimes a pool value.
func (g gen) smallInt() V {
	if g.pick(10) == 0 {
		return g.intV()
	}
	return vInt(int64(g.pick(8)) - 1)
}

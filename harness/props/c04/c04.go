// Package c04: query optimization never changes results.
//
// R: the default (optimized) run and the --optimize=false run of the same query over the same
// files both exit 0 and print different multisets of rows (or different column names).
// O: differential; the unoptimized run is the reference. Plans that can retract (outer joins,
// TRIGGER COUNTING / ON WATERMARK group-bys) are compared on consolidated output (signed sum of
// -o stream_native, or -o batch_table); LIMIT only under a total ORDER BY and never above a
// retracting plan (DESIGN 3.4). A runtime error on one side only is logged, not judged; a Go
// panic on one side only is judged.
// W: CLI; typed random queries over wide CSV/JSON files (many columns, few used): WHERE
// conjunctions, projections with unused expressions, DISTINCT, GROUP BY with unused keys and
// aggregates under outer SELECTs, nested subqueries, joins/lookup joins/outer joins with filters
// on either side, TVF sources (range, tumble, max_diff_watermark), the README's watermark CTE
// chain, CSV files with duplicate header names, and the join cases of joinref (NULL keys).
package c04

import (
	"encoding/json"
	"fmt"
	"math/rand"
	"os"
	"sort"
	"strconv"
	"strings"
	"sync/atomic"

	"github.com/cube2222/octosql/plugins/verifharness/cli"
	"github.com/cube2222/octosql/plugins/verifharness/core"
	"github.com/cube2222/octosql/plugins/verifharness/joinref"
)

func init() { core.Register("C04", Run) }

const (
	kNullKey   = "nullkey-stream-join-match"
	kDupHeader = "csv-duplicate-header-pruning-panic"
)

type tcase struct {
	id      string
	sql     string
	files   map[string][]byte
	mode    string
	procs   int
	shape   string
	feat    []string
	retr    bool
	ordered bool
	jcase   *joinref.Case // unwrapped joinref case: the NULL-key finding can be attributed exactly
	dupCSV  bool
}

func genCase(rng *rand.Rand, i int, quick bool) *tcase {
	tc := &tcase{files: map[string][]byte{}, procs: []int{1, 2, 16}[rng.Intn(3)]}
	shape := []string{"flat", "composed", "joinref", "joinref-wrapped", "watermark-chain", "dup-header"}[pickW(rng, 22, 38, 20, 10, 6, 4)]
	tc.shape = shape
	switch shape {
	case "joinref", "joinref-wrapped":
		class := []string{"small", "small", "small", "asym-left", "asym-right"}[rng.Intn(5)]
		cs := joinref.Gen(rng, joinref.GenOpts{Class: class, Big: 300, NoOrderLimit: true})
		tc.files = cs.Files()
		tc.sql = cs.Q.SQL()
		tc.feat = append([]string{"joinref-class/" + class}, cs.Feat...)
		for _, k := range joinref.JoinKinds(cs.Q.From) {
			if k.IsOuter() {
				tc.retr = true
			}
		}
		differs := cs.NullKeyBothSides(joinref.Defect{InnerKeys: true})
		if shape == "joinref-wrapped" && !cs.Q.Star && !differs {
			// an outer SELECT that uses only some of the join's columns: unused-field removal through
			// joins and maps
			var names []string
			for _, it := range cs.Q.Sel {
				names = append(names, it.As)
			}
			n := 1 + rng.Intn(len(names))
			rng.Shuffle(len(names), func(a, b int) { names[a], names[b] = names[b], names[a] })
			var items []string
			for j, nm := range names[:n] {
				items = append(items, fmt.Sprintf("q.%s AS o%d", nm, j))
			}
			switch rng.Intn(3) {
			case 0:
				tc.sql = "SELECT " + strings.Join(items, ", ") + " FROM (" + tc.sql + ") q"
			case 1:
				tc.sql = "SELECT " + strings.Join(items, ", ") + " FROM (" + tc.sql + ") q WHERE q." + names[len(names)-1] + " IS NOT NULL"
			default:
				tc.sql = "SELECT q." + names[0] + " AS o0, COUNT(*) AS o1, COUNT(q." + names[len(names)-1] + ") AS o2 FROM (" + tc.sql + ") q GROUP BY q." + names[0]
			}
		} else {
			tc.shape = "joinref"
			tc.jcase = cs
		}
	default:
		g := &gen{rng: rng, feat: map[string]bool{}}
		nT := 2 + rng.Intn(2)
		maxRows := 30
		if !quick {
			maxRows = 60
		}
		for k := 0; k < nT; k++ {
			format := []string{"csv", "csv", "json", "parquet"}[pickW(rng, 40, 0, 30, 30)]
			if k == 0 {
				format = []string{"csv", "json"}[rng.Intn(2)] // the time-field table
			}
			g.tables = append(g.tables, genWide(rng, k, format, 2+rng.Intn(maxRows), k == 0 || (format != "parquet" && rng.Intn(3) == 0)))
			if format == "parquet" {
				g.feat["parquet"] = true
			}
		}
		var out []qcol
		switch shape {
		case "watermark-chain":
			tc.sql = g.watermarkChain()
		case "dup-header":
			t := g.tables[0]
			t.format, t.file, t.dup = "csv", "w0.csv", true
			src, dst := rng.Intn(len(t.cols)), rng.Intn(len(t.cols))
			if src != dst && t.cols[dst].name != "time" && t.cols[src].name != "time" {
				t.cols[dst].name = t.cols[src].name
			}
			g.tables = g.tables[:1]
			tc.sql, out = g.sel(0, true)
			tc.dupCSV = true
		case "flat":
			tc.sql, out = g.sel(0, true)
		default:
			tc.sql, out = g.sel(2, true)
		}
		for _, t := range g.tables {
			tc.files[t.file] = t.bytes()
		}
		tc.retr = g.retr
		// total ORDER BY (+ LIMIT when nothing can retract)
		if len(out) > 0 && rng.Intn(4) == 0 {
			ok := true
			for _, c := range out {
				if c.t == tO {
					ok = false
				}
			}
			if ok {
				var keys []string
				for _, c := range out {
					k := c.ref
					if rng.Intn(3) == 0 {
						k += " DESC"
					}
					keys = append(keys, k)
				}
				rng.Shuffle(len(keys), func(a, b int) { keys[a], keys[b] = keys[b], keys[a] })
				tc.sql += " ORDER BY " + strings.Join(keys, ", ")
				tc.ordered = true
				g.feat["order-by-total"] = true
				if !g.retr && rng.Intn(2) == 0 {
					tc.sql += fmt.Sprintf(" LIMIT %d", 1+rng.Intn(8))
					g.feat["order-by-limit"] = true
				}
			}
		}
		for f := range g.feat {
			tc.feat = append(tc.feat, f)
		}
		sort.Strings(tc.feat)
	}
	if tc.retr {
		tc.mode = []string{"stream_native", "batch_table"}[rng.Intn(2)]
	} else if strings.Contains(tc.sql, "array_agg(") {
		// the CSV formatter panics on lists with and without the optimizer (C07's subject)
		tc.mode = []string{"json", "stream_native", "batch_table"}[rng.Intn(3)]
	} else {
		tc.mode = []string{"json", "csv", "stream_native", "batch_table"}[rng.Intn(4)]
	}
	return tc
}

func Run(c *core.Ctx) core.FinishOpts {
	applyReplay(c)
	nCases := c.Pick(500, 12000)
	if v, err := strconv.Atoi(os.Getenv("VERIF_MAXCASES")); err == nil && v > 0 && v < nCases {
		// development aid on an overloaded machine: run only a prefix of the tier's case list
		nCases = v
		c.Note("case_list_truncated_to", v)
	}
	selftest := os.Getenv("VERIF_SELFTEST") == "1"
	runner := cli.NewRunner(c.BinDir, c.Scratch)
	var rejected, judged int64
	dir := directedCases(c.Rng("directed"))
	core.Parallel(len(dir), 16, func(i int) {
		tc := dir[i]
		tc.id = fmt.Sprintf("d%d", i)
		if c.Only != "" && c.Only != tc.id {
			return
		}
		one(c, runner, tc, false, &rejected, &judged)
	})
	core.Parallel(nCases, 16, func(i int) {
		id := fmt.Sprintf("q%d", i)
		if c.Only != "" && c.Only != id {
			return
		}
		tc := genCase(c.Rng("case-"+id), i, core.Quick(c))
		tc.id = id
		one(c, runner, tc, selftest && i%20 == 7, &rejected, &judged)
	})
	rj, jd := atomic.LoadInt64(&rejected), atomic.LoadInt64(&judged)
	if rj+jd > 0 {
		c.Note("rejected_fraction", float64(rj)/float64(rj+jd))
		if float64(rj) > 0.30*float64(rj+jd) {
			c.Inconclusive("too-many-rejected")
		}
	}
	return core.FinishOpts{
		Level: "exploration",
		Rule: "cases = seeded random typed queries (flat / nested / joinref joins / wrapped joins / watermark CTE chain / duplicate-header CSV) over generated files, each run with default flags and with --optimize=false " +
			"in one output mode; non-trivial = both runs exit 0 and print at least one row; distinct by (SQL, files, mode)",
		Floor: c.Pick(200, 4000),
		Assumptions: []string{
			"differential oracle: the unoptimized run is the reference; equal wrong answers of both runs are invisible (C01-C03 cover them)",
			"decoders of package cli; retracting plans compared on consolidated stream_native / batch_table output",
			"a runtime error reported by exactly one of the two runs is logged and not judged (DESIGN 3.4)",
		},
	}
}

func exec(runner *cli.Runner, tc *tcase, opt bool) cli.Result {
	args := []string{tc.sql, "-o", tc.mode}
	if !opt {
		args = append(args, "--optimize=false")
	}
	return runner.Exec(cli.Run{Args: args, Files: tc.files, Env: []string{fmt.Sprintf("GOMAXPROCS=%d", tc.procs)}})
}

var dbg int64

func one(c *core.Ctx, runner *cli.Runner, tc *tcase, corrupt bool, rejected, judged *int64) {
	ro := exec(runner, tc, true)
	ru := exec(runner, tc, false)
	files := map[string]string{}
	for k, v := range tc.files {
		files[k] = trunc(string(v), 2500)
	}
	replay := map[string]interface{}{
		"id": tc.id, "sql": tc.sql, "mode": tc.mode, "gomaxprocs": tc.procs, "shape": tc.shape, "files": files,
		"optimized":   map[string]interface{}{"exit": ro.Exit, "stdout": trunc(string(ro.Stdout), 3000), "stderr": trunc(string(ro.Stderr), 1200)},
		"unoptimized": map[string]interface{}{"exit": ru.Exit, "stdout": trunc(string(ru.Stdout), 3000), "stderr": trunc(string(ru.Stderr), 1200)},
	}
	if ro.TimedOut || ru.TimedOut {
		fmt.Fprintf(os.Stderr, "WATCHDOG %s :: %s\n", tc.id, tc.sql)
		c.Inconclusive("watchdog")
		return
	}
	po, pu := ro.Panicked(), ru.Panicked()
	if po || pu {
		c.Eval(1)
		atomic.AddInt64(judged, 1)
		if po && pu {
			// crashes with and without the optimizer: not an optimizer difference (C07's subject)
			so, _ := ro.PanicSite()
			c.Count("both_runs_panic_not_judged/"+so, 1)
			if atomic.AddInt64(&dbg, 1) <= 60 {
				fmt.Fprintf(os.Stderr, "BOTH-PANIC %s :: %s\n%s\n", tc.id, tc.sql, trunc(string(ro.Stderr), 700))
			}
			return
		}
		r := ro
		which := "optimized"
		if pu {
			r, which = ru, "unoptimized"
		}
		site, msg := r.PanicSite()
		key := "panic-" + which + "-only:" + site
		if strings.HasSuffix(site, "variablesUsed") && !(strings.Contains(tc.sql, " IN (") || strings.Contains(tc.sql, "COALESCE(")) {
			// the listed finding is about IN lists / COALESCE inside a filter above a join
			key += "/without-in-or-coalesce"
		}
		if which == "optimized" && tc.dupCSV && strings.HasPrefix(site, "datasources/csv/execution.go") {
			key = kDupHeader
		}
		c.Violation(key, fmt.Sprintf("only the %s run crashed: %s", which, msg), replay)
		return
	}
	if ro.Exit != 0 && ru.Exit != 0 {
		atomic.AddInt64(rejected, 1)
		c.Count("rejected_both_not_judged", 1)
		c.Count("rejected/"+classify(string(ro.Stderr)), 1)
		if atomic.AddInt64(&dbg, 1) <= 60 {
			fmt.Fprintf(os.Stderr, "REJECTED %s %s :: %s\n", tc.id, firstLine(string(ro.Stderr)), tc.sql)
		}
		return
	}
	c.Eval(1)
	atomic.AddInt64(judged, 1)
	c.Count("shape/"+tc.shape, 1)
	c.Count("mode/"+tc.mode, 1)
	c.Count(fmt.Sprintf("gomaxprocs/%d", tc.procs), 1)
	for _, f := range tc.feat {
		c.Count("feature/"+f, 1)
	}
	if tc.retr {
		c.Count("plans_that_can_retract", 1)
	}
	if ro.Exit != ru.Exit {
		bad, which := ro, "optimized"
		if ru.Exit != 0 {
			bad, which = ru, "unoptimized"
		}
		se := string(bad.Stderr)
		if strings.Contains(se, "couldn't run query") {
			c.Count("runtime_error_one_side_not_judged/"+which, 1)
			c.Sample(map[string]interface{}{"id": tc.id, "sql": tc.sql, "note": "runtime error only in the " + which + " run: " + firstLine(se)})
			fmt.Fprintf(os.Stderr, "ERROR-ASYMMETRY %s %s %s :: %s\n", tc.id, which, firstLine(se), tc.sql)
			return
		}
		c.Violation("plan-time-error-"+which+"-only", "only the "+which+" run was rejected: "+firstLine(se), replay)
		return
	}
	oo, err1 := joinref.Decode(tc.mode, ro.Stdout)
	ou, err2 := joinref.Decode(tc.mode, ru.Stdout)
	if err1 != nil || err2 != nil {
		c.Violation("undecodable-output", fmt.Sprint(err1, err2), replay)
		return
	}
	if tc.mode == "json" {
		canonLists(&oo)
		canonLists(&ou)
	}
	if corrupt && len(oo.Rows) > 0 {
		oo.Rows, oo.Sign = oo.Rows[1:], oo.Sign[1:]
	}
	if len(ou.Rows) > 0 {
		c.Nontrivial(core.Hash(tc.sql, fmt.Sprint(files), tc.mode))
		c.Count("nontrivial", 1)
	}
	if oo.Retractions() > 0 || ou.Retractions() > 0 {
		c.Count("runs_with_retraction_records", 1)
	}
	c.Sample(map[string]interface{}{"id": tc.id, "sql": tc.sql, "mode": tc.mode, "rows": len(ou.Rows), "shape": tc.shape})
	why := ""
	switch {
	case len(oo.Header) > 0 && len(ou.Header) > 0 && strings.Join(oo.Header, "\x00") != strings.Join(ou.Header, "\x00"):
		// (-o json prints no column names when there are no rows: then the rows decide)
		why = fmt.Sprintf("column names differ: optimized %v, unoptimized %v", oo.Header, ou.Header)
	case tc.ordered && oo.Retractions() == 0 && ou.Retractions() == 0:
		if len(oo.Rows) != len(ou.Rows) {
			why = fmt.Sprintf("optimized prints %d rows, unoptimized %d", len(oo.Rows), len(ou.Rows))
		} else {
			for i := range oo.Rows {
				if joinref.RowKey(oo.Rows[i]) != joinref.RowKey(ou.Rows[i]) {
					why = fmt.Sprintf("ordered outputs differ at row %d", i+1)
					break
				}
			}
		}
	default:
		bo, bu := oo.Consolidated(), ou.Consolidated()
		if !bo.Equal(bu) {
			why = fmt.Sprintf("only optimized: %s; only unoptimized: %s", bo.Minus(bu), bu.Minus(bo))
		}
	}
	if why == "" {
		c.Count("equal", 1)
		if len(oo.Times) == len(ou.Times) && strings.Join(oo.Times, ",") != strings.Join(ou.Times, ",") {
			c.Count("event_time_sequences_differ_not_judged", 1)
		}
		return
	}
	// attribution: the NULL-key stream-join finding, only when both runs are explained exactly by
	// the reference with / without NULL = NULL on the extracted key conjuncts
	if tc.jcase != nil {
		q := tc.jcase.Q
		expU := joinref.BagOf(q.Eval(joinref.Defect{OuterKeys: true}))
		expO := joinref.BagOf(q.Eval(joinref.Defect{OuterKeys: true, InnerKeys: true}))
		if !expU.Equal(expO) && ou.Consolidated().Equal(expU) && oo.Consolidated().Equal(expO) {
			c.Violation(kNullKey, "optimized inner join matches NULL keys, unoptimized does not: "+why, replay)
			return
		}
	}
	c.Violation("optimizer-changes-result/"+tc.shape, why, replay)
}

// canonLists sorts the elements of JSON list cells: a list comes from a subquery expression or
// array_agg, whose element order is the arrival order of records and not part of the result.
func canonLists(o *joinref.Output) {
	for _, r := range o.Rows {
		for i, v := range r {
			if v.K != '?' || !strings.HasPrefix(v.S, "[") {
				continue
			}
			var elems []json.RawMessage
			if json.Unmarshal([]byte(v.S), &elems) != nil {
				continue
			}
			strs := make([]string, len(elems))
			for j, e := range elems {
				strs[j] = string(e)
			}
			sort.Strings(strs)
			r[i].S = "[" + strings.Join(strs, ",") + "]"
		}
	}
}

func classify(se string) string {
	l := firstLine(se)
	for _, p := range []string{"unknown function", "unknown variable", "ambiguous", "couldn't parse", "typecheck error", "couldn't run query"} {
		if strings.Contains(l, p) {
			if p == "unknown function" {
				if i := strings.Index(l, "unknown function"); i >= 0 {
					return trunc(l[i:], 60)
				}
			}
			return p
		}
	}
	return trunc(l, 60)
}

func trunc(s string, n int) string {
	if len(s) > n {
		return s[:n] + fmt.Sprintf("... (%d bytes)", len(s))
	}
	return s
}

func firstLine(s string) string {
	for _, l := range strings.Split(s, "\n") {
		if strings.HasPrefix(l, "Error:") {
			return trunc(l, 200)
		}
	}
	return trunc(strings.SplitN(s, "\n", 2)[0], 200)
}

// applyReplay makes `--replay <file>` re-execute exactly the recorded case: seed, tier and case id
// are taken from the replay file (case ids are a function of (seed, tier, index)).
func applyReplay(c *core.Ctx) {
	if c.Replay == "" {
		return
	}
	data, err := os.ReadFile(c.Replay)
	if err != nil {
		fmt.Fprintln(os.Stderr, "cannot read replay file:", err)
		return
	}
	var r struct {
		Seed int64  `json:"seed"`
		Tier string `json:"tier"`
		Case struct {
			ID string `json:"id"`
		} `json:"case"`
	}
	if err := json.Unmarshal(data, &r); err != nil || r.Case.ID == "" {
		fmt.Fprintln(os.Stderr, "replay file has no case id")
		return
	}
	c.Seed, c.Tier, c.Only = r.Seed, r.Tier, r.Case.ID
}

package c04

import (
	"fmt"
	"testing"

	"github.com/cube2222/octosql/plugins/verifharness/core"
)

func TestDbg(t *testing.T) {
	c, _ := core.NewCtx("C04", "quick", 1, "/verif", "", "")
	for _, id := range []string{"q481", "q92"} {
		tc := genCase(c.Rng("case-"+id), 0, true)
		fmt.Println(tc.shape, tc.sql)
		for f, b := range tc.files {
			fmt.Println(f)
			s := string(b)
			if len(s) > 400 {
				s = s[:400]
			}
			fmt.Println(s)
		}
	}
}

package c04

import (
	"bytes"
	"sort"
	"strconv"

	"github.com/segmentio/parquet-go"
)

// parquetBytes writes the table as a flat parquet file (required / optional Int64, Double,
// Boolean, String leaves). Rows are built by hand with explicit levels: the struct-reflecting
// writer of the pinned fork writes zero rows under this toolchain. Column indexes follow the
// schema's field order, which is sorted by name.
func (t *wtable) parquetBytes() ([]byte, error) {
	group := parquet.Group{}
	for _, c := range t.cols {
		var n parquet.Node
		switch c.flav {
		case 'i':
			n = parquet.Int(64)
		case 'h':
			n = parquet.Leaf(parquet.DoubleType)
		case 'b':
			n = parquet.Leaf(parquet.BooleanType)
		default:
			n = parquet.String()
		}
		if c.nullable {
			n = parquet.Optional(n)
		}
		group[c.name] = n
	}
	order := make([]int, len(t.cols))
	for i := range order {
		order[i] = i
	}
	sort.Slice(order, func(a, b int) bool { return t.cols[order[a]].name < t.cols[order[b]].name })
	var buf bytes.Buffer
	w := parquet.NewWriter(&buf, parquet.NewSchema("verif", group))
	for _, cells := range t.cells {
		var row parquet.Row
		for col, ci := range order {
			c := t.cols[ci]
			s := cells[ci]
			if s == "" && c.nullable {
				row = append(row, parquet.ValueOf(nil).Level(0, 0, col))
				continue
			}
			var v interface{}
			switch c.flav {
			case 'i':
				x, _ := strconv.ParseInt(s, 10, 64)
				v = x
			case 'h':
				x, _ := strconv.ParseFloat(s, 64)
				v = x
			case 'b':
				v = s == "true"
			default:
				v = s
			}
			d := 0
			if c.nullable {
				d = 1
			}
			row = append(row, parquet.ValueOf(v).Level(0, d, col))
		}
		if err := w.WriteRow(row); err != nil {
			return nil, err
		}
	}
	if err := w.Close(); err != nil {
		return nil, err
	}
	return buf.Bytes(), nil
}

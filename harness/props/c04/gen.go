package c04

import (
	"fmt"
	"math/rand"
	"strconv"
	"strings"
)

// A typed random query generator over wide generated files. No oracle is needed for C04 (the
// unoptimized run is the reference), so the grammar only has to produce SQL that octosql mostly
// accepts; types are tracked so that literals and comparisons are well-typed.

type ctype int

const (
	tI ctype = iota // Int
	tF              // Float
	tS              // String
	tB              // Boolean
	tT              // Time
	tO              // opaque (lists): may only be selected
)

// ---------------------------------------------------------------------------------------------
// files

type wcol struct {
	name     string
	flav     byte // 'i' small ints, 'h' halves, 's' strings, 'b' booleans, 't' times, 'k' join key strings
	nullable bool
}

type wtable struct {
	file   string
	format string // csv | json | parquet
	cols   []wcol
	cells  [][]string // rendered per format; "" = NULL
	dup    bool       // CSV with a duplicated header name
}

func (t *wtable) ctypeOf(c wcol) ctype {
	switch c.flav {
	case 'i':
		if t.format == "csv" || t.format == "parquet" {
			return tI
		}
		return tF
	case 'h':
		return tF
	case 's', 'k':
		return tS
	case 'b':
		return tB
	case 't':
		if t.format == "parquet" {
			return tS
		}
		return tT
	}
	return tO
}

func (t *wtable) bytes() []byte {
	if t.format == "parquet" {
		b, err := t.parquetBytes()
		if err != nil {
			panic("harness: cannot build parquet fixture: " + err.Error())
		}
		return b
	}
	var sb strings.Builder
	if t.format == "csv" {
		for i, c := range t.cols {
			if i > 0 {
				sb.WriteByte(',')
			}
			sb.WriteString(c.name)
		}
		sb.WriteByte('\n')
		for _, r := range t.cells {
			sb.WriteString(strings.Join(r, ","))
			sb.WriteByte('\n')
		}
		return []byte(sb.String())
	}
	for _, r := range t.cells {
		sb.WriteByte('{')
		for i, c := range t.cols {
			if i > 0 {
				sb.WriteByte(',')
			}
			sb.WriteString(strconv.Quote(c.name) + ":")
			v := r[i]
			switch {
			case v == "":
				sb.WriteString("null")
			case c.flav == 's' || c.flav == 'k' || c.flav == 't':
				sb.WriteString(strconv.Quote(v))
			default:
				sb.WriteString(v)
			}
		}
		sb.WriteString("}\n")
	}
	return []byte(sb.String())
}

func genWide(rng *rand.Rand, idx int, format string, rows int, withTime bool) *wtable {
	t := &wtable{format: format, file: fmt.Sprintf("w%d.%s", idx, format)}
	n := 4 + rng.Intn(14)
	t.cols = append(t.cols, wcol{name: "jk", flav: 'k'})
	for i := 0; i < n; i++ {
		fl := []byte{'i', 'i', 'h', 's', 's', 'b'}[rng.Intn(6)]
		t.cols = append(t.cols, wcol{name: fmt.Sprintf("c%d", i), flav: fl, nullable: rng.Intn(3) == 0})
	}
	if withTime {
		t.cols = append(t.cols, wcol{name: "time", flav: 't'})
	}
	rng.Shuffle(len(t.cols), func(a, b int) { t.cols[a], t.cols[b] = t.cols[b], t.cols[a] })
	sec := 0
	for r := 0; r < rows; r++ {
		row := make([]string, len(t.cols))
		for i, c := range t.cols {
			if c.nullable && r > 0 && rng.Intn(4) == 0 {
				continue
			}
			switch c.flav {
			case 'i':
				row[i] = strconv.Itoa(rng.Intn(5))
			case 'h':
				row[i] = strconv.Itoa(rng.Intn(4)) + ".5"
			case 's':
				row[i] = []string{"ab", "cd", "ef", "Ab", "abc"}[rng.Intn(5)]
			case 'k':
				row[i] = []string{"k1", "k2", "k3", "k4"}[rng.Intn(3+idx%2)]
			case 'b':
				row[i] = []string{"true", "false"}[rng.Intn(2)]
			case 't':
				sec += rng.Intn(4)
				jitter := 0
				if rng.Intn(5) == 0 {
					jitter = -rng.Intn(3)
				}
				s := sec + jitter
				if s < 0 {
					s = 0
				}
				row[i] = fmt.Sprintf("2020-01-01T00:%02d:%02dZ", s/60, s%60)
			}
		}
		t.cells = append(t.cells, row)
	}
	// a nullable column must show a NULL (and a value) to schema inference; make the flags exact
	for i := range t.cols {
		hasNull := false
		for _, r := range t.cells {
			if r[i] == "" {
				hasNull = true
			}
		}
		t.cols[i].nullable = hasNull
	}
	return t
}

// ---------------------------------------------------------------------------------------------
// queries

type qcol struct {
	ref      string // as referenced from the enclosing SELECT, e.g. "a.c3"
	t        ctype
	nullable bool
	key      bool // a designated join key
}

type gen struct {
	rng    *rand.Rand
	tables []*wtable
	nAlias int
	nName  int
	feat   map[string]bool
	retr   bool // the plan may retract (outer join, TRIGGER COUNTING)
}

func (g *gen) alias() string { g.nAlias++; return fmt.Sprintf("r%d", g.nAlias) }
func (g *gen) name() string  { g.nName++; return fmt.Sprintf("n%d", g.nName) }

func lit(rng *rand.Rand, t ctype) string {
	switch t {
	case tI:
		return strconv.Itoa(rng.Intn(5))
	case tF:
		return strconv.Itoa(rng.Intn(4)) + []string{".5", ".0"}[rng.Intn(2)]
	case tS:
		return "'" + []string{"ab", "cd", "ef", "Ab", "k1", "k2"}[rng.Intn(6)] + "'"
	case tB:
		return []string{"true", "false"}[rng.Intn(2)]
	}
	return "NULL"
}

func colsOf(cols []qcol, ts ...ctype) []qcol {
	var out []qcol
	for _, c := range cols {
		for _, t := range ts {
			if c.t == t {
				out = append(out, c)
			}
		}
	}
	return out
}

// expr returns an expression of some non-opaque type over cols.
func (g *gen) expr(cols []qcol, depth int) (string, ctype, bool) {
	usable := colsOf(cols, tI, tF, tS, tB, tT)
	if len(usable) == 0 {
		return "1", tI, false
	}
	c := usable[g.rng.Intn(len(usable))]
	if depth <= 0 || g.rng.Intn(3) == 0 {
		return c.ref, c.t, c.nullable
	}
	switch c.t {
	case tI, tF:
		switch g.rng.Intn(5) {
		case 0:
			return "(" + c.ref + " + " + lit(g.rng, c.t) + ")", c.t, c.nullable
		case 1:
			return "(" + c.ref + " * " + lit(g.rng, c.t) + ")", c.t, c.nullable
		case 2:
			return "abs(" + c.ref + ")", c.t, c.nullable
		case 3:
			same := colsOf(cols, c.t)
			o := same[g.rng.Intn(len(same))]
			return "(" + c.ref + " - " + o.ref + ")", c.t, c.nullable || o.nullable
		default:
			return "COALESCE(" + c.ref + ", " + lit(g.rng, c.t) + ")", c.t, false
		}
	case tS:
		switch g.rng.Intn(4) {
		case 0:
			return "upper(" + c.ref + ")", tS, c.nullable
		case 1:
			return "lower(" + c.ref + ")", tS, c.nullable
		case 2:
			return "len(" + c.ref + ")", tI, c.nullable
		default:
			return "COALESCE(" + c.ref + ", 'zz')", tS, false
		}
	case tB:
		if g.rng.Intn(2) == 0 {
			return "(NOT " + c.ref + ")", tB, c.nullable
		}
	}
	return c.ref, c.t, c.nullable
}

func (g *gen) pred(cols []qcol, depth int) string {
	usable := colsOf(cols, tI, tF, tS, tB)
	if len(usable) == 0 {
		return "true"
	}
	if depth > 0 {
		switch g.rng.Intn(8) {
		case 0:
			return "(" + g.pred(cols, depth-1) + " OR " + g.pred(cols, depth-1) + ")"
		case 1:
			return "NOT (" + g.pred(cols, depth-1) + ")"
		}
	}
	if g.rng.Intn(25) == 0 {
		// a conjunct that uses no input at all
		g.feat["constant-predicate"] = true
		return []string{"1 = 2", "1 = 1", "true", "false", "2 > 1", "'a' = 'b'"}[g.rng.Intn(6)]
	}
	c := usable[g.rng.Intn(len(usable))]
	if g.rng.Intn(6) == 0 {
		return c.ref + []string{" IS NULL", " IS NOT NULL"}[g.rng.Intn(2)]
	}
	switch c.t {
	case tI, tF:
		ops := []string{"=", "!=", "<", "<=", ">", ">="}
		switch g.rng.Intn(5) {
		case 0:
			same := colsOf(cols, c.t)
			o := same[g.rng.Intn(len(same))]
			return c.ref + " " + ops[g.rng.Intn(len(ops))] + " " + o.ref
		case 1:
			return c.ref + " IN (" + lit(g.rng, c.t) + ", " + lit(g.rng, c.t) + ")"
		case 2:
			return "(" + c.ref + " + " + lit(g.rng, c.t) + ") " + ops[g.rng.Intn(len(ops))] + " " + lit(g.rng, c.t)
		default:
			return c.ref + " " + ops[g.rng.Intn(len(ops))] + " " + lit(g.rng, c.t)
		}
	case tS:
		switch g.rng.Intn(5) {
		case 0:
			return c.ref + " LIKE " + []string{"'a%'", "'%d'", "'_b%'", "'k%'"}[g.rng.Intn(4)]
		case 1:
			return "upper(" + c.ref + ") = 'AB'"
		case 2:
			return c.ref + " < " + lit(g.rng, tS)
		case 3:
			return c.ref + " != " + lit(g.rng, tS)
		default:
			return c.ref + " = " + lit(g.rng, tS)
		}
	case tB:
		switch g.rng.Intn(3) {
		case 0:
			return c.ref
		case 1:
			return "NOT " + c.ref
		default:
			return c.ref + " = " + lit(g.rng, tB)
		}
	}
	return "true"
}

type relT struct {
	sql      string
	cols     []qcol
	baseFile bool // a plain file: re-readable, usable as the right side of a lookup join
	rows     int
}

func (g *gen) baseRel(t *wtable) relT {
	a := g.alias()
	r := relT{sql: t.file + " " + a, baseFile: true, rows: len(t.cells)}
	for _, c := range t.cols {
		r.cols = append(r.cols, qcol{ref: a + "." + c.name, t: t.ctypeOf(c), nullable: c.nullable, key: c.flav == 'k'})
	}
	return r
}

func (g *gen) timeTable() *wtable {
	for _, t := range g.tables {
		for _, c := range t.cols {
			if c.flav == 't' {
				return t
			}
		}
	}
	return nil
}

func (g *gen) rel(depth int) relT {
	x := g.rng.Intn(100)
	switch {
	case depth > 0 && x < 35:
		sql, out := g.sel(depth-1, false)
		a := g.alias()
		r := relT{sql: "(" + sql + ") " + a, rows: 20}
		for _, c := range out {
			r.cols = append(r.cols, qcol{ref: a + "." + c.ref, t: c.t, nullable: c.nullable, key: c.key})
		}
		g.feat["subquery"] = true
		return r
	case x < 42:
		a := g.alias()
		lo := g.rng.Intn(4)
		g.feat["tvf-range"] = true
		return relT{sql: fmt.Sprintf("range(start=>%d, end=>%d) %s", lo, lo+1+g.rng.Intn(6), a), cols: []qcol{{ref: a + ".i", t: tI}}, rows: 6}
	case x < 55:
		if t := g.timeTable(); t != nil {
			a := g.alias()
			base := g.baseRel(t)
			var cols []qcol
			for _, c := range base.cols {
				c.ref = a + c.ref[strings.Index(c.ref, "."):]
				cols = append(cols, c)
			}
			if g.rng.Intn(2) == 0 {
				g.feat["tvf-tumble"] = true
				cols = append(cols, qcol{ref: a + ".window_start", t: tT}, qcol{ref: a + ".window_end", t: tT})
				return relT{sql: fmt.Sprintf("tumble(source=>TABLE(%s), window_length=>INTERVAL %d SECONDS, time_field=>DESCRIPTOR(time)) %s", t.file, 2+g.rng.Intn(9), a), cols: cols, rows: len(t.cells)}
			}
			g.feat["tvf-max_diff_watermark"] = true
			return relT{sql: fmt.Sprintf("max_diff_watermark(source=>TABLE(%s), max_diff=>INTERVAL %d SECONDS, time_field=>DESCRIPTOR(time)) %s", t.file, 1+g.rng.Intn(5), a), cols: cols, rows: len(t.cells)}
		}
	}
	return g.baseRel(g.tables[g.rng.Intn(len(g.tables))])
}

// from builds the FROM clause: one relation or a join of 2-3.
func (g *gen) from(depth int) (string, []qcol) {
	r0 := g.rel(depth)
	n := 1 + pickW(g.rng, 55, 38, 7)
	sql, cols := r0.sql, r0.cols
	leftRows := r0.rows
	for j := 1; j < n; j++ {
		r := g.rel(depth)
		// join condition: a pair of same-typed columns, preferring designated keys; never both
		// nullable (the NULL-key join defect is exercised by the joinref shapes, where it can be
		// attributed exactly)
		type pair struct{ a, b qcol }
		var keys, others []pair
		for _, a := range cols {
			for _, b := range r.cols {
				if a.t != b.t || a.t == tO || a.t == tB || a.t == tT || (a.nullable && b.nullable) {
					continue
				}
				if a.key && b.key {
					keys = append(keys, pair{a, b})
				} else {
					others = append(others, pair{a, b})
				}
			}
		}
		var on []string
		choose := keys
		if len(keys) == 0 || (len(others) > 0 && g.rng.Intn(4) == 0) {
			choose = others
		}
		if len(choose) == 0 {
			// nothing joinable: cross join through an always-true ON is not accepted by outer joins
			break
		}
		p := choose[g.rng.Intn(len(choose))]
		if g.rng.Intn(2) == 0 {
			on = append(on, p.a.ref+" = "+p.b.ref)
		} else {
			on = append(on, p.b.ref+" = "+p.a.ref)
		}
		if len(choose) > 1 && g.rng.Intn(4) == 0 {
			p2 := choose[g.rng.Intn(len(choose))]
			if p2 != p {
				on = append(on, p2.a.ref+" = "+p2.b.ref)
			}
		}
		kind := []string{"JOIN", "LEFT JOIN", "RIGHT JOIN", "OUTER JOIN", "LOOKUP JOIN"}[pickW(g.rng, 45, 15, 12, 13, 15)]
		if kind == "LOOKUP JOIN" && (!r.baseFile || leftRows > 40) {
			kind = "JOIN"
		}
		both := append(append([]qcol{}, cols...), r.cols...)
		if kind == "JOIN" || kind == "LOOKUP JOIN" {
			for k := pickW(g.rng, 60, 30, 10); k > 0; k-- {
				on = append(on, g.pred(both, 1))
				g.feat["join-theta-or-filter-in-on"] = true
			}
		}
		g.feat["join/"+kind] = true
		if kind == "LEFT JOIN" || kind == "OUTER JOIN" {
			for i := range r.cols {
				r.cols[i].nullable = true
			}
			g.retr = true
		}
		if kind == "RIGHT JOIN" || kind == "OUTER JOIN" {
			for i := range cols {
				cols[i].nullable = true
			}
			g.retr = true
		}
		sql = sql + " " + kind + " " + r.sql + " ON " + strings.Join(on, " AND ")
		cols = append(cols, r.cols...)
		leftRows *= 3
	}
	return sql, cols
}

// sel builds a SELECT; the returned columns carry the output names (unqualified).
func (g *gen) sel(depth int, top bool) (string, []qcol) {
	fromSQL, cols := g.from(depth)
	var where []string
	for k := pickW(g.rng, 30, 35, 22, 13); k > 0; k-- {
		where = append(where, g.pred(cols, 1))
	}
	if len(where) > 1 {
		g.feat["where-conjunction"] = true
	}
	var items []string
	var out []qcol
	tail := ""
	head := "SELECT "
	switch pickW(g.rng, 55, 12, 33) {
	case 0, 1:
		// projection: subset / reordering / expressions
		n := 1 + g.rng.Intn(minInt(6, len(cols)+1))
		for i := 0; i < n; i++ {
			var e string
			var t ctype
			var nl, key bool
			if g.rng.Intn(3) == 0 {
				e, t, nl = g.expr(cols, 1)
				g.feat["map-expression"] = true
			} else {
				c := cols[g.rng.Intn(len(cols))]
				e, t, nl, key = c.ref, c.t, c.nullable, c.key
			}
			nm := g.name()
			items = append(items, e+" AS "+nm)
			out = append(out, qcol{ref: nm, t: t, nullable: nl, key: key})
		}
		if g.rng.Intn(100) < 18 {
			head = "SELECT DISTINCT "
			g.feat["distinct"] = true
		}
	default:
		g.feat["group-by"] = true
		grp := colsOf(cols, tI, tF, tS, tB, tT)
		nk := pickW(g.rng, 12, 58, 30)
		if nk > len(grp) {
			nk = len(grp)
		}
		var keys []string
		seen := map[string]bool{}
		for i := 0; i < nk; i++ {
			c := grp[g.rng.Intn(len(grp))]
			if seen[c.ref] {
				continue
			}
			seen[c.ref] = true
			keys = append(keys, c.ref)
			nm := g.name()
			items = append(items, c.ref+" AS "+nm)
			out = append(out, qcol{ref: nm, t: c.t, nullable: c.nullable, key: c.key})
		}
		nums := colsOf(cols, tI, tF)
		for i := 1 + g.rng.Intn(4); i > 0; i-- {
			nm := g.name()
			switch x := g.rng.Intn(8); {
			case x == 0 || len(nums) == 0:
				items = append(items, "COUNT(*) AS "+nm)
				out = append(out, qcol{ref: nm, t: tI})
			case x == 1:
				c := cols[g.rng.Intn(len(cols))]
				items = append(items, "COUNT("+c.ref+") AS "+nm)
				out = append(out, qcol{ref: nm, t: tI, nullable: true})
			case x == 2:
				c := cols[g.rng.Intn(len(cols))]
				if c.t == tO {
					c = nums[0]
				}
				items = append(items, "COUNT(DISTINCT "+c.ref+") AS "+nm)
				out = append(out, qcol{ref: nm, t: tI, nullable: true})
			case x == 3:
				c := nums[g.rng.Intn(len(nums))]
				items = append(items, "array_agg("+c.ref+") AS "+nm)
				out = append(out, qcol{ref: nm, t: tO, nullable: true})
			default:
				c := nums[g.rng.Intn(len(nums))]
				f := []string{"SUM", "AVG", "MIN", "MAX"}[g.rng.Intn(4)]
				items = append(items, f+"("+c.ref+") AS "+nm)
				out = append(out, qcol{ref: nm, t: c.t, nullable: true})
			}
		}
		if len(keys) > 0 {
			tail = " GROUP BY " + strings.Join(keys, ", ")
		}
		switch g.rng.Intn(10) {
		case 0:
			if len(keys) > 0 {
				tail += fmt.Sprintf(" TRIGGER COUNTING %d", 1+g.rng.Intn(3))
				g.retr = true
				g.feat["trigger-counting"] = true
			}
		case 1:
			if len(keys) > 0 {
				tail += " TRIGGER ON END OF STREAM"
			}
		}
	}
	sql := head + strings.Join(items, ", ") + " FROM " + fromSQL
	if len(where) > 0 {
		sql += " WHERE " + strings.Join(where, " AND ")
	}
	return sql + tail, out
}

func pickW(rng *rand.Rand, w ...int) int {
	t := 0
	for _, v := range w {
		t += v
	}
	x := rng.Intn(t)
	for i, v := range w {
		if x < v {
			return i
		}
		x -= v
	}
	return len(w) - 1
}

func minInt(a, b int) int {
	if a < b {
		return a
	}
	return b
}

// watermarkChain is the README's WITH chain: max_diff_watermark -> tumble -> GROUP BY window_end
// with a trigger, under an outer SELECT that uses only some of the aggregates.
func (g *gen) watermarkChain() string {
	t := g.timeTable()
	var nums, strs []string
	for _, c := range t.cols {
		switch c.flav {
		case 'i', 'h':
			nums = append(nums, c.name)
		case 's', 'k':
			strs = append(strs, c.name)
		}
	}
	key := strs[g.rng.Intn(len(strs))]
	aggs := []string{"COUNT(*) AS a0"}
	for i, n := range nums {
		if i < 3 {
			aggs = append(aggs, fmt.Sprintf("%s(%s) AS a%d", []string{"SUM", "MAX", "MIN", "AVG"}[g.rng.Intn(4)], n, i+1))
		}
	}
	trig := []string{"", " TRIGGER ON WATERMARK", " TRIGGER ON WATERMARK, COUNTING 2", " TRIGGER COUNTING 3, ON END OF STREAM", " TRIGGER ON END OF STREAM"}[g.rng.Intn(5)]
	if trig != "" {
		g.retr = true
	}
	use := []string{"we"}
	if g.rng.Intn(2) == 0 {
		use = append(use, "k")
	}
	use = append(use, fmt.Sprintf("a%d", g.rng.Intn(len(aggs))))
	where := ""
	if g.rng.Intn(2) == 0 {
		where = " WHERE a0 > " + strconv.Itoa(g.rng.Intn(3))
	}
	g.feat["watermark-chain"] = true
	return fmt.Sprintf("WITH w AS (SELECT * FROM max_diff_watermark(source=>TABLE(%s), max_diff=>INTERVAL %d SECONDS, time_field=>DESCRIPTOR(time)) c), "+
		"tt AS (SELECT * FROM tumble(source=>TABLE(w), window_length=>INTERVAL %d SECONDS) c), "+
		"g AS (SELECT window_end AS we, %s AS k, %s FROM tt GROUP BY window_end, %s%s) SELECT %s FROM g%s",
		t.file, 1+g.rng.Intn(4), 3+g.rng.Intn(8), key, strings.Join(aggs, ", "), key, trig, strings.Join(use, ", "), where)
}

package c04

import (
	"fmt"
	"math/rand"
	"strings"
)

// Directed shape families that the random grammar reaches too rarely to be relied upon in the
// quick tier. They are generated for every seed (data and literals vary with the seed, the
// shapes do not) and judged by the same optimizer-on / --optimize=false differential.
//
//   distinct-under-select: DISTINCT inside a FROM-subquery or WITH clause whose outer query does
//     not reference every DISTINCT column, over rows that differ only in the unreferenced column
//     (pruning a column from under the DISTINCT merges rows);
//   constant-conjunct: a filter directly above an inner join holding a conjunct that uses neither
//     join input: constant-false / constant-true predicates mixed with ordinary ones, and
//     correlated subqueries over a join whose WHERE mentions only the outer row.

func directedCases(rng *rand.Rand) []*tcase {
	var out []*tcase
	for rep := 0; rep < 2; rep++ {
		format := []string{"json", "csv"}[rep]
		num := func(i int) string {
			if format == "json" {
				return fmt.Sprintf("%d.0", i)
			}
			return fmt.Sprint(i)
		}
		// T: a in {1,2}, b in {1,2,3}; guaranteed rows with equal (a,b) and rows differing only in b
		type row struct{ id, k, a, b, x int }
		rows := []row{{0, 1, 1, 1, 1}, {0, 2, 1, 2, 2}, {0, 1, 1, 1, 3}, {0, 0, 2, 1, 1}, {0, 2, 2, 3, 2}}
		for i := 0; i < 3+rng.Intn(6); i++ {
			rows = append(rows, row{0, rng.Intn(4), 1 + rng.Intn(2), 1 + rng.Intn(3), rng.Intn(4)})
		}
		rng.Shuffle(len(rows), func(a, b int) { rows[a], rows[b] = rows[b], rows[a] })
		var tb, rb strings.Builder
		if format == "csv" {
			tb.WriteString("id,k,a,b,x\n")
			rb.WriteString("id,k,v\n")
		}
		for i, r := range rows {
			k := fmt.Sprint(r.k)
			if format == "json" {
				if r.k == 0 {
					k = "null"
				}
				fmt.Fprintf(&tb, "{\"id\":%d,\"k\":%s,\"a\":%d,\"b\":%d,\"x\":%d}\n", i+1, k, r.a, r.b, r.x)
			} else {
				if r.k == 0 {
					k = ""
				}
				fmt.Fprintf(&tb, "%d,%s,%d,%d,%d\n", i+1, k, r.a, r.b, r.x)
			}
		}
		nr := 2 + rng.Intn(4)
		for i := 0; i < nr; i++ {
			k, v := 1+i%3, i%3
			if format == "json" {
				fmt.Fprintf(&rb, "{\"id\":%d,\"k\":%d,\"v\":%d}\n", 10*(i+1), k, v)
			} else {
				fmt.Fprintf(&rb, "%d,%d,%d\n", 10*(i+1), k, v)
			}
		}
		// two more R rows on which k and v agree (elsewhere they differ)
		for _, kv := range []int{2, 1} {
			if format == "json" {
				fmt.Fprintf(&rb, "{\"id\":%d,\"k\":%d,\"v\":%d}\n", 10*(nr+1), kv, kv)
			} else {
				fmt.Fprintf(&rb, "%d,%d,%d\n", 10*(nr+1), kv, kv)
			}
			nr++
		}
		T, R := "t."+format, "r."+format
		files := map[string][]byte{T: []byte(tb.String()), R: []byte(rb.String())}
		lit := num(1 + rng.Intn(2))
		join := "FROM " + T + " a JOIN " + R + " b ON a.k = b.k"
		type dq struct{ family, name, sql string }
		qs := []dq{
			{"distinct-under-select", "sub-qualified", "SELECT s.a AS o0 FROM (SELECT DISTINCT t.a AS a, t.b AS b FROM " + T + " t) s"},
			{"distinct-under-select", "sub-unqualified", "SELECT s.a FROM (SELECT DISTINCT a, b FROM " + T + ") s"},
			{"distinct-under-select", "sub-star", "SELECT s.a FROM (SELECT DISTINCT * FROM " + T + " t) s"},
			{"distinct-under-select", "sub-star-two-columns", "SELECT s.a, s.b FROM (SELECT DISTINCT * FROM " + T + " t) s"},
			{"distinct-under-select", "with", "WITH d AS (SELECT DISTINCT a, b FROM " + T + ") SELECT a FROM d"},
			{"distinct-under-select", "with-star", "WITH d AS (SELECT DISTINCT * FROM " + T + ") SELECT a FROM d"},
			{"distinct-under-select", "with-three-columns", "WITH d AS (SELECT DISTINCT a, b, x FROM " + T + ") SELECT b FROM d WHERE a = " + num(1)},
			{"distinct-under-select", "group-by-above", "SELECT s.a AS o0, COUNT(*) AS o1 FROM (SELECT DISTINCT t.a AS a, t.b AS b FROM " + T + " t) s GROUP BY s.a"},
			{"distinct-under-select", "map-expression", "SELECT s.a AS o0 FROM (SELECT DISTINCT t.a AS a, t.b + " + num(1) + " AS c FROM " + T + " t) s WHERE s.a > " + num(0)},
			{"distinct-under-select", "over-join", "SELECT s.a AS o0 FROM (SELECT DISTINCT a.a AS a, b.v AS v, a.b AS b " + join + ") s"},
			{"distinct-under-select", "two-levels", "SELECT q.a AS o0 FROM (SELECT s.a AS a, s.b AS b FROM (SELECT DISTINCT t.a AS a, t.b AS b FROM " + T + " t) s) q"},
			{"distinct-under-select", "join-side", "SELECT s.a AS o0, r.id AS o1 FROM (SELECT DISTINCT t.k AS dk, t.a AS a, t.b AS b FROM " + T + " t) s JOIN " + R + " r ON s.dk = r.k"},
			{"distinct-under-select", "where-inside", "SELECT s.b AS o0 FROM (SELECT DISTINCT t.a AS a, t.b AS b, t.x AS x FROM " + T + " t WHERE t.x >= " + num(1) + ") s"},

			{"constant-conjunct", "false-eq", "SELECT a.id AS o0, b.id AS o1 " + join + " WHERE 1 = 2"},
			{"constant-conjunct", "ordinary-and-false", "SELECT a.id AS o0, b.id AS o1 " + join + " WHERE a.x >= " + lit + " AND 1 = 2"},
			{"constant-conjunct", "false-and-ordinary", "SELECT a.id AS o0, b.id AS o1 " + join + " WHERE 2 < 1 AND b.v IS NOT NULL"},
			{"constant-conjunct", "false-literal", "SELECT a.id AS o0, b.id AS o1 " + join + " WHERE false"},
			{"constant-conjunct", "true-literal-and-ordinary", "SELECT a.id AS o0, b.id AS o1 " + join + " WHERE true AND b.v IS NOT NULL"},
			{"constant-conjunct", "true-eq-and-ordinary", "SELECT a.id AS o0, b.id AS o1 " + join + " WHERE 1 = 1 AND a.x >= " + lit},
			{"constant-conjunct", "not-true", "SELECT a.id AS o0, b.id AS o1 " + join + " WHERE NOT (1 = 1)"},
			{"constant-conjunct", "string-false", "SELECT a.id AS o0, b.id AS o1 " + join + " WHERE 'a' = 'b' AND a.a = " + num(1)},
			{"constant-conjunct", "cross-and-false", "SELECT a.id AS o0, b.id AS o1 " + join + " WHERE a.x >= b.v AND 1 = 2"},
			{"constant-conjunct", "comma-join", "SELECT a.id AS o0, b.id AS o1 FROM " + T + " a, " + R + " b WHERE a.k = b.k AND 1 = 2"},
			{"constant-conjunct", "in-on", "SELECT a.id AS o0, b.id AS o1 " + join + " AND 1 = 2"},
			{"constant-conjunct", "three-tables", "SELECT a.id AS o0, c.id AS o1 " + join + " JOIN " + T + " c ON c.k = b.k WHERE 2 < 1 AND c.a = " + num(1)},
			{"constant-conjunct", "inside-subquery", "SELECT q.o0 AS p0 FROM (SELECT a.id AS o0, b.v AS o1 " + join + " WHERE 1 = 2) q"},
			{"constant-conjunct", "under-group-by", "SELECT a.a AS o0, COUNT(*) AS o1 " + join + " WHERE 1 = 2 GROUP BY a.a"},
			{"constant-conjunct", "lookup-join", "SELECT a.id AS o0, b.id AS o1 FROM " + R + " a LOOKUP JOIN " + T + " b ON a.k = b.k WHERE 1 = 2"},
			{"constant-conjunct", "correlated-in", "SELECT o.id AS o0 FROM " + R + " o WHERE o.id IN (SELECT b.id " + join + " WHERE o.v >= " + lit + ")"},
			{"constant-conjunct", "correlated-in-mixed", "SELECT o.id AS o0 FROM " + R + " o WHERE o.id IN (SELECT b.id " + join + " WHERE o.v >= " + lit + " AND a.a = " + num(1) + ")"},
			{"constant-conjunct", "correlated-count", "SELECT o.id AS o0, (SELECT COUNT(*) " + join + " WHERE o.v < " + lit + ") AS o1 FROM " + R + " o"},
			{"constant-conjunct", "correlated-count-mixed", "SELECT o.id AS o0, (SELECT COUNT(*) " + join + " WHERE o.v < " + lit + " AND b.v >= " + num(0) + ") AS o1 FROM " + R + " o"},
		}
		// subquery-expression: a subquery in expression position (select list, function argument,
		// index, WHERE ... IN) projecting 2-4 columns evaluates to a list of structs; its extra
		// columns are referenced nowhere else, so a pruning rule that treats them as unused changes
		// the value. Single-column subqueries over joins / group-bys / DISTINCT are the controls.
		// json only (the value is a list of objects); list element order is canonicalised by the
		// driver because a subquery without ORDER BY has no defined order.
		corr2 := "(SELECT t.id, t.a FROM " + T + " t WHERE t.k = o.k)"
		sx := []dq{
			{"subquery-expression", "select-2col-correlated", "SELECT o.id AS o0, " + corr2 + " AS o1 FROM " + R + " o"},
			{"subquery-expression", "select-2col-uncorrelated", "SELECT o.id AS o0, (SELECT t.a AS a, t.b AS b FROM " + T + " t WHERE t.x >= " + lit + ") AS o1 FROM " + R + " o"},
			{"subquery-expression", "select-3col-uncorrelated", "SELECT o.id AS o0, (SELECT t.id AS i, t.a AS a, t.b AS b FROM " + T + " t) AS o1 FROM " + R + " o"},
			{"subquery-expression", "select-3col-correlated", "SELECT o.id AS o0, (SELECT t.b AS b, t.id AS i, t.x AS x FROM " + T + " t WHERE t.k = o.k AND t.a = " + num(1) + ") AS o1 FROM " + R + " o"},
			{"subquery-expression", "select-4col-expression", "SELECT o.id AS o0, (SELECT t.id AS i, t.a + " + num(1) + " AS a1, t.b AS b, t.x AS x FROM " + T + " t WHERE t.x >= " + lit + ") AS o1 FROM " + R + " o"},
			{"subquery-expression", "select-4col-correlated", "SELECT o.v AS o0, (SELECT t.x AS x, t.b AS b, t.a AS a, t.id AS i FROM " + T + " t WHERE t.k = o.k) AS o1 FROM " + R + " o"},
			{"subquery-expression", "index-2col", "SELECT o.id AS o0, " + corr2 + "[0] AS o1 FROM " + R + " o"},
			{"subquery-expression", "index-3col-uncorrelated", "SELECT o.id AS o0, (SELECT t.a AS a, t.b AS b, t.id AS i FROM " + T + " t)[1] AS o1 FROM " + R + " o"},
			{"subquery-expression", "len-2col", "SELECT o.id AS o0, len(" + corr2 + ") AS o1 FROM " + R + " o"},
			{"subquery-expression", "two-subqueries", "SELECT o.id AS o0, " + corr2 + " AS o1, (SELECT t.b AS b, t.x AS x FROM " + T + " t WHERE t.a = " + num(2) + ") AS o2 FROM " + R + " o"},
			{"subquery-expression", "where-in-2col", "SELECT o.id AS o0 FROM " + R + " o WHERE o.k IN (SELECT t.k, t.a FROM " + T + " t)"},
			{"subquery-expression", "where-in-3col-correlated", "SELECT o.id AS o0 FROM " + R + " o WHERE o.k IN (SELECT t.k, t.a, t.b FROM " + T + " t WHERE t.x >= o.v)"},
			{"subquery-expression", "where-not-in-2col", "SELECT o.id AS o0 FROM " + R + " o WHERE NOT (o.k IN (SELECT t.k, t.b FROM " + T + " t))"},
			{"subquery-expression", "where-index-not-null", "SELECT o.id AS o0 FROM " + R + " o WHERE " + corr2 + "[0] IS NOT NULL"},
			{"subquery-expression", "where-len", "SELECT o.id AS o0 FROM " + R + " o WHERE len(" + corr2 + ") > 1"},
			{"subquery-expression", "over-join-2col", "SELECT o.id AS o0, (SELECT a.id AS i, b.v AS v " + join + " WHERE b.id = o.id) AS o1 FROM " + R + " o"},
			{"subquery-expression", "over-join-3col-uncorrelated", "SELECT o.id AS o0, (SELECT b.v AS v, a.id AS i, a.b AS b " + join + " WHERE a.a = " + num(1) + ") AS o1 FROM " + R + " o"},
			{"subquery-expression", "group-by-2col", "SELECT o.id AS o0, (SELECT t.a AS a, COUNT(*) AS n FROM " + T + " t GROUP BY t.a) AS o1 FROM " + R + " o"},
			{"subquery-expression", "group-by-3col-correlated", "SELECT o.id AS o0, (SELECT t.a AS a, COUNT(*) AS n, MAX(t.b) AS m FROM " + T + " t WHERE t.k = o.k GROUP BY t.a) AS o1 FROM " + R + " o"},
			{"subquery-expression", "distinct-2col", "SELECT o.id AS o0, (SELECT DISTINCT t.a AS a, t.b AS b FROM " + T + " t) AS o1 FROM " + R + " o"},
			{"subquery-expression", "inside-from-subquery", "SELECT q.l AS o0 FROM (SELECT o.id AS i, " + corr2 + " AS l FROM " + R + " o) q"},
			{"subquery-expression", "above-join", "SELECT a.id AS o0, (SELECT t.b AS b, t.x AS x FROM " + T + " t WHERE t.id = a.id) AS o1 " + join},
			{"subquery-expression-control", "1col-correlated", "SELECT o.id AS o0, (SELECT t.id FROM " + T + " t WHERE t.k = o.k) AS o1 FROM " + R + " o"},
			{"subquery-expression-control", "1col-over-join", "SELECT o.id AS o0, (SELECT b.id " + join + " WHERE a.a = " + num(1) + " AND b.v >= o.v) AS o1 FROM " + R + " o"},
			{"subquery-expression-control", "1col-count", "SELECT o.id AS o0, (SELECT COUNT(*) FROM " + T + " t WHERE t.k = o.k) AS o1 FROM " + R + " o"},
			{"subquery-expression-control", "1col-group-by", "SELECT o.id AS o0, (SELECT MAX(t.b) FROM " + T + " t GROUP BY t.a) AS o1 FROM " + R + " o"},
			{"subquery-expression-control", "1col-group-by-over-join", "SELECT o.id AS o0, (SELECT COUNT(*) " + join + " WHERE b.v >= o.v GROUP BY a.a) AS o1 FROM " + R + " o"},
			{"subquery-expression-control", "1col-distinct", "SELECT o.id AS o0, (SELECT DISTINCT t.a FROM " + T + " t WHERE t.k = o.k) AS o1 FROM " + R + " o"},
			{"subquery-expression-control", "1col-in", "SELECT o.id AS o0 FROM " + R + " o WHERE o.k IN (SELECT t.k FROM " + T + " t WHERE t.a = " + num(1) + ")"},
			{"subquery-expression-control", "1col-index", "SELECT o.id AS o0, (SELECT t.id FROM " + T + " t WHERE t.k = o.k)[0] AS o1 FROM " + R + " o"},
		}
		// shared-key-column: one column of one join side equated with two or three different
		// columns / expressions of the other side (in ON and/or WHERE); the other side's expressions
		// agree on some rows and differ on others, so every equality matters.
		sel2 := "SELECT a.id AS o0, b.id AS o1 FROM " + T + " a JOIN " + R + " b ON "
		sk := []dq{
			{"shared-key-column", "left-on-where", sel2 + "a.a = b.k WHERE a.a = b.v"},
			{"shared-key-column", "left-on-on", sel2 + "a.a = b.k AND a.a = b.v"},
			{"shared-key-column", "left-on-on-swapped", sel2 + "a.a = b.k AND b.v = a.a"},
			{"shared-key-column", "left-swapped-first", sel2 + "b.k = a.b AND a.b = b.v"},
			{"shared-key-column", "left-where-where", "SELECT a.id AS o0, b.id AS o1 FROM " + T + " a JOIN " + R + " b WHERE a.x = b.k AND a.x = b.v"},
			{"shared-key-column", "left-comma", "SELECT a.id AS o0, b.id AS o1 FROM " + T + " a, " + R + " b WHERE a.a = b.k AND b.v = a.a"},
			{"shared-key-column", "left-three", sel2 + "a.a = b.k AND a.a = b.v WHERE a.a + " + num(9) + " = b.id"},
			{"shared-key-column", "left-expression", sel2 + "a.b = b.k AND a.b = b.v + " + num(1)},
			{"shared-key-column", "left-with-other-key", sel2 + "a.a = b.k AND a.x = b.v AND a.a = b.v"},
			{"shared-key-column", "left-with-filter", sel2 + "a.a = b.k AND a.x >= " + lit + " WHERE b.v = a.a AND b.id > " + num(0)},
			{"shared-key-column", "right-on-where", sel2 + "a.a = b.k WHERE a.b = b.k"},
			{"shared-key-column", "right-on-on", sel2 + "a.a = b.k AND a.x = b.k"},
			{"shared-key-column", "right-on-on-swapped", sel2 + "b.v = a.a AND a.b = b.v"},
			{"shared-key-column", "right-three", sel2 + "a.a = b.k AND a.b = b.k AND b.k = a.x"},
			{"shared-key-column", "right-comma", "SELECT a.id AS o0, b.id AS o1 FROM " + T + " a, " + R + " b WHERE b.v = a.a AND b.v = a.x"},
			{"shared-key-column", "three-tables", "SELECT a.id AS o0, b.id AS o1, c.id AS o2 FROM " + T + " a JOIN " + R + " b ON a.a = b.k JOIN " + R + " c ON a.a = c.k AND a.a = c.v WHERE a.a = b.v"},
			{"shared-key-column", "inside-subquery", "SELECT q.o0 AS p0 FROM (SELECT a.id AS o0, b.v AS o1 FROM " + T + " a JOIN " + R + " b ON a.a = b.k WHERE a.a = b.v) q"},
			{"shared-key-column", "under-group-by", "SELECT a.a AS o0, COUNT(*) AS o1 FROM " + T + " a JOIN " + R + " b ON a.a = b.k AND a.a = b.v GROUP BY a.a"},
		}
		for qi, q := range sk {
			out = append(out, &tcase{
				sql: q.sql, files: files, mode: []string{"json", "csv", "stream_native", "batch_table"}[(qi+rep)%4], procs: []int{1, 2, 16}[rng.Intn(3)],
				shape: "directed-" + q.family, feat: []string{"directed/" + q.family + "/" + q.name, "directed-format/" + format},
			})
		}
		for _, q := range sx {
			out = append(out, &tcase{
				sql: q.sql, files: files, mode: "json", procs: []int{1, 2, 16}[rng.Intn(3)],
				shape: "directed-" + q.family, feat: []string{"directed/" + q.family + "/" + q.name, "directed-format/" + format},
			})
		}
		for qi, q := range qs {
			modes := []string{"json", "csv", "stream_native", "batch_table"}
			if strings.Contains(q.sql, "(SELECT COUNT(*)") {
				modes = []string{"json", "stream_native", "batch_table"} // a scalar subquery is a list
			}
			out = append(out, &tcase{
				sql: q.sql, files: files, mode: modes[(qi+rep+rng.Intn(4))%len(modes)], procs: []int{1, 2, 16}[rng.Intn(3)],
				shape: "directed-" + q.family, feat: []string{"directed/" + q.family + "/" + q.name, "directed-format/" + format},
			})
		}
	}
	return out
}

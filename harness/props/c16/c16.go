// Package c16: triggers change when results appear, never what the final result is.
//
// R (refutation): the consolidated output at end of stream differs from the plain batch grouping
// of the (consolidated) input.
// O: own reference grouping (count(*), count(v), sum, min, max over a signed multiset of rows;
// rows keyed by a canonical encoding in which a time is its instant).
// W: in-process: real SQL `GROUP BY ... TRIGGER <cfg>` over a memdb table for EVERY non-empty
// subset of {COUNTING n (n = 1..4), ON WATERMARK, ON END OF STREAM} in every order (48
// configurations) plus the default (no TRIGGER clause), x generated watermarked changelogs with
// retractions whose event times are presented in mixed time.Locations, x four key shapes
// (ts,k / k,ts / ts / k). CLI leg: the real binary, `-o stream_native`, a JSON file behind
// max_diff_watermark + tumble, the same 49 configurations.
package c16

import (
	"context"
	"encoding/json"
	"fmt"
	"math/rand"
	"os"
	"strconv"
	"strings"
	"time"

	"github.com/cube2222/octosql/octosql"
	"github.com/cube2222/octosql/physical"

	"github.com/cube2222/octosql/plugins/verifharness/cli"
	"github.com/cube2222/octosql/plugins/verifharness/core"
	"github.com/cube2222/octosql/plugins/verifharness/nodeh"
	"github.com/cube2222/octosql/plugins/verifharness/props/trigh"
)

func init() { core.Register("C16", Run) }

const findingKey = "watermark-trigger-time-eq"

var selftest = os.Getenv("VERIF_SELFTEST") == "1"

// =============================================================================================
// in-process leg

type shape struct {
	name    string
	keys    []string // key columns in order: "ts" and/or "k"
	allowsW bool
	// noStar: every aggregate is over the nullable column v (no COUNT(*), whose argument is
	// never NULL): a group whose v is NULL in every record must still appear, as (key, NULLs)
	noStar bool
}

var shapes = []shape{
	{"tk", []string{"ts", "k"}, true, false},
	{"kt", []string{"k", "ts"}, true, false},
	{"t", []string{"ts"}, true, false},
	{"k", []string{"k"}, false, false},
	// keys from value families whose members are DISTINCT group keys but hash alike in
	// octosql.Value.hash (NULL / Int 0 / Float 0.0 / false all feed 0; structs hash nothing):
	// the columns n, u, st are functions of k (see derivedKey), so these group like k does
	{"n", []string{"n"}, false, false},
	{"tn", []string{"ts", "n"}, true, false},
	{"u", []string{"u"}, false, false},
	{"tu", []string{"ts", "u"}, true, false},
	{"st", []string{"st"}, false, false},
	{"nk", []string{"n", "k"}, false, false},
}

var structType = octosql.Type{TypeID: octosql.TypeIDStruct, Struct: struct{ Fields []octosql.StructField }{Fields: []octosql.StructField{{Name: "x", Type: octosql.Int}}}}

// derivedKey: the value of key column col for the record whose string key is k ('a'..'d').
// n: NULL, 0, 1, 2 (nullable Int); u: NULL, Int 0, Float 0.0, false (union); st: {x: 1..4}.
func derivedKey(col, k string) octosql.Value {
	i := int(k[0] - 'a')
	switch col {
	case "k":
		return octosql.NewString(k)
	case "n":
		if i == 0 {
			return octosql.NewNull()
		}
		return octosql.NewInt(int64(i - 1))
	case "u":
		return []octosql.Value{octosql.NewNull(), octosql.NewInt(0), octosql.NewFloat(0), octosql.NewBoolean(false)}[i%4]
	default:
		return octosql.NewStruct([]octosql.Value{octosql.NewInt(int64(i + 1))})
	}
}

func (sh shape) sql(cfg trigh.Config) string {
	star := ", COUNT(*) AS c"
	if sh.noStar {
		star = ""
	}
	return "SELECT " + strings.Join(sh.keys, ", ") + star + ", COUNT(v) AS cv, SUM(v) AS s, MIN(v) AS mn, MAX(v) AS mx FROM m.t GROUP BY " +
		strings.Join(sh.keys, ", ") + cfg.Clause()
}

var tableFields = []physical.SchemaField{
	{Name: "ts", Type: octosql.Time},
	{Name: "k", Type: octosql.String},
	{Name: "v", Type: octosql.TypeSum(octosql.Int, octosql.Null)},
	{Name: "n", Type: octosql.TypeSum(octosql.Int, octosql.Null)},
	{Name: "u", Type: octosql.TypeSum(octosql.TypeSum(octosql.Int, octosql.Float), octosql.TypeSum(octosql.Boolean, octosql.Null))},
	{Name: "st", Type: structType},
}

type row struct {
	tick int
	k    string
	v    *int
}

type ev struct {
	isWM bool
	wm   int
	r    row
	retr bool
	loc  *time.Location
}

func (e ev) String() string {
	if e.isWM {
		return fmt.Sprintf("~%d", e.wm)
	}
	sign := "+"
	if e.retr {
		sign = "-"
	}
	v := "NULL"
	if e.r.v != nil {
		v = strconv.Itoa(*e.r.v)
	}
	loc := ""
	if e.loc != nil && e.loc != time.UTC {
		loc = "[" + trigh.LocName(e.loc) + "]"
	}
	return fmt.Sprintf("%s(%d%s,%s,%s)", sign, e.r.tick, loc, e.r.k, v)
}

func evsString(evs []ev) string {
	parts := make([]string, len(evs))
	for i, e := range evs {
		parts[i] = e.String()
	}
	return strings.Join(parts, " ")
}

func (e ev) time() time.Time {
	t := trigh.Tick(e.r.tick)
	if e.loc != nil {
		t = t.In(e.loc)
	}
	return t
}

func toEvents(evs []ev) []nodeh.Event {
	out := make([]nodeh.Event, len(evs))
	for i, e := range evs {
		if e.isWM {
			out[i] = nodeh.WM(trigh.Tick(e.wm))
			continue
		}
		t := e.time()
		v := octosql.NewNull()
		if e.r.v != nil {
			v = octosql.NewInt(int64(*e.r.v))
		}
		out[i] = nodeh.Rec([]octosql.Value{octosql.NewTime(t), octosql.NewString(e.r.k), v, derivedKey("n", e.r.k), derivedKey("u", e.r.k), derivedKey("st", e.r.k)}, e.retr, t)
	}
	return out
}

// genStream: a multiset of rows is built up by a random valid interleaving of insertions and
// retractions (a retraction only of a row currently present; it carries the same values, hence
// the same ts = event time, so the history is valid in arrival and in event-time order), with
// strictly increasing watermarks placed so that no record is late.
// locMode: 0 all UTC; 1 one Location per instant (mixed, but equal instants are identical
// structs); 2 a random Location per record (the same instant appears in several Locations).
func genStream(rng *rand.Rand, n int, locMode int, nullMode int) []ev {
	var evs []ev
	var present []row
	w := 0
	const maxTick = 9
	tickLoc := make([]*time.Location, maxTick+1)
	for i := range tickLoc {
		tickLoc[i] = trigh.LocPool[rng.Intn(len(trigh.LocPool))]
	}
	loc := func(tick int) *time.Location {
		switch locMode {
		case 1:
			return tickLoc[tick]
		case 2:
			return trigh.LocPool[rng.Intn(len(trigh.LocPool))]
		}
		return nil
	}
	nKeys := 2 + rng.Intn(3)
	// nullMode 1: one key whose v is NULL in every record (a NULL-only group next to normal
	// ones: count(*) counts, count(v)/sum/min/max are NULL), more NULLs elsewhere, and groups
	// that lost a row are refilled with NULL-valued records
	nullKey := ""
	if nullMode == 1 {
		nullKey = string(rune('a' + rng.Intn(nKeys)))
	}
	var emptied []row
	for iter := 0; len(evs) < n && iter < 30*n; iter++ {
		r := rng.Intn(12)
		switch {
		case r <= 1:
			if w >= maxTick-1 {
				continue
			}
			w += 1 + rng.Intn(2)
			evs = append(evs, ev{isWM: true, wm: w})
		case r <= 5:
			var cand []int
			for i, p := range present {
				if p.tick > w {
					cand = append(cand, i)
				}
			}
			if len(cand) == 0 {
				continue
			}
			i := cand[rng.Intn(len(cand))]
			p := present[i]
			present = append(present[:i], present[i+1:]...)
			emptied = append(emptied, p)
			evs = append(evs, ev{r: p, retr: true, loc: loc(p.tick)})
		default:
			if w >= maxTick {
				continue
			}
			tick := w + 1 + rng.Intn(3)
			if tick > maxTick {
				tick = maxTick
			}
			rw := row{tick: tick, k: string(rune('a' + rng.Intn(nKeys)))}
			if rng.Intn(5) != 0 {
				v := rng.Intn(7) - 2
				rw.v = &v
			}
			if nullMode == 1 {
				if rw.k == nullKey || rng.Intn(3) == 0 {
					rw.v = nil
				}
				if len(emptied) > 0 && rng.Intn(3) == 0 {
					if e := emptied[rng.Intn(len(emptied))]; e.tick > w {
						rw = row{tick: e.tick, k: e.k}
					}
				}
			}
			present = append(present, rw)
			evs = append(evs, ev{r: rw, loc: loc(tick)})
		}
	}
	return evs
}

// reference: plain batch grouping of the consolidated input
func reference(sh shape, evs []ev) (nodeh.Multiset, map[string]string) {
	type g struct {
		tick int
		k    string
		agg  *trigh.Agg
	}
	// consolidate the input first (signed multiset of rows), then group
	type rk struct {
		tick int
		k    string
		null bool
		v    int
	}
	cons := map[rk]int{}
	for _, e := range evs {
		if e.isWM {
			continue
		}
		key := rk{tick: e.r.tick, k: e.r.k, null: e.r.v == nil}
		if e.r.v != nil {
			key.v = *e.r.v
		}
		if e.retr {
			cons[key]--
		} else {
			cons[key]++
		}
	}
	groups := map[string]*g{}
	for key, mult := range cons {
		if mult == 0 {
			continue
		}
		gid := ""
		for _, col := range sh.keys {
			if col == "ts" {
				gid += fmt.Sprintf("t%d|", key.tick)
			} else if col == "k" || col == "n" || col == "u" || col == "st" {
				gid += "k" + key.k + "|" // n, u, s are injective functions of k
			}
		}
		gr := groups[gid]
		if gr == nil {
			gr = &g{tick: key.tick, k: key.k, agg: trigh.NewAgg()}
			groups[gid] = gr
		}
		var vp *int
		if !key.null {
			v := key.v
			vp = &v
		}
		for i := 0; i < mult; i++ {
			gr.agg.Add(false, vp)
		}
		for i := 0; i > mult; i-- {
			gr.agg.Add(true, vp)
		}
	}
	out := nodeh.Multiset{}
	keyOf := map[string]string{} // row -> group key columns (RowKey)
	for _, gr := range groups {
		if gr.agg.Rows == 0 {
			continue
		}
		var vals []octosql.Value
		for _, col := range sh.keys {
			if col == "ts" {
				vals = append(vals, octosql.NewTime(trigh.Tick(gr.tick)))
			} else {
				vals = append(vals, derivedKey(col, gr.k))
			}
		}
		kk := nodeh.RowKey(vals)
		c, cv, s, mn, mx := gr.agg.Values()
		if sh.noStar {
			vals = append(vals, cv, s, mn, mx)
		} else {
			vals = append(vals, c, cv, s, mn, mx)
		}
		rkey := nodeh.RowKey(vals)
		out.Add(rkey, 1)
		keyOf[rkey] = kk
	}
	return out, keyOf
}

// collidingGroups: group keys (RowKey of the key columns) that share their instant with a
// DIFFERENT group key while the two time values are in different Locations (input predicate of
// the known finding).
func collidingGroups(sh shape, evs []ev) map[string]bool {
	type kt struct {
		key string
		t   time.Time
	}
	var all []kt
	for _, e := range evs {
		if e.isWM {
			continue
		}
		var vals []octosql.Value
		hasT := false
		for _, col := range sh.keys {
			if col == "ts" {
				vals = append(vals, octosql.NewTime(trigh.Tick(e.r.tick)))
				hasT = true
			} else {
				vals = append(vals, derivedKey(col, e.r.k))
			}
		}
		if !hasT {
			return nil
		}
		all = append(all, kt{nodeh.RowKey(vals), e.time()})
	}
	out := map[string]bool{}
	for i := range all {
		for j := range all {
			if all[i].key != all[j].key && trigh.SameInstantDifferentRepr(all[i].t, all[j].t) {
				out[all[i].key] = true
				out[all[j].key] = true
			}
		}
	}
	return out
}

type inCase struct {
	id       string
	cfg      trigh.Config
	sh       shape
	evs      []ev
	optimize bool
	locMode  int
	alt      []ev // a different stream for a further run of the same plan
	// lookup: the triggered group-by is the joined side of a LOOKUP JOIN over 3 left rows
	// (octosql runs that node once per left row within one query)
	lookup bool
}

var leftIDs = []int64{7, 8, 9}

func leftTable() *nodeh.Table {
	var evs []nodeh.Event
	for _, id := range leftIDs {
		evs = append(evs, nodeh.Rec([]octosql.Value{octosql.NewInt(id)}, false, time.Time{}))
	}
	return &nodeh.Table{Fields: []physical.SchemaField{{Name: "id", Type: octosql.Int}}, TimeField: -1, Events: evs}
}

func (sh shape) lookupSQL(cfg trigh.Config) string {
	cols := make([]string, len(sh.keys))
	for i, k := range sh.keys {
		cols[i] = "g." + k + " AS " + k
	}
	star := ", g.c AS c"
	if sh.noStar {
		star = ""
	}
	return "SELECT o.id AS id, " + strings.Join(cols, ", ") + star + ", g.cv AS cv, g.s AS s, g.mn AS mn, g.mx AS mx FROM m.o o LOOKUP JOIN (" + sh.sql(cfg) + ") g"
}

// runIn plans the query once and judges every execution of the same materialized plan with the
// final-result oracle: the first run, a second run over the same stream, a third over a
// different stream (a node that is run again must give the batch result again).
func runIn(c *core.Ctx, cs inCase, corrupt bool) {
	sql := cs.sh.sql(cs.cfg)
	var extra map[string]*nodeh.Table
	if cs.lookup {
		sql = cs.sh.lookupSQL(cs.cfg)
		extra = map[string]*nodeh.Table{"o": leftTable()}
	}
	h, perr := trigh.PlanSteps(context.Background(), sql, tableFields, 0, cs.optimize, extra)
	if perr != nil {
		c.Eval(1)
		c.Violation("plan-error:"+perr.Stage, "query was rejected: "+perr.Error(), map[string]interface{}{"id": cs.id, "sql": sql})
		return
	}
	type run struct {
		evs   []ev
		label string
	}
	runs := []run{{cs.evs, ""}, {cs.evs, "rerun-same-stream"}}
	if cs.alt != nil {
		runs = append(runs, run{cs.alt, "rerun-other-stream"})
	}
	for i, r := range runs {
		events := toEvents(r.evs)
		outs, res := h.Run(context.Background(), events)
		if !judgeIn(c, cs, r.evs, sql, events, outs, res, r.label, corrupt && i == 0) {
			return
		}
	}
}

func judgeIn(c *core.Ctx, cs inCase, stream []ev, sql string, events []nodeh.Event, outs []nodeh.Out, res nodeh.RunResult, label string, corrupt bool) bool {
	c.Eval(1)
	cs.evs = stream
	replay := map[string]interface{}{"id": cs.id, "leg": "in-process", "sql": sql, "optimize": cs.optimize, "input": evsString(cs.evs), "input_events": nodeh.EventsString(events)}
	if label != "" {
		replay["run"] = label
	}
	replay["output"] = nodeh.OutsString(outs)
	if res.Panicked {
		c.Violation("panic:"+core.PanicSite(res.Stack), "query panicked: "+res.PanicMsg, replay)
		return false
	}
	if res.Err != nil {
		c.Violation("error", "query returned error: "+res.Err.Error(), replay)
		return false
	}
	if corrupt {
		// self-test: drop the last emitted insertion from the recording
		for i := len(outs) - 1; i >= 0; i-- {
			if !outs[i].IsWatermark && !outs[i].Record.Retraction {
				outs = append(append([]nodeh.Out{}, outs[:i]...), outs[i+1:]...)
				break
			}
		}
	}
	got := nodeh.ConsolidateOuts(outs, -1)
	want, keyOf := reference(cs.sh, cs.evs)
	if cs.lookup {
		// every left row joined with the batch grouping
		joined := nodeh.Multiset{}
		jk := map[string]string{}
		for _, id := range leftIDs {
			for rk, n := range want {
				k := nodeh.RowKey([]octosql.Value{octosql.NewInt(id)}) + "|" + rk
				joined.Add(k, n)
				jk[k] = keyOf[rk]
			}
		}
		want, keyOf = joined, jk
	}
	replay["expected"] = want.String()
	replay["consolidated_output"] = got.String()
	if !got.Equal(want) {
		key := "final-result-differs:" + cs.cfg.Name() + "@" + cs.sh.name
		if cs.lookup {
			key = "lookup-join-" + key
		}
		if label != "" {
			key = "rerun-differs:" + key
		}
		if corrupt {
			key = "selftest:final-result-differs"
		} else if cs.cfg.Has('W') {
			// predicate: every missing row belongs to a group key whose instant is shared with
			// another group key in a different Location; symptom: rows are missing, nothing else.
			col := collidingGroups(cs.sh, cs.evs)
			onlyMissing := true
			for rk, n := range got {
				if want[rk] < n {
					onlyMissing = false
				}
			}
			for rk, n := range want {
				if got[rk] < n && !col[keyOf[rk]] {
					onlyMissing = false
				}
			}
			if onlyMissing && len(col) > 0 {
				key = findingKey
			}
		}
		c.Violation(key, fmt.Sprintf("consolidated output at end of stream %s differs from the batch grouping %s (output - expected = %s)", got, want, got.Diff(want)), replay)
		return false
	}
	nullOnly := 0
	for rk := range want {
		if strings.HasSuffix(rk, "|NULL|NULL|NULL|NULL") {
			nullOnly++
		}
	}
	c.Count("in/final_rows_of_null_only_groups", nullOnly)
	if label != "" {
		c.Count("in/reruns_judged/"+label, 1)
		return true
	}
	if cs.lookup {
		c.Count("in/lookup_join_cases", 1)
	}
	nRec, nRetr, nWM := 0, 0, 0
	for _, e := range cs.evs {
		if e.isWM {
			nWM++
		} else {
			nRec++
			if e.retr {
				nRetr++
			}
		}
	}
	emitted, emittedRetr, beforeEnd := 0, 0, 0
	for _, o := range outs {
		if o.IsWatermark {
			continue
		}
		emitted++
		if o.Record.Retraction {
			emittedRetr++
		}
		if o.Step < len(cs.evs) {
			beforeEnd++
		}
	}
	c.Count("in/config/"+cs.cfg.Name(), 1)
	c.Count("in/shape/"+cs.sh.name, 1)
	c.Count(fmt.Sprintf("in/locmode/%d", cs.locMode), 1)
	c.Count("in/emitted_records", emitted)
	c.Count("in/emitted_retractions", emittedRetr)
	c.Count("in/emitted_before_end_of_stream", beforeEnd)
	c.Count("in/final_rows", want.Total())
	if beforeEnd > 0 {
		c.Count("in/cases_with_early_results", 1)
	}
	if nRec >= 4 && nRetr >= 1 && nWM >= 1 && want.Total() >= 1 {
		c.Nontrivial("in|" + cs.cfg.Name() + "|" + cs.sh.name + "|" + evsString(cs.evs))
	}
	if h := core.Hash(cs.id); h[0] == '0' && h[1] < '2' {
		delete(replay, "input_events")
		c.Sample(replay)
	}
	return true
}

// =============================================================================================
// CLI leg

type jrow struct {
	unix int64 // seconds
	off  string
	usr  string
	v    int
}

func (r jrow) timeText() string {
	t := time.Unix(r.unix, 0).UTC()
	switch r.off {
	case "Z":
		return t.Format("2006-01-02T15:04:05") + "Z"
	case "+00:00":
		return t.Format("2006-01-02T15:04:05") + "+00:00"
	case "+02:00":
		return t.Add(2*time.Hour).Format("2006-01-02T15:04:05") + "+02:00"
	default:
		return t.Add(-(5*time.Hour + 30*time.Minute)).Format("2006-01-02T15:04:05") + "-05:30"
	}
}

// genFile: times never fall at or below (largest time seen, rounded down to the second) - 5 s,
// so max_diff_watermark(max_diff => 5 s) drops nothing. offMode: 0 only Z; 1 only +00:00;
// 2 mixed offsets.
func genFile(rng *rand.Rand, n int, offMode int) []jrow {
	base := trigh.Base.Unix()
	cur := base + 1
	maxSeen := cur
	var rows []jrow
	offs := []string{"Z", "+00:00", "+02:00", "-05:30"}
	for i := 0; i < n; i++ {
		switch r := rng.Intn(10); {
		case r < 4:
		case r < 8:
			cur += int64(1 + rng.Intn(4))
		default:
			cur += int64(6 + rng.Intn(9))
		}
		t := cur
		if rng.Intn(4) == 0 {
			t = cur - int64(rng.Intn(4)) // out of order by at most 3 s: never late
			if t <= maxSeen-4 {
				t = maxSeen - 3
			}
		}
		if t > maxSeen {
			maxSeen = t
		}
		off := "Z"
		switch offMode {
		case 1:
			off = "+00:00"
		case 2:
			off = offs[rng.Intn(len(offs))]
		}
		rows = append(rows, jrow{unix: t, off: off, usr: string(rune('a' + rng.Intn(3))), v: rng.Intn(9) - 2})
	}
	return rows
}

func fileBytes(rows []jrow) []byte {
	var sb strings.Builder
	for _, r := range rows {
		fmt.Fprintf(&sb, "{\"time\":%q,\"usr\":%q,\"v\":%d}\n", r.timeText(), r.usr, r.v)
	}
	return []byte(sb.String())
}

const windowSeconds = 10

func windowEnd(unix int64) int64 {
	// tumble: start = t truncated to a multiple of the window length (since the zero time, which
	// is a whole number of 10 s windows before the Unix epoch), end = start + length
	return unix/windowSeconds*windowSeconds + windowSeconds
}

func cliSQL(cfg trigh.Config) string {
	return "WITH w AS (SELECT * FROM max_diff_watermark(source=>TABLE(t.json), max_diff=>INTERVAL 5 SECONDS, time_field=>DESCRIPTOR(time)) c), " +
		"tt AS (SELECT * FROM tumble(source=>TABLE(w), window_length=>INTERVAL 10 SECONDS, offset=>INTERVAL 0 SECONDS) x) " +
		"SELECT window_end, usr, COUNT(*) AS c, SUM(v) AS s FROM tt GROUP BY window_end, usr" + cfg.Clause()
}

type cliCase struct {
	id      string
	cfg     trigh.Config
	rows    []jrow
	offMode int
}

func runCLI(c *core.Ctx, r *cli.Runner, cs cliCase, corrupt bool) {
	c.Eval(1)
	sql := cliSQL(cs.cfg)
	file := fileBytes(cs.rows)
	replay := map[string]interface{}{"id": cs.id, "leg": "cli", "argv": []string{sql, "-o", "stream_native"}, "t.json": string(file)}
	res := r.Exec(cli.Run{Args: []string{sql, "-o", "stream_native"}, Files: map[string][]byte{"t.json": file}, Timeout: 60 * time.Second})
	if res.TimedOut {
		c.Inconclusive("watchdog")
		return
	}
	replay["stdout"] = string(res.Stdout)
	replay["stderr"] = string(res.Stderr)
	replay["exit"] = res.Exit
	if res.Panicked() {
		site, msg := res.PanicSite()
		c.Violation("panic:"+site, "octosql crashed: "+msg, replay)
		return
	}
	if res.Exit != 0 {
		c.Violation("cli-error", fmt.Sprintf("octosql exited %d: %s", res.Exit, firstLine(res.Stderr)), replay)
		return
	}
	recs, err := cli.DecodeStreamNative(res.Stdout)
	if err != nil {
		c.Violation("cli-undecodable", "stream_native output not decodable: "+err.Error(), replay)
		return
	}
	got := nodeh.Multiset{}
	nRetr, nRec := 0, 0
	for _, rec := range recs {
		if rec.IsWatermark {
			continue
		}
		if len(rec.Cells) != 4 {
			c.Violation("cli-undecodable", "record with unexpected cell count: "+rec.Raw, replay)
			return
		}
		t, err := time.Parse(time.RFC3339, rec.Cells[0])
		if err != nil {
			c.Violation("cli-undecodable", "window_end cell is not RFC3339: "+rec.Raw, replay)
			return
		}
		key := fmt.Sprintf("%d|%s|%s|%s", t.Unix(), strings.Trim(rec.Cells[1], "'"), rec.Cells[2], rec.Cells[3])
		nRec++
		if rec.Retraction {
			nRetr++
			got.Add(key, -1)
		} else {
			got.Add(key, 1)
		}
	}
	if corrupt {
		for k := range got {
			got.Add(k, -1)
			break
		}
	}
	// reference
	type gk struct {
		we  int64
		usr string
	}
	cnt := map[gk]int{}
	sum := map[gk]int{}
	nonZ := map[int64]bool{} // window_end -> some record of that window carries a non-Z offset
	users := map[int64]map[string]bool{}
	for _, row := range cs.rows {
		k := gk{windowEnd(row.unix), row.usr}
		cnt[k]++
		sum[k] += row.v
		if row.off != "Z" {
			nonZ[k.we] = true
		}
		if users[k.we] == nil {
			users[k.we] = map[string]bool{}
		}
		users[k.we][row.usr] = true
	}
	want := nodeh.Multiset{}
	weOf := map[string]int64{}
	for k, n := range cnt {
		key := fmt.Sprintf("%d|%s|%d|%d", k.we, k.usr, n, sum[k])
		want.Add(key, 1)
		weOf[key] = k.we
	}
	replay["expected"] = want.String()
	replay["consolidated_output"] = got.String()
	if !got.Equal(want) {
		key := "cli-final-result-differs:" + cs.cfg.Name()
		if corrupt {
			key = "selftest:cli-final-result-differs"
		} else if cs.cfg.Has('W') {
			// predicate (as visible from the file): the missing group shares its window_end with
			// another user's group and a record of that window carries a non-Z offset, i.e. a
			// time.Parse'd Location other than UTC; symptom: rows missing, nothing else.
			onlyMissing := true
			for rk, n := range got {
				if want[rk] < n {
					onlyMissing = false
				}
			}
			any := false
			for rk, n := range want {
				if got[rk] < n {
					we := weOf[rk]
					if nonZ[we] && len(users[we]) >= 2 {
						any = true
					} else {
						onlyMissing = false
					}
				}
			}
			if onlyMissing && any {
				key = findingKey
			}
		}
		c.Violation(key, fmt.Sprintf("consolidated stream_native output %s differs from the batch grouping %s (output - expected = %s)", got, want, got.Diff(want)), replay)
		return
	}
	c.Count("cli/config/"+cs.cfg.Name(), 1)
	c.Count(fmt.Sprintf("cli/offmode/%d", cs.offMode), 1)
	c.Count("cli/emitted_records", nRec)
	c.Count("cli/emitted_retractions", nRetr)
	c.Count("cli/final_rows", want.Total())
	if len(cs.rows) >= 4 && want.Total() >= 2 {
		c.Nontrivial("cli|" + cs.cfg.Name() + "|" + string(file))
	}
	if h := core.Hash(cs.id); h[0] == '0' {
		delete(replay, "stderr")
		c.Sample(replay)
	}
}

func firstLine(b []byte) string {
	s := string(b)
	if i := strings.Index(s, "\n"); i >= 0 {
		s = s[:i]
	}
	if len(s) > 300 {
		s = s[:300]
	}
	return s
}

// =============================================================================================

func replayID(c *core.Ctx) {
	if c.Replay == "" {
		return
	}
	data, err := os.ReadFile(c.Replay)
	if err != nil {
		return
	}
	var body struct {
		Case struct {
			ID string `json:"id"`
		} `json:"case"`
	}
	if json.Unmarshal(data, &body) == nil && body.Case.ID != "" {
		c.Only = body.Case.ID
	}
}

func Run(c *core.Ctx) core.FinishOpts {
	replayID(c)
	configs := append([]trigh.Config{{}}, trigh.AllConfigs(4)...)
	c.Note("configurations", len(configs))
	names := make([]string, len(configs))
	for i, cfg := range configs {
		names[i] = cfg.Name()
	}
	c.Note("configuration_list", strings.Join(names, " "))

	// ---- in-process: every stream under every configuration its shape admits
	nStreams := c.Pick(30, 500)
	rng := c.Rng("streams")
	var cases []inCase
	// fixed witness of the anticipated finding first: (00:00:01Z,'a') and (02:00:01+02:00,'b')
	{
		one, two := 1, 2
		w := []ev{{r: row{1, "a", &one}}, {r: row{1, "b", &two}, loc: trigh.LocPool[1]}, {r: row{3, "a", &one}}, {isWM: true, wm: 2}, {r: row{4, "b", &two}}}
		for _, cfg := range configs {
			cases = append(cases, inCase{id: "in-witness/" + cfg.Name(), cfg: cfg, sh: shapes[0], evs: w, optimize: true, locMode: 2})
		}
	}
	// fixed streams with NULL aggregate arguments, under every configuration and shape:
	// (0) key a is emitted, emptied by retractions and refilled with NULL-only records (with
	// COUNTING 3 between two firings), next to a normal key; (1) a NULL-only group next to a
	// normal one across a watermark; (2) emptied, then NULL-only
	{
		five, two, three, four := 5, 2, 3, 4
		r := func(tick int, k string, v *int, retr bool) ev { return ev{r: row{tick, k, v}, retr: retr} }
		ws := [][]ev{
			{r(1, "a", &five, false), r(1, "a", &five, false), r(1, "a", &five, true), r(1, "b", &two, false), r(1, "a", &five, true), r(1, "a", nil, false), r(1, "a", nil, false), {isWM: true, wm: 1}, r(2, "b", &three, false)},
			{r(1, "n", nil, false), r(1, "a", &three, false), r(1, "n", nil, false), {isWM: true, wm: 1}, r(2, "n", nil, false), r(2, "a", &four, false), r(2, "n", nil, false), r(2, "n", nil, true)},
			{r(1, "a", &five, false), r(1, "a", &five, true), r(1, "a", nil, false), r(1, "a", nil, false), r(1, "a", nil, false), r(1, "a", nil, false)},
		}
		// (3) distinct keys that hash alike (n: NULL/0, u: NULL/0/0.0/false, s: structs), each
		// later key with an odd number of records so that it still has un-emitted changes when
		// several triggers flush at the end
		ws = append(ws, []ev{r(1, "a", &two, false), r(1, "b", &three, false), r(1, "b", &four, false), r(1, "b", &five, false), r(1, "c", &two, false), r(1, "d", &three, false), r(1, "d", &three, false), r(1, "d", &five, false), {isWM: true, wm: 1}, r(2, "b", &two, false), r(2, "a", &four, false), r(2, "a", &four, false), r(2, "c", &five, false), r(2, "c", &five, false), r(2, "c", &two, false)})
		for wi, w := range ws {
			for _, sh0 := range shapes {
				for _, noStar := range []bool{false, true} {
					sh := sh0
					sh.noStar = noStar
					if noStar {
						sh.name += "-nostar"
					}
					for _, cfg := range configs {
						if cfg.Has('W') && !sh.allowsW {
							continue
						}
						cases = append(cases, inCase{id: fmt.Sprintf("in-nullwit/%d/%s/%s", wi, sh.name, cfg.Name()), cfg: cfg, sh: sh, evs: w, optimize: true})
					}
				}
			}
		}
	}
	for s := 0; s < nStreams; s++ {
		var sh shape
		switch r := rng.Intn(20); {
		case r < 7:
			sh = shapes[0]
		case r < 9:
			sh = shapes[1]
		case r < 11:
			sh = shapes[2]
		case r < 12:
			sh = shapes[3]
		default:
			// keys from the hash-alike value families: n, tn, tn, u, tu, tu, s, nk
			sh = shapes[[]int{4, 5, 5, 6, 7, 7, 8, 9}[r-12]]
		}
		locMode := []int{0, 1, 1, 2, 2}[rng.Intn(5)]
		nullMode := s % 2 // every second stream carries NULL-only groups and NULL refills
		if s%4 == 1 {
			sh.noStar = true // ... and half of those are grouped without COUNT(*)
			sh.name += "-nostar"
		}
		evs := genStream(rng, 8+rng.Intn(c.Pick(25, 40)), locMode, nullMode)
		alt := genStream(rng, 6+rng.Intn(14), locMode, nullMode)
		optimize := rng.Intn(4) != 0
		for ci, cfg := range configs {
			if cfg.Has('W') && !sh.allowsW {
				continue
			}
			cs := inCase{id: fmt.Sprintf("in/%d/%s", s, cfg.Name()), cfg: cfg, sh: sh, evs: evs, optimize: optimize, locMode: locMode}
			if (s+ci)%2 == 0 {
				cs.alt = alt
			}
			cases = append(cases, cs)
			if (s+ci)%5 == 0 {
				lc := cs
				lc.id = fmt.Sprintf("in-lookup/%d/%s", s, cfg.Name())
				lc.alt = nil
				lc.lookup = true
				cases = append(cases, lc)
			}
		}
	}
	c.Note("in_process_streams", nStreams)
	core.Parallel(len(cases), 16, func(i int) {
		cs := cases[i]
		if c.Only != "" && c.Only != cs.id {
			return
		}
		runIn(c, cs, selftest && i%211 == 0)
	})

	// ---- CLI
	r := cli.NewRunner(c.BinDir, c.Scratch)
	nFiles := c.Pick(4, 24)
	frng := c.Rng("files")
	var ccases []cliCase
	for f := 0; f < nFiles; f++ {
		offMode := []int{0, 2, 1, 2}[f%4]
		rows := genFile(frng, 10+frng.Intn(c.Pick(20, 40)), offMode)
		for _, cfg := range configs {
			ccases = append(ccases, cliCase{id: fmt.Sprintf("cli/%d/%s", f, cfg.Name()), cfg: cfg, rows: rows, offMode: offMode})
		}
	}
	c.Note("cli_files", nFiles)
	core.Parallel(len(ccases), 16, func(i int) {
		cs := ccases[i]
		if c.Only != "" && c.Only != cs.id {
			return
		}
		runCLI(c, r, cs, selftest && i%53 == 0)
	})

	return core.FinishOpts{
		Level: "exploration",
		Rule: "configurations: the default plus every non-empty subset of {COUNTING n (n=1..4), ON WATERMARK, ON END OF STREAM} in every order (48), enumerated completely; " +
			"streams: seeded random valid watermarked changelogs with retractions (no late record), event times in mixed Locations, run under every configuration the key shape admits; " +
			"CLI: seeded JSON files behind max_diff_watermark + tumble under all 49 configurations, -o stream_native. " +
			"non-trivial (in-process) = at least 4 records, 1 retraction, 1 watermark and a non-empty final result; (CLI) = at least 4 rows and 2 result groups; distinct by (configuration, shape, stream)",
		Floor:       c.Pick(600, 8000),
		Assumptions: []string{"own reference grouping and canonical row encoding (times by instant)", "CLI: own stream_native decoder; times printed with second resolution", "Go toolchain"},
		Exhaustive:  false,
	}
}

// Package c03: GROUP BY and aggregates match relational semantics.
//
// R: the rows of a grouping query differ from the reference grouping: not one row per distinct
// key (a NULL key is a group), or a count/sum/avg/min/max/array_agg (or DISTINCT variant) that is
// not the value over the group's non-NULL inputs, not NULL for a group without non-NULL input,
// AVG(Int) not truncated toward zero, array_agg not ascending; or the TRIGGER COUNTING n variant
// of a query (btree implementation, consolidated changelog) differing from the plain one.
// O: sqlref's reference grouping (standard library only); float sums/averages within n*eps*sum|x|.
// W: CLI; generated tables x generated GROUP BY queries (0-3 key expressions, 1-4 aggregates,
// optional WHERE below and HAVING-like WHERE above, optional ORDER BY/LIMIT), modes json / csv /
// batch_table / stream_native (retracting plans only where the output is consolidated).
package c03

import (
	"fmt"
	"os"
	"strings"

	"github.com/cube2222/octosql/plugins/verifharness/cli"
	"github.com/cube2222/octosql/plugins/verifharness/core"
	"github.com/cube2222/octosql/plugins/verifharness/sqlref"
	"github.com/cube2222/octosql/plugins/verifharness/sqlrun"
)

func init() { core.Register("C03", Run) }

var modes = []string{sqlrun.JSON, sqlrun.Native, sqlrun.Batch, sqlrun.CSV}

type tcase struct {
	id     string
	mode   string
	tables []*sqlref.Table
	q      *sqlref.Query
	groupQ *sqlref.Query // the grouping level
}

func groupingLevel(q *sqlref.Query) *sqlref.Query {
	var g *sqlref.Query
	q.Visit(func(x *sqlref.Query, _ int) {
		if x.Grouping && g == nil {
			g = x
		}
	}, 0)
	return g
}

func genCase(c *core.Ctx, i int) tcase {
	rng := c.Rng(fmt.Sprintf("case-%d", i))
	mode := modes[i%len(modes)]
	g := sqlref.NewGen(rng, sqlref.GenOpts{MaxRows: 100, Rich: sqlrun.Rich(mode), MaxDepth: 3})
	kind := "json"
	if rng.Intn(100) < 50 {
		kind = "csv"
	}
	t := g.Table(kind)
	q := g.GroupQuery([]*sqlref.Table{t}, sqlref.GroupOpts{
		AllowList:    mode == sqlrun.JSON || mode == sqlrun.Native,
		PTrigger:     0.35,
		PEndOfStream: 0.15,
	})
	if !sqlrun.ModeOK(q, q.OutCols(nil), mode) {
		// json/csv would print the raw changelog of a top level that emits retractions (§3.4):
		// judge the plain (SimpleGroupBy) form there
		q.Visit(func(x *sqlref.Query, _ int) {
			if strings.HasPrefix(x.Trigger, "COUNTING") {
				x.Trigger = ""
			}
		}, 0)
	}
	return tcase{id: sqlrun.CaseID(c, "q", i), mode: mode, tables: []*sqlref.Table{t}, q: q, groupQ: groupingLevel(q)}
}

func Run(c *core.Ctx) core.FinishOpts {
	runner := cli.NewRunner(c.BinDir, c.Scratch)
	N := c.Pick(500, 15000)
	only := sqlrun.Only(c)
	selftest := os.Getenv("VERIF_SELFTEST") == "1"

	core.Parallel(N, 16, func(i int) {
		tc := genCase(c, i)
		if only != "" && tc.id != only {
			return
		}
		if selftest && i%40 != 3 {
			return // self-test: only the cases whose recording is corrupted are run
		}
		var wrong func([]sqlref.Row) []sqlref.Row
		if selftest && i%40 == 3 {
			if (i/40)%2 == 0 {
				wrong = func(r []sqlref.Row) []sqlref.Row { // lose a group
					if len(r) == 0 {
						return append(r, sqlref.Row{})
					}
					return r[1:]
				}
			} else {
				wrong = func(r []sqlref.Row) []sqlref.Row { // an aggregate off by one / NULL turned into 0
					if len(r) == 0 || len(r[0]) == 0 {
						return append(r, sqlref.Row{})
					}
					cp := append([]sqlref.Row{}, r...)
					row := append(sqlref.Row{}, cp[0]...)
					for j, v := range row {
						switch v.K {
						case sqlref.KInt:
							row[j] = sqlref.Int(v.I + 1)
						case sqlref.KNull:
							row[j] = sqlref.Int(0)
						case sqlref.KFloat:
							row[j] = sqlref.Float(v.F + 1)
						default:
							row[j] = sqlref.Null()
						}
					}
					cp[0] = row
					return cp
				}
			}
		}
		rep := sqlrun.Check(runner, tc.q, tc.tables, tc.mode, sqlrun.Opts{Wrong: wrong})
		c.Eval(1)
		c.Count("status/"+rep.Status, 1)
		switch rep.Status {
		case "undefined", "ambiguous":
			return
		case "timeout":
			c.Inconclusive("watchdog")
			return
		case "rejected":
			c.Count("rejected/"+sqlrun.RejectClass(rep.What), 1)
			if only != "" {
				fmt.Printf("rejected: %s\n  %s\n", tc.q.SQL(), rep.What)
			}
			return
		case "violation":
			c.Violation(rep.Key, rep.What, sqlrun.Replay(tc.id, tc.q, tc.tables, tc.mode, sqlrun.Opts{}, rep))
			return
		}
		// judged
		c.Count("mode/"+tc.mode, 1)
		sqlrun.CountQuery(c, tc.q)
		if rep.Outcome.Retractions > 0 {
			c.Count("stream_native_runs_with_retractions", 1)
		}
		groups, nullKeys, nullAggs := 0, 0, 0
		if gr, err := tc.groupQ.Eval(sqlref.EvalOpts{}); err == nil {
			groups = len(gr.Full)
			for _, r := range gr.Full {
				for j, it := range tc.groupQ.Items {
					if r[j].IsNull() {
						if it.Agg != nil {
							nullAggs++
						} else {
							nullKeys++
						}
					}
				}
			}
		}
		if nullKeys > 0 {
			c.Count("cases_with_null_group_key", 1)
		}
		if nullAggs > 0 {
			c.Count("cases_with_aggregate_null_on_empty_set", 1)
		}
		if rep.Res.GlobalAggEmpty {
			c.Count("global_aggregate_over_empty_input", 1)
		}
		if groups >= 2 {
			c.Nontrivial(tc.q.SQL() + "\x00" + string(tc.tables[0].FileBytes()) + "\x00" + tc.mode)
			c.Count("nontrivial/"+tc.mode, 1)
		}
		c.Sample(map[string]interface{}{"id": tc.id, "sql": tc.q.SQL(), "mode": tc.mode, "table_rows": len(tc.tables[0].Rows), "groups": groups})
		if only != "" {
			fmt.Printf("judged OK: %s\n", tc.q.SQL())
		}

		// The other group-by implementation: the same query with TRIGGER COUNTING k on the grouping
		// level (CustomTriggerGroupBy, btree, re-emits with retractions) — or, if it had one, without —
		// consolidated from stream_native (or batch_table), must print the same rows.
		if tc.mode != sqlrun.Native && tc.mode != sqlrun.Batch {
			return
		}
		old := tc.groupQ.Trigger
		if strings.HasPrefix(old, "COUNTING") {
			tc.groupQ.Trigger = ""
		} else {
			tc.groupQ.Trigger = fmt.Sprintf("COUNTING %d", 1+i%4)
		}
		rep2 := sqlrun.Check(runner, tc.q, tc.tables, tc.mode, sqlrun.Opts{})
		c.Eval(1)
		c.Count("trigger_variant/"+rep2.Status, 1)
		id2 := tc.id + "-trigger-variant"
		switch rep2.Status {
		case "timeout":
			c.Inconclusive("watchdog")
		case "rejected":
			c.Count("rejected/"+sqlrun.RejectClass(rep2.What), 1)
		case "violation":
			key := rep2.Key
			if strings.HasPrefix(key, "result-mismatch") {
				key = "trigger-variant-" + key
			}
			c.Violation(key, fmt.Sprintf("the %q variant of a query whose %q form printed the reference result: %s", tc.groupQ.Trigger, old, rep2.What), sqlrun.Replay(id2, tc.q, tc.tables, tc.mode, sqlrun.Opts{}, rep2))
		case "judged":
			// both are equal to the reference; compare them with each other as well (differential),
			// unless a LIMIT leaves the choice of rows open
			limited := false
			tc.q.Visit(func(x *sqlref.Query, _ int) {
				if x.Limit >= 0 {
					limited = true
				}
			}, 0)
			if limited {
				c.Count("trigger_variant_pairs_with_limit_not_compared_directly", 1)
			} else if m, s := sqlref.DiffMultiset(withTol(rep.Res, rep.Outcome.Rows), rep2.Outcome.Rows); len(m) > 0 || len(s) > 0 {
				c.Violation("trigger-variant-differs", fmt.Sprintf("plain and TRIGGER COUNTING variants print different rows: only in first %s, only in second %s", sqlref.RowsString(m, 5), sqlref.RowsString(s, 5)), sqlrun.Replay(id2, tc.q, tc.tables, tc.mode, sqlrun.Opts{}, rep2))
			}
			if rep2.Outcome.Retractions > 0 {
				c.Count("stream_native_runs_with_retractions", 1)
			}
			c.Count("trigger_variant_pairs_equal", 1)
		}
		tc.groupQ.Trigger = old
	})

	joinGroupCases(c, runner, only, selftest)

	return core.FinishOpts{
		Level: "exploration",
		Rule: "case i = one generated table and one generated grouping query: 0-3 key expressions (columns or depth<=2 expressions), 1-4 aggregates out of count(*)/count/sum/avg/min/max/array_agg and the DISTINCT forms over Int/Float expressions (any scalar type for count and array_agg), optional WHERE below, " +
			"optionally wrapped in an outer SELECT with a HAVING-like WHERE over the aggregate columns, optional ORDER BY/LIMIT, no trigger / TRIGGER COUNTING 1-4 / TRIGGER ON END OF STREAM; printed in mode i mod 4 of json/stream_native/batch_table/csv (lists only in json and stream_native; a top level that emits retractions only in the consolidating modes); " +
			"in stream_native and batch_table the query is run a second time with the other group-by implementation (COUNTING trigger added or removed) and must print the same rows; non-trivial = the grouping level has at least 2 groups; distinct by (SQL, table file, mode); " +
			"plus a directed family (join.go): GROUP BY over an inner join of two files that share a column name, with both same-named columns (or expressions differing only in the qualifier) as keys, either/both selected, aggregates over either side",
		Floor: c.Pick(120, 4000),
		Assumptions: []string{
			"oracle: harness/sqlref reference grouping (standard library only): aggregates ignore NULL inputs, yield NULL on an empty set (count included, as the statement says), AVG(Int) truncates toward zero, array_agg ascending, Int sums wrap",
			"a GROUP BY-less aggregate over an empty input may print zero rows or one row of empty-set results (DESIGN §3.4)",
			"float keys and inputs never contain NaN, Inf or -0.0 (DESIGN §3.4: C09/C14's subject)",
			"GROUP BY without an aggregate is not generated (§3.4); min/max only over Int/Float (the only overloads besides Duration)",
			"cli decoders, Go toolchain",
		},
	}
}

// withTol copies the reference's float tolerances onto printed rows (by matching each printed
// row to a reference row), so that two printed results are compared within the same tolerance.
func withTol(res *sqlref.Result, got []sqlref.Row) []sqlref.Row {
	tolCols := map[int]float64{}
	for _, r := range res.Full {
		for j, v := range r {
			if v.K == sqlref.KFloat && v.Tol > tolCols[j] {
				tolCols[j] = v.Tol
			}
		}
	}
	if len(tolCols) == 0 {
		return got
	}
	out := make([]sqlref.Row, len(got))
	for i, r := range got {
		nr := append(sqlref.Row{}, r...)
		for j, tol := range tolCols {
			if j < len(nr) && nr[j].K == sqlref.KFloat {
				nr[j].Tol = tol
			}
		}
		out[i] = nr
	}
	return out
}

package c03

import (
	"fmt"
	"math/rand"
	"strconv"
	"strings"

	"github.com/cube2222/octosql/plugins/verifharness/cli"
	"github.com/cube2222/octosql/plugins/verifharness/core"
	"github.com/cube2222/octosql/plugins/verifharness/sqlref"
	"github.com/cube2222/octosql/plugins/verifharness/sqlrun"
)

// Directed family: GROUP BY over a join of two tables that share a column name.
//
//	SELECT <keys / aggregates> FROM jt.csv t JOIN ju.csv u ON t.id = u.id GROUP BY t.a, u.a [, ...]
//
// t(id, a, b) and u(id, a, c): id is unique and non-NULL on both sides (the join itself is C02's
// subject and is kept trivial), t.a and u.a are different columns that merely share the name and
// differ on (most) joined rows. The group keys are both same-named columns, or expressions that
// differ only in the qualifier (t.a + 1, u.a + 1); the select list takes either or both keys and
// aggregates over either side's columns. The reference evaluator runs over the joined rows
// (computed here by key lookup) as a virtual table whose columns are referenced by qualified name.

type jcase struct {
	id, mode, shape string
	files           map[string][]byte
	virt            *sqlref.Table
	q               *sqlref.Query
}

func intOrNull(rng *rand.Rand, pool []int64, pNull int) sqlref.Value {
	if rng.Intn(100) < pNull {
		return sqlref.Null()
	}
	return sqlref.Int(pool[rng.Intn(len(pool))])
}

func csvOf(header string, rows []sqlref.Row) []byte {
	var sb strings.Builder
	sb.WriteString(header + "\n")
	for _, r := range rows {
		for i, v := range r {
			if i > 0 {
				sb.WriteByte(',')
			}
			if v.K == sqlref.KInt {
				sb.WriteString(strconv.FormatInt(v.I, 10))
			}
		}
		sb.WriteByte('\n')
	}
	return []byte(sb.String())
}

func genJoinCase(c *core.Ctx, i int) jcase {
	rng := c.Rng(fmt.Sprintf("join-%d", i))
	mode := modes[i%len(modes)]
	nIDs := 4 + rng.Intn(10)
	// t.a and u.a draw from pools that overlap only partly, so that they differ on most joined
	// rows but are sometimes equal (the wrong column then cannot be told by its value range alone)
	tPool := []int64{1, 2, 3}
	uPool := []int64{7, 8, 2}
	var tRows, uRows, joined []sqlref.Row
	uByID := map[int64]sqlref.Row{}
	for id := int64(1); id <= int64(nIDs); id++ {
		if rng.Intn(100) < 85 {
			tRows = append(tRows, sqlref.Row{sqlref.Int(id), intOrNull(rng, tPool, 15), intOrNull(rng, []int64{0, 5, -3, 10}, 20)})
		}
		if rng.Intn(100) < 85 {
			r := sqlref.Row{sqlref.Int(id), intOrNull(rng, uPool, 15), intOrNull(rng, []int64{100, 200, -1}, 20)}
			uRows = append(uRows, r)
			uByID[id] = r
		}
	}
	// schema inference needs a non-NULL cell per column, and the join needs at least two rows
	if len(tRows) < 2 || len(uRows) < 2 {
		tRows = []sqlref.Row{{sqlref.Int(1), sqlref.Int(1), sqlref.Int(5)}, {sqlref.Int(2), sqlref.Int(1), sqlref.Null()}, {sqlref.Int(3), sqlref.Int(2), sqlref.Int(0)}}
		uRows = []sqlref.Row{{sqlref.Int(1), sqlref.Int(7), sqlref.Int(100)}, {sqlref.Int(2), sqlref.Int(8), sqlref.Int(-1)}, {sqlref.Int(3), sqlref.Int(7), sqlref.Null()}}
		uByID = map[int64]sqlref.Row{1: uRows[0], 2: uRows[1], 3: uRows[2]}
	}
	for col := 1; col <= 2; col++ {
		for _, rows := range [][]sqlref.Row{tRows, uRows} {
			has := false
			for _, r := range rows {
				if !r[col].IsNull() {
					has = true
				}
			}
			if !has {
				nr := append(sqlref.Row{}, rows[0]...)
				nr[col] = sqlref.Int(1)
				rows[0] = nr
			}
		}
	}
	for _, r := range uRows {
		uByID[r[0].I] = r
	}
	for _, tr := range tRows {
		if ur, ok := uByID[tr[0].I]; ok {
			joined = append(joined, sqlref.Row{tr[0], tr[1], tr[2], ur[0], ur[1], ur[2]})
		}
	}
	virt := &sqlref.Table{
		Name: "j", File: "virtual-join",
		FromSQL: "jt.csv t JOIN ju.csv u ON t.id = u.id",
		Cols: []sqlref.Column{{Name: "t.id", T: sqlref.TInt}, {Name: "t.a", T: sqlref.TInt}, {Name: "t.b", T: sqlref.TInt},
			{Name: "u.id", T: sqlref.TInt}, {Name: "u.a", T: sqlref.TInt}, {Name: "u.c", T: sqlref.TInt}},
		Rows: joined,
	}
	col := func(idx int) *sqlref.Expr { return sqlref.Col(idx, virt.Cols[idx].Name, sqlref.TInt) }
	plus1 := func(idx int) *sqlref.Expr {
		return sqlref.Bin(sqlref.OpAdd, sqlref.TInt, col(idx), sqlref.Lit(sqlref.Int(1)))
	}
	const tA, tB, uA, uC = 1, 2, 4, 5

	n := 0
	alias := func() string { n++; return "c" + strconv.Itoa(n) }
	q := &sqlref.Query{From: sqlref.Source{Kind: sqlref.SrcTable, Table: virt}, Grouping: true, Limit: -1}
	var keys []*sqlref.Expr
	shape := ""
	switch rng.Intn(5) {
	case 0:
		keys, shape = []*sqlref.Expr{col(tA), col(uA)}, "keys(t.a,u.a)"
	case 1:
		keys, shape = []*sqlref.Expr{col(uA), col(tA)}, "keys(u.a,t.a)"
	case 2:
		keys, shape = []*sqlref.Expr{plus1(tA), plus1(uA)}, "keys(t.a+1,u.a+1)"
	case 3:
		keys, shape = []*sqlref.Expr{col(tA), col(uA), col(tB)}, "keys(t.a,u.a,t.b)"
	default:
		keys, shape = []*sqlref.Expr{col(tA), plus1(tA), col(uA)}, "keys(t.a,t.a+1,u.a)"
	}
	q.GroupBy = keys
	// select: the later same-named key alone, the earlier alone, or all keys
	var items []sqlref.SelItem
	switch sel := rng.Intn(4); sel {
	case 0:
		items = append(items, sqlref.SelItem{Expr: keys[1], Alias: alias()})
		shape += " select(second)"
	case 1:
		items = append(items, sqlref.SelItem{Expr: keys[len(keys)-1], Alias: alias()})
		shape += " select(last)"
	case 2:
		items = append(items, sqlref.SelItem{Expr: keys[0], Alias: alias()})
		shape += " select(first)"
	default:
		for _, k := range keys {
			items = append(items, sqlref.SelItem{Expr: k, Alias: alias()})
		}
		shape += " select(all)"
	}
	aggs := []*sqlref.Agg{
		{Fn: "count", Star: true}, {Fn: "sum", Arg: col(tB)}, {Fn: "max", Arg: col(uC)}, {Fn: "count", Distinct: true, Arg: col(uA)},
		{Fn: "min", Arg: col(tA)}, {Fn: "sum", Arg: col(uA)}, {Fn: "avg", Arg: col(uC)}, {Fn: "count", Arg: col(tB)}, {Fn: "max", Arg: plus1(uA)},
	}
	na := 1 + rng.Intn(3)
	for k := 0; k < na; k++ {
		items = append(items, sqlref.SelItem{Agg: aggs[rng.Intn(len(aggs))], Alias: alias()})
	}
	rng.Shuffle(len(items), func(a, b int) { items[a], items[b] = items[b], items[a] })
	q.Items = items
	if rng.Intn(3) == 0 {
		q.Where = sqlref.Bin(sqlref.OpOr, sqlref.TBool, sqlref.Bin(sqlref.OpNe, sqlref.TBool, col(tA), col(uA)), sqlref.Un(sqlref.OpIsNull, sqlref.TBool, col(uA)))
		shape += " where"
	}
	switch x := rng.Intn(10); {
	case x < 2:
		q.Trigger = "ON END OF STREAM"
	case x < 5 && (mode == sqlrun.Native || mode == sqlrun.Batch):
		q.Trigger = "COUNTING " + strconv.Itoa(1+rng.Intn(3))
	}
	if rng.Intn(3) == 0 {
		for k := range q.Items {
			q.OrderBy = append(q.OrderBy, sqlref.OrderKey{Col: k, Desc: rng.Intn(2) == 0})
		}
	}
	return jcase{
		id: sqlrun.CaseID(c, "join", i), mode: mode, shape: shape, virt: virt, q: q,
		files: map[string][]byte{"jt.csv": csvOf("id,a,b", tRows), "ju.csv": csvOf("id,a,c", uRows)},
	}
}

func joinGroupCases(c *core.Ctx, runner *cli.Runner, only string, selftest bool) {
	if selftest {
		return
	}
	N := c.Pick(60, 1500)
	core.Parallel(N, 16, func(i int) {
		tc := genJoinCase(c, i)
		if only != "" && tc.id != only {
			return
		}
		tables := []*sqlref.Table{tc.virt}
		o := sqlrun.Opts{ExtraFiles: tc.files}
		rep := sqlrun.Check(runner, tc.q, tables, tc.mode, o)
		c.Eval(1)
		c.Count("join_group/"+rep.Status, 1)
		tag := fmt.Sprintf("[group by over a join with same-named columns, %s, %s] ", tc.shape, tc.mode)
		switch rep.Status {
		case "timeout":
			c.Inconclusive("watchdog")
		case "rejected":
			// the template is accepted by the unchanged tree: a rejection is a change of behaviour
			c.Violation("join-group-rejected", tag+rep.What, sqlrun.Replay(tc.id, tc.q, tables, tc.mode, o, rep))
		case "violation":
			c.Violation("join-group-"+rep.Key, tag+rep.What, sqlrun.Replay(tc.id, tc.q, tables, tc.mode, o, rep))
		case "judged":
			c.Count("join_group/mode/"+tc.mode, 1)
			c.Count("join_group/shape/"+strings.Fields(tc.shape)[0], 1)
			c.Count("join_group/"+strings.Fields(tc.shape)[1], 1)
			// non-trivial: at least two groups, and the two same-named columns differ on some joined row
			differ := false
			for _, r := range tc.virt.Rows {
				if sqlref.Compare(r[1], r[4]) != 0 {
					differ = true
				}
			}
			if len(rep.Res.Full) >= 2 && differ {
				c.Nontrivial(tc.q.SQL() + "\x00" + string(tc.files["jt.csv"]) + "\x00" + string(tc.files["ju.csv"]) + "\x00" + tc.mode)
				c.Count("join_group/nontrivial", 1)
			}
			if only != "" {
				fmt.Printf("judged OK: %s\n", tc.q.SQL())
			}
			c.Sample(map[string]interface{}{"id": tc.id, "sql": tc.q.SQL(), "mode": tc.mode, "joined_rows": len(tc.virt.Rows)})
		}
	})
}

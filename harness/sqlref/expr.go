package sqlref

import (
	"errors"
	"math"
	"strconv"
	"strings"
	"unicode/utf8"
)

// ErrUndefined is returned by the evaluator when the documented conventions do not define the
// result (so the case must not be judged).
var ErrUndefined = errors.New("undefined by the documented conventions")

type undefinedErr struct{ why string }

func (e undefinedErr) Error() string { return "undefined: " + e.why }
func (e undefinedErr) Unwrap() error { return ErrUndefined }
func undefined(why string) error     { return undefinedErr{why} }

// Expression operators.
const (
	OpCol       = "col"
	OpLit       = "lit"
	OpAdd       = "+"
	OpSub       = "-"
	OpMul       = "*"
	OpDiv       = "/"
	OpNeg       = "neg"
	OpAbs       = "abs"
	OpConcat    = "concat" // rendered as +
	OpUpper     = "upper"
	OpLower     = "lower"
	OpLen       = "len"
	OpToInt     = "int"
	OpToFloat   = "float"
	OpCoalesce  = "coalesce"
	OpEq        = "="
	OpNe        = "!="
	OpLt        = "<"
	OpLe        = "<="
	OpGt        = ">"
	OpGe        = ">="
	OpAnd       = "and"
	OpOr        = "or"
	OpNot       = "not"
	OpIsNull    = "isnull"
	OpIsNotNull = "isnotnull"
	OpIn        = "in"
	OpNotIn     = "notin"
	OpLike      = "like"
	OpNotLike   = "notlike"
)

// Expr is a typed expression tree. Column references carry the index of the column in the row
// of the scope they are evaluated in, plus the text to render.
type Expr struct {
	Op      string
	T       Type
	Args    []*Expr
	ColIdx  int     // OpCol
	ColText string  // OpCol: as rendered (maybe qualified)
	Lit     Value   // OpLit
	Tuple   []Value // OpIn / OpNotIn (non-NULL literals of Args[0]'s kind, at least two)
	Pattern string  // OpLike / OpNotLike (only letters, digits, % and _)
}

func Col(idx int, text string, t Type) *Expr {
	return &Expr{Op: OpCol, T: t, ColIdx: idx, ColText: text}
}
func Lit(v Value) *Expr { return &Expr{Op: OpLit, T: Type{K: v.K}, Lit: v} }
func Un(op string, t Type, a *Expr) *Expr {
	return &Expr{Op: op, T: t, Args: []*Expr{a}}
}
func Bin(op string, t Type, a, b *Expr) *Expr {
	return &Expr{Op: op, T: t, Args: []*Expr{a, b}}
}

// EvalOpts selects between readings the description leaves open.
type EvalOpts struct {
	LenRunes bool // len(String) counts runes instead of bytes (§3.4 accepts both)
	// Quirks makes the evaluator emulate the two known LIMIT defects of the unchanged tree (see
	// Query.eval); the result is then a prediction of the defective output, used only to decide
	// whether an observed discrepancy is exactly one of those findings.
	Quirks bool
	// TableMode: the top level is printed by batch_table / live_table, whose printer applies
	// LIMIT itself (correctly).
	TableMode bool
	// QuirkLikeNL emulates a third known defect: LIKE is compiled to a regexp in which % and _
	// (".*" and ".") do not match a newline, so a subject containing a newline never matches a
	// pattern without one. LikeHits (if non-nil) counts the evaluated LIKEs whose outcome that changed.
	QuirkLikeNL bool
	LikeHits    *int
}

// Walk visits every node.
func (e *Expr) Walk(fn func(*Expr)) {
	fn(e)
	for _, a := range e.Args {
		a.Walk(fn)
	}
}

// Uses reports whether any node has the operator.
func (e *Expr) Uses(op string) bool {
	found := false
	e.Walk(func(x *Expr) {
		if x.Op == op {
			found = true
		}
	})
	return found
}

// Depth of the tree (a leaf has depth 0).
func (e *Expr) Depth() int {
	d := 0
	for _, a := range e.Args {
		if x := a.Depth() + 1; x > d {
			d = x
		}
	}
	return d
}

func (o EvalOpts) checkFloat(f float64) (Value, error) {
	if math.IsNaN(f) || math.IsInf(f, 0) {
		return Value{}, undefined("float result NaN/Inf")
	}
	if f == 0 && math.Signbit(f) {
		if o.Quirks {
			// the defect emulation may evaluate rows the correct semantics never reaches; it only
			// has to predict printed values, and -0.0 compares and prints (json) like 0
			return Float(0), nil
		}
		return Value{}, undefined("float result -0.0")
	}
	return Float(f), nil
}

// Eval evaluates e over row.
func (e *Expr) Eval(row Row, o EvalOpts) (Value, error) {
	switch e.Op {
	case OpCol:
		return row[e.ColIdx], nil
	case OpLit:
		return e.Lit, nil
	case OpAnd, OpOr:
		// Kleene
		a, err := e.Args[0].Eval(row, o)
		if err != nil {
			return Value{}, err
		}
		b, err := e.Args[1].Eval(row, o)
		if err != nil {
			return Value{}, err
		}
		if e.Op == OpAnd {
			if (a.K == KBool && !a.B) || (b.K == KBool && !b.B) {
				return Bool(false), nil
			}
			if a.IsNull() || b.IsNull() {
				return Null(), nil
			}
			return Bool(true), nil
		}
		if (a.K == KBool && a.B) || (b.K == KBool && b.B) {
			return Bool(true), nil
		}
		if a.IsNull() || b.IsNull() {
			return Null(), nil
		}
		return Bool(false), nil
	case OpIsNull, OpIsNotNull:
		a, err := e.Args[0].Eval(row, o)
		if err != nil {
			return Value{}, err
		}
		return Bool(a.IsNull() == (e.Op == OpIsNull)), nil
	case OpCoalesce:
		for _, x := range e.Args {
			v, err := x.Eval(row, o)
			if err != nil {
				return Value{}, err
			}
			if !v.IsNull() {
				return v, nil
			}
		}
		return Null(), nil
	}
	// strict operators: NULL in, NULL out
	vals := make([]Value, len(e.Args))
	for i, x := range e.Args {
		v, err := x.Eval(row, o)
		if err != nil {
			return Value{}, err
		}
		vals[i] = v
	}
	for _, v := range vals {
		if v.IsNull() {
			return Null(), nil
		}
	}
	switch e.Op {
	case OpAdd, OpSub, OpMul, OpDiv:
		a, b := vals[0], vals[1]
		if e.T.K == KInt {
			switch e.Op {
			case OpAdd:
				return Int(a.I + b.I), nil // wraps
			case OpSub:
				return Int(a.I - b.I), nil
			case OpMul:
				return Int(a.I * b.I), nil
			default:
				if b.I == 0 {
					return Value{}, undefined("integer division by zero")
				}
				if b.I == -1 {
					return Int(-a.I), nil // wraps for MinInt64
				}
				return Int(a.I / b.I), nil // truncates toward zero
			}
		}
		switch e.Op {
		case OpAdd:
			return o.checkFloat(a.F + b.F)
		case OpSub:
			return o.checkFloat(a.F - b.F)
		case OpMul:
			return o.checkFloat(a.F * b.F)
		default:
			if b.F == 0 {
				return Value{}, undefined("float division by zero")
			}
			return o.checkFloat(a.F / b.F)
		}
	case OpNeg:
		if e.T.K == KInt {
			return Int(-vals[0].I), nil
		}
		return o.checkFloat(-vals[0].F)
	case OpAbs:
		if e.T.K == KInt {
			if vals[0].I < 0 {
				return Int(-vals[0].I), nil // wraps for MinInt64
			}
			return vals[0], nil
		}
		return o.checkFloat(math.Abs(vals[0].F))
	case OpConcat:
		return Str(vals[0].S + vals[1].S), nil
	case OpUpper:
		return Str(strings.ToUpper(vals[0].S)), nil
	case OpLower:
		return Str(strings.ToLower(vals[0].S)), nil
	case OpLen:
		if o.LenRunes {
			return Int(int64(utf8.RuneCountInString(vals[0].S))), nil
		}
		return Int(int64(len(vals[0].S))), nil
	case OpToInt:
		switch vals[0].K {
		case KInt:
			return vals[0], nil
		case KBool:
			if vals[0].B {
				return Int(1), nil
			}
			return Int(0), nil
		case KFloat:
			if math.Abs(vals[0].F) >= 1<<62 {
				return Value{}, undefined("int() of an out-of-range float")
			}
			return Int(int64(vals[0].F)), nil // truncates toward zero
		}
		return Value{}, undefined("int() of " + vals[0].K.String())
	case OpToFloat:
		switch vals[0].K {
		case KFloat:
			return vals[0], nil
		case KInt:
			return o.checkFloat(float64(vals[0].I))
		}
		return Value{}, undefined("float() of " + vals[0].K.String())
	case OpEq:
		return Bool(Compare(vals[0], vals[1]) == 0), nil
	case OpNe:
		return Bool(Compare(vals[0], vals[1]) != 0), nil
	case OpLt:
		return Bool(Compare(vals[0], vals[1]) < 0), nil
	case OpLe:
		return Bool(Compare(vals[0], vals[1]) <= 0), nil
	case OpGt:
		return Bool(Compare(vals[0], vals[1]) > 0), nil
	case OpGe:
		return Bool(Compare(vals[0], vals[1]) >= 0), nil
	case OpNot:
		return Bool(!vals[0].B), nil
	case OpIn, OpNotIn:
		found := false
		for _, t := range e.Tuple {
			if Compare(vals[0], t) == 0 {
				found = true
			}
		}
		return Bool(found == (e.Op == OpIn)), nil
	case OpLike, OpNotLike:
		m := LikeMatch(vals[0].S, e.Pattern)
		if o.QuirkLikeNL && m && strings.Contains(vals[0].S, "\n") && !strings.Contains(e.Pattern, "\n") {
			m = false
			if o.LikeHits != nil {
				*o.LikeHits++
			}
		}
		return Bool(m == (e.Op == OpLike)), nil
	}
	return Value{}, undefined("unknown operator " + e.Op)
}

// LikeMatch implements LIKE for patterns without escapes: % matches any sequence of characters
// (including none), _ matches exactly one character; everything else matches itself. Characters
// are Unicode code points (invalid bytes count as one character each).
func LikeMatch(s, pattern string) bool {
	sr := []rune(s)
	pr := []rune(pattern)
	// iterative wildcard matching with backtracking over the last %
	si, pi := 0, 0
	starP, starS := -1, 0
	for si < len(sr) {
		if pi < len(pr) && (pr[pi] == '_' || (pr[pi] != '%' && pr[pi] == sr[si])) {
			si++
			pi++
			continue
		}
		if pi < len(pr) && pr[pi] == '%' {
			starP = pi
			starS = si
			pi++
			continue
		}
		if starP >= 0 {
			starS++
			si = starS
			pi = starP + 1
			continue
		}
		return false
	}
	for pi < len(pr) && pr[pi] == '%' {
		pi++
	}
	return pi == len(pr)
}

// ---------------------------------------------------------------------------------------------
// Rendering to octosql SQL

// SQLLiteral renders a non-NULL literal. Strings are single-quoted with ' doubled and \ doubled
// (the tokenizer processes backslash escapes); negative numbers are parenthesised.
func SQLLiteral(v Value) string {
	switch v.K {
	case KNull:
		return "NULL"
	case KInt:
		if v.I < 0 {
			return "(" + strconv.FormatInt(v.I, 10) + ")"
		}
		return strconv.FormatInt(v.I, 10)
	case KFloat:
		s := strconv.FormatFloat(v.F, 'f', -1, 64)
		if !strings.Contains(s, ".") {
			s += ".0"
		}
		if v.F < 0 {
			return "(" + s + ")"
		}
		return s
	case KBool:
		if v.B {
			return "TRUE"
		}
		return "FALSE"
	case KString:
		s := strings.ReplaceAll(v.S, `\`, `\\`)
		s = strings.ReplaceAll(s, `'`, `''`)
		return "'" + s + "'"
	}
	return "NULL"
}

// SQL renders the expression, fully parenthesised. Division is written with spaces (the
// tokenizer accepts / inside identifiers).
func (e *Expr) SQL() string {
	switch e.Op {
	case OpCol:
		return e.ColText
	case OpLit:
		return SQLLiteral(e.Lit)
	case OpAdd, OpSub, OpMul, OpDiv, OpEq, OpNe, OpLt, OpLe, OpGt, OpGe:
		return "(" + e.Args[0].SQL() + " " + e.Op + " " + e.Args[1].SQL() + ")"
	case OpConcat:
		return "(" + e.Args[0].SQL() + " + " + e.Args[1].SQL() + ")"
	case OpAnd:
		return "(" + e.Args[0].SQL() + " AND " + e.Args[1].SQL() + ")"
	case OpOr:
		return "(" + e.Args[0].SQL() + " OR " + e.Args[1].SQL() + ")"
	case OpNot:
		return "(NOT " + e.Args[0].SQL() + ")"
	case OpNeg:
		return "(- " + e.Args[0].SQL() + ")"
	case OpIsNull:
		return "(" + e.Args[0].SQL() + " IS NULL)"
	case OpIsNotNull:
		return "(" + e.Args[0].SQL() + " IS NOT NULL)"
	case OpAbs, OpUpper, OpLower, OpLen, OpToInt, OpToFloat:
		return e.Op + "(" + e.Args[0].SQL() + ")"
	case OpCoalesce:
		parts := make([]string, len(e.Args))
		for i, a := range e.Args {
			parts[i] = a.SQL()
		}
		return "COALESCE(" + strings.Join(parts, ", ") + ")"
	case OpIn, OpNotIn:
		parts := make([]string, len(e.Tuple))
		for i, v := range e.Tuple {
			parts[i] = SQLLiteral(v)
		}
		kw := " IN "
		if e.Op == OpNotIn {
			kw = " NOT IN "
		}
		return "(" + e.Args[0].SQL() + kw + "(" + strings.Join(parts, ", ") + "))"
	case OpLike:
		return "(" + e.Args[0].SQL() + " LIKE " + SQLLiteral(Str(e.Pattern)) + ")"
	case OpNotLike:
		return "(" + e.Args[0].SQL() + " NOT LIKE " + SQLLiteral(Str(e.Pattern)) + ")"
	}
	return "/*?" + e.Op + "*/"
}

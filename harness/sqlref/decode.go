package sqlref

import (
	"encoding/json"
	"fmt"
	"regexp"
	"strconv"
	"strings"
)

// FromJSON converts one decoded JSON value (decoder with UseNumber) printed by -o json into a
// value of static type t.
func FromJSON(v interface{}, t Type) (Value, error) {
	if v == nil {
		return Null(), nil
	}
	switch t.K {
	case KNull:
		return Value{}, fmt.Errorf("expected null, got %v", v)
	case KInt:
		n, ok := v.(json.Number)
		if !ok {
			return Value{}, fmt.Errorf("expected an integer, got %T %v", v, v)
		}
		i, err := strconv.ParseInt(string(n), 10, 64)
		if err != nil {
			return Value{}, fmt.Errorf("expected an integer, got %s", n)
		}
		return Int(i), nil
	case KFloat:
		n, ok := v.(json.Number)
		if !ok {
			return Value{}, fmt.Errorf("expected a number, got %T %v", v, v)
		}
		f, err := strconv.ParseFloat(string(n), 64)
		if err != nil {
			return Value{}, fmt.Errorf("expected a number, got %s", n)
		}
		return Float(f), nil
	case KBool:
		b, ok := v.(bool)
		if !ok {
			return Value{}, fmt.Errorf("expected a boolean, got %T %v", v, v)
		}
		return Bool(b), nil
	case KString:
		s, ok := v.(string)
		if !ok {
			return Value{}, fmt.Errorf("expected a string, got %T %v", v, v)
		}
		return Str(s), nil
	case KList:
		l, ok := v.([]interface{})
		if !ok {
			return Value{}, fmt.Errorf("expected an array, got %T %v", v, v)
		}
		out := make([]Value, len(l))
		for i, e := range l {
			x, err := FromJSON(e, Type{K: t.Elem})
			if err != nil {
				return Value{}, err
			}
			out[i] = x
		}
		return List(out), nil
	}
	return Value{}, fmt.Errorf("unsupported type %s", t)
}

// FromCSV converts one -o csv cell. An empty cell is NULL (csv cannot tell NULL from the empty
// string; NormalizeCSV folds the expectation accordingly).
func FromCSV(cell string, t Type) (Value, error) {
	if cell == "" {
		return Null(), nil
	}
	switch t.K {
	case KInt:
		i, err := strconv.ParseInt(cell, 10, 64)
		if err != nil {
			return Value{}, fmt.Errorf("expected an integer, got %q", cell)
		}
		return Int(i), nil
	case KFloat:
		f, err := strconv.ParseFloat(cell, 64)
		if err != nil {
			return Value{}, fmt.Errorf("expected a number, got %q", cell)
		}
		return Float(f), nil
	case KBool:
		switch cell {
		case "true":
			return Bool(true), nil
		case "false":
			return Bool(false), nil
		}
		return Value{}, fmt.Errorf("expected a boolean, got %q", cell)
	case KString:
		return Str(cell), nil
	}
	return Value{}, fmt.Errorf("csv cannot carry %s (cell %q)", t, cell)
}

// NormalizeCSV maps the empty string to NULL in every String column (see FromCSV).
func NormalizeCSV(rows []Row) []Row {
	out := make([]Row, len(rows))
	for i, r := range rows {
		nr := make(Row, len(r))
		for j, v := range r {
			if v.K == KString && v.S == "" {
				v = Null()
			}
			nr[j] = v
		}
		out[i] = nr
	}
	return out
}

// FromText converts a cell printed by the table formats and stream_native (octosql's
// Value.String(): <null>, 12, 1.5, true, 'text', [a, b]). Strings must come from an alphabet
// without quote, comma, brackets, pipe and newline.
func FromText(cell string, t Type) (Value, error) {
	if cell == "<null>" {
		return Null(), nil
	}
	switch t.K {
	case KNull:
		return Value{}, fmt.Errorf("expected <null>, got %q", cell)
	case KInt:
		i, err := strconv.ParseInt(cell, 10, 64)
		if err != nil {
			return Value{}, fmt.Errorf("expected an integer, got %q", cell)
		}
		return Int(i), nil
	case KFloat:
		f, err := strconv.ParseFloat(cell, 64)
		if err != nil {
			return Value{}, fmt.Errorf("expected a number, got %q", cell)
		}
		return Float(f), nil
	case KBool:
		switch cell {
		case "true":
			return Bool(true), nil
		case "false":
			return Bool(false), nil
		}
		return Value{}, fmt.Errorf("expected a boolean, got %q", cell)
	case KString:
		if len(cell) < 2 || cell[0] != '\'' || cell[len(cell)-1] != '\'' {
			return Value{}, fmt.Errorf("expected a quoted string, got %q", cell)
		}
		return Str(cell[1 : len(cell)-1]), nil
	case KList:
		if len(cell) < 2 || cell[0] != '[' || cell[len(cell)-1] != ']' {
			return Value{}, fmt.Errorf("expected a list, got %q", cell)
		}
		body := cell[1 : len(cell)-1]
		if body == "" {
			return List(nil), nil
		}
		parts := SplitCells(body)
		out := make([]Value, len(parts))
		for i, p := range parts {
			x, err := FromText(p, Type{K: t.Elem})
			if err != nil {
				return Value{}, err
			}
			out[i] = x
		}
		return List(out), nil
	}
	return Value{}, fmt.Errorf("unsupported type %s", t)
}

// SplitCells splits "a, [b, c], 'd'" on ", " at bracket depth 0.
func SplitCells(body string) []string {
	var out []string
	depth := 0
	start := 0
	for i := 0; i < len(body); i++ {
		switch body[i] {
		case '[', '(', '{':
			depth++
		case ']', ')', '}':
			depth--
		case ',':
			if depth == 0 && i+1 < len(body) && body[i+1] == ' ' {
				out = append(out, body[start:i])
				start = i + 2
				i++
			}
		}
	}
	out = append(out, body[start:])
	return out
}

// NativeLine is one parsed -o stream_native line.
type NativeLine struct {
	Watermark  bool
	Retraction bool
	Cells      []string
}

// ParseNative parses the whole -o stream_native output (one record per line; cell alphabets must
// not contain newlines).
func ParseNative(out []byte) ([]NativeLine, error) {
	var recs []NativeLine
	text := strings.TrimSuffix(string(out), "\n")
	if text == "" {
		return nil, nil
	}
	for i, l := range strings.Split(text, "\n") {
		if strings.HasPrefix(l, "{~") && strings.HasSuffix(l, "}") {
			recs = append(recs, NativeLine{Watermark: true})
			continue
		}
		if len(l) < 6 || l[0] != '{' || (l[1] != '+' && l[1] != '-') || !strings.HasSuffix(l, " |}") {
			return recs, fmt.Errorf("line %d is not a stream_native record: %q", i+1, l)
		}
		bar := strings.Index(l, "| ")
		if bar < 0 || bar+2 > len(l)-3 {
			return recs, fmt.Errorf("line %d has no cells: %q", i+1, l)
		}
		recs = append(recs, NativeLine{Retraction: l[1] == '-', Cells: SplitCells(l[bar+2 : len(l)-3])})
	}
	return recs, nil
}

// ConsolidateNative sums the signed records. It returns the surviving records (cell texts) in
// first-insertion order, the number of retractions seen, and an error if a row's count ever
// goes negative (an invalid changelog).
func ConsolidateNative(recs []NativeLine) (rows [][]string, retractions int, err error) {
	cnt := map[string]int{}
	cells := map[string][]string{}
	var order []string
	for _, r := range recs {
		if r.Watermark {
			continue
		}
		k := strings.Join(r.Cells, "\x00")
		if _, ok := cells[k]; !ok {
			cells[k] = r.Cells
			order = append(order, k)
		}
		if r.Retraction {
			retractions++
			cnt[k]--
			if cnt[k] < 0 {
				return nil, retractions, fmt.Errorf("retraction of a row that is not present: %v", r.Cells)
			}
		} else {
			cnt[k]++
		}
	}
	for _, k := range order {
		for i := 0; i < cnt[k]; i++ {
			rows = append(rows, cells[k])
		}
	}
	return rows, retractions, nil
}

var ansiRe = regexp.MustCompile("\x1b\\[[0-9;]*[A-Za-z]")

// LastTableFrame returns the last complete grid of a batch_table / live_table output (live_table
// may repaint the table several times, separated by ANSI cursor movements).
func LastTableFrame(out []byte) []byte {
	text := ansiRe.ReplaceAllString(string(out), "")
	lines := strings.Split(strings.TrimRight(text, "\n"), "\n")
	var plus []int
	for i, l := range lines {
		if strings.HasPrefix(l, "+") {
			plus = append(plus, i)
		}
	}
	if len(plus) < 3 {
		return []byte(text)
	}
	top, bottom := plus[len(plus)-3], plus[len(plus)-1]
	return []byte(strings.Join(lines[top:bottom+1], "\n") + "\n")
}

// DecodeRows converts cell texts into rows with the given converter.
func DecodeRows(cells [][]string, cols []Column, conv func(string, Type) (Value, error)) ([]Row, error) {
	rows := make([]Row, 0, len(cells))
	for i, rec := range cells {
		if len(rec) != len(cols) {
			return nil, fmt.Errorf("row %d has %d cells, expected %d: %q", i+1, len(rec), len(cols), rec)
		}
		r := make(Row, len(cols))
		for j, c := range rec {
			v, err := conv(c, cols[j].T)
			if err != nil {
				return nil, fmt.Errorf("row %d column %s: %v", i+1, cols[j].Name, err)
			}
			r[j] = v
		}
		rows = append(rows, r)
	}
	return rows, nil
}

// CheckHeader compares printed column names with the expected aliases.
func CheckHeader(got []string, cols []Column) error {
	if len(got) != len(cols) {
		return fmt.Errorf("printed columns %q, expected %d columns", got, len(cols))
	}
	for i := range got {
		if got[i] != cols[i].Name {
			return fmt.Errorf("printed columns %q, expected column %d to be %q", got, i, cols[i].Name)
		}
	}
	return nil
}

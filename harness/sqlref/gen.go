package sqlref

import (
	"bytes"
	"encoding/json"
	"fmt"
	"math"
	"math/rand"
	"strconv"
	"strings"
)

// ---------------------------------------------------------------------------------------------
// Value pools. NaN, ±Inf and -0.0 are kept out on purpose (DESIGN §3.4); so are values whose
// products reach ±Inf within three multiplications.

var intPool = []int64{0, 1, -1, 2, -2, 3, 7, 10, 100, math.MaxInt64, math.MinInt64, 1 << 31, -(1 << 31), 1<<53 + 1, -(1<<53 + 1)}
var intLits = []int64{0, 1, 2, 3, 7, 10, -1, -2, 100}
var floatPool = []float64{0.5, 1, -1, 2.5, -0.25, 3.75, -7.5, 100.125, 0.001, 123456.789, 1e10, 0, 2, 0.1}
var floatLits = []float64{0.5, 1, 2.5, -0.25, 2, 100.125, 0.1, -1, 10}
var plainStrings = []string{"", "a", "b", "ab", "abc", "B", "Ab", "x1", "zz", "a_b", "hello", "ABC", "b2"}
var richStrings = []string{"it's", "say \"hi\"", "a,b", "line1\nline2", "é", "É", "日本", "😀", "100%", "%d", "a b", " lead", "tab\there", "back\\slash", "%s%n", "x|y", "a, b", "'", "\"\"", "trail ", "ééa", "{a}", "[1, 2]"}
var likePatterns = []string{"a%", "%b", "%a%", "_b", "a_c", "%", "ab", "", "_", "a%c", "%_", "__", "A%", "%1", "a_b", "%b%", "_%_", "hello", "h%o", "%é%", "é", "_é%"}

// GenOpts controls the generators.
type GenOpts struct {
	MaxRows  int  // upper bound on table rows (<= 100 so that schema inference sees every row)
	Rich     bool // strings may contain quotes, commas, newlines, unicode, % (json/csv modes only)
	MaxDepth int  // expression depth (<= 3)
}

// Gen is a seeded generator; all choices come from R.
type Gen struct {
	R      *rand.Rand
	O      GenOpts
	aliasN int
	tableN int
	cteN   int
}

func NewGen(r *rand.Rand, o GenOpts) *Gen {
	if o.MaxDepth <= 0 || o.MaxDepth > 3 {
		o.MaxDepth = 3
	}
	if o.MaxRows <= 0 || o.MaxRows > 100 {
		o.MaxRows = 100
	}
	return &Gen{R: r, O: o}
}

func (g *Gen) chance(p float64) bool { return g.R.Float64() < p }

func (g *Gen) alias() string {
	g.aliasN++
	return "c" + strconv.Itoa(g.aliasN)
}

func (g *Gen) stringPool() []string {
	if g.O.Rich {
		out := append([]string{}, plainStrings...)
		return append(out, richStrings...)
	}
	return plainStrings
}

func (g *Gen) poolValue(k Kind) Value {
	switch k {
	case KInt:
		return Int(intPool[g.R.Intn(len(intPool))])
	case KFloat:
		return Float(floatPool[g.R.Intn(len(floatPool))])
	case KBool:
		return Bool(g.R.Intn(2) == 0)
	case KString:
		p := g.stringPool()
		return Str(p[g.R.Intn(len(p))])
	}
	return Null()
}

func (g *Gen) litValue(k Kind) Value {
	switch k {
	case KInt:
		return Int(intLits[g.R.Intn(len(intLits))])
	case KFloat:
		return Float(floatLits[g.R.Intn(len(floatLits))])
	case KBool:
		return Bool(g.R.Intn(2) == 0)
	case KString:
		p := g.stringPool()
		return Str(p[g.R.Intn(len(p))])
	}
	return Null()
}

// ---------------------------------------------------------------------------------------------
// Tables

// Table generates a table: kind "csv" gives 2..4 Int columns, kind "json" gives 1..4 columns of
// Float/String/Boolean. 0..MaxRows rows (an empty table is a header-only CSV whose columns are
// typed NULL), NULL-heavy, with duplicated rows and few distinct values per column; every
// column has at least one non-NULL cell.
func (g *Gen) Table(kind string) *Table {
	g.tableN++
	t := &Table{Name: "t" + strconv.Itoa(g.tableN)}
	var nrows int
	switch x := g.R.Intn(100); {
	case x < 4 && kind == "csv":
		nrows = 0
	case x < 12:
		nrows = 1
	case x < 70:
		nrows = 2 + g.R.Intn(11)
	case x < 92:
		nrows = 13 + g.R.Intn(28)
	default:
		nrows = 41 + g.R.Intn(60)
	}
	if nrows > g.O.MaxRows {
		nrows = g.O.MaxRows
	}
	if kind == "csv" {
		t.File = t.Name + ".csv"
		n := 2 + g.R.Intn(3)
		for i := 0; i < n; i++ {
			t.Cols = append(t.Cols, Column{Name: "i" + strconv.Itoa(i), T: TInt})
		}
	} else {
		t.File = t.Name + ".json"
		n := 1 + g.R.Intn(4)
		nb, nf, ns := 0, 0, 0
		for i := 0; i < n; i++ {
			switch g.R.Intn(3) {
			case 0:
				nb++
			case 1:
				nf++
			default:
				ns++
			}
		}
		// the JSON datasource orders columns by name: b* < f* < s*
		for i := 0; i < nb; i++ {
			t.Cols = append(t.Cols, Column{Name: "b" + strconv.Itoa(i), T: TBool})
		}
		for i := 0; i < nf; i++ {
			t.Cols = append(t.Cols, Column{Name: "f" + strconv.Itoa(i), T: TFloat})
		}
		for i := 0; i < ns; i++ {
			t.Cols = append(t.Cols, Column{Name: "s" + strconv.Itoa(i), T: TString})
		}
	}
	if nrows == 0 {
		for i := range t.Cols {
			t.Cols[i].T = TNull
		}
		return t
	}
	pools := make([][]Value, len(t.Cols))
	nullP := make([]float64, len(t.Cols))
	for i, c := range t.Cols {
		n := 1 + g.R.Intn(5)
		for j := 0; j < n; j++ {
			pools[i] = append(pools[i], g.poolValue(c.T.K))
		}
		nullP[i] = []float64{0, 0.15, 0.4, 0.7}[g.R.Intn(4)]
	}
	for r := 0; r < nrows; r++ {
		if r > 0 && g.chance(0.3) {
			src := t.Rows[g.R.Intn(r)]
			t.Rows = append(t.Rows, append(Row{}, src...))
			continue
		}
		row := make(Row, len(t.Cols))
		for i := range t.Cols {
			if g.chance(nullP[i]) {
				row[i] = Null()
			} else {
				row[i] = pools[i][g.R.Intn(len(pools[i]))]
			}
		}
		t.Rows = append(t.Rows, row)
	}
	for i := range t.Cols {
		has := false
		for _, r := range t.Rows {
			if !r[i].IsNull() {
				has = true
				break
			}
		}
		if !has {
			t.Rows[g.R.Intn(len(t.Rows))][i] = pools[i][0]
		}
	}
	return t
}

// FixedTable builds a table from literal rows (C05's fixed multisets).
func FixedTable(name, kind string, cols []Column, rows []Row) *Table {
	ext := ".csv"
	if kind == "json" {
		ext = ".json"
	}
	return &Table{Name: name, File: name + ext, Cols: cols, Rows: rows}
}

// FileBytes renders the table file.
func (t *Table) FileBytes() []byte {
	var buf bytes.Buffer
	if strings.HasSuffix(t.File, ".csv") {
		for i, c := range t.Cols {
			if i > 0 {
				buf.WriteByte(',')
			}
			buf.WriteString(c.Name)
		}
		buf.WriteByte('\n')
		for _, r := range t.Rows {
			for i, v := range r {
				if i > 0 {
					buf.WriteByte(',')
				}
				if v.K == KInt {
					buf.WriteString(strconv.FormatInt(v.I, 10))
				}
			}
			buf.WriteByte('\n')
		}
		return buf.Bytes()
	}
	for _, r := range t.Rows {
		buf.WriteByte('{')
		for i, v := range r {
			if i > 0 {
				buf.WriteByte(',')
			}
			name, _ := json.Marshal(t.Cols[i].Name)
			buf.Write(name)
			buf.WriteByte(':')
			switch v.K {
			case KNull:
				buf.WriteString("null")
			case KFloat:
				buf.WriteString(strconv.FormatFloat(v.F, 'g', -1, 64))
			case KBool:
				buf.WriteString(strconv.FormatBool(v.B))
			case KString:
				var sb bytes.Buffer
				enc := json.NewEncoder(&sb)
				enc.SetEscapeHTML(false)
				_ = enc.Encode(v.S)
				buf.Write(bytes.TrimRight(sb.Bytes(), "\n"))
			case KInt:
				buf.WriteString(strconv.FormatInt(v.I, 10))
			}
		}
		buf.WriteString("}\n")
	}
	return buf.Bytes()
}

// ---------------------------------------------------------------------------------------------
// Expressions

// ScopeCol is a column visible to expressions of one query level.
type ScopeCol struct {
	Idx  int
	Name string
	Qual string // qualifier usable in front of the name ("" if none)
	T    Type
}

type Scope []ScopeCol

func (s Scope) ofKind(k Kind) []ScopeCol {
	var out []ScopeCol
	for _, c := range s {
		if c.T.K == k {
			out = append(out, c)
		}
	}
	return out
}

func (s Scope) nullOnly() bool {
	for _, c := range s {
		if c.T.K != KNull {
			return false
		}
	}
	return true
}

func (g *Gen) colRef(c ScopeCol) *Expr {
	text := c.Name
	if c.Qual != "" && g.chance(0.4) {
		text = c.Qual + "." + c.Name
	}
	return Col(c.Idx, text, c.T)
}

var scalarKinds = []Kind{KInt, KFloat, KString, KBool}

// preferredKind picks a scalar kind, favouring kinds that have columns in scope.
func (g *Gen) preferredKind(s Scope) Kind {
	var have []Kind
	for _, k := range scalarKinds {
		if len(s.ofKind(k)) > 0 {
			have = append(have, k)
		}
	}
	if len(have) > 0 && g.chance(0.8) {
		return have[g.R.Intn(len(have))]
	}
	return scalarKinds[g.R.Intn(len(scalarKinds))]
}

// Expr generates a well-typed expression of kind k with depth <= d.
func (g *Gen) Expr(s Scope, k Kind, d int) *Expr {
	cols := s.ofKind(k)
	leaf := func() *Expr {
		if len(cols) > 0 && g.chance(0.8) {
			return g.colRef(cols[g.R.Intn(len(cols))])
		}
		return Lit(g.litValue(k))
	}
	if k == KList || k == KNull {
		if len(cols) > 0 {
			return g.colRef(cols[g.R.Intn(len(cols))])
		}
		return Lit(Null())
	}
	if d <= 0 || g.chance(0.25) {
		return leaf()
	}
	t := Type{K: k}
	switch k {
	case KInt:
		switch g.R.Intn(12) {
		case 0, 1:
			return Bin(OpAdd, t, g.Expr(s, KInt, d-1), g.Expr(s, KInt, d-1))
		case 2:
			return Bin(OpSub, t, g.Expr(s, KInt, d-1), g.Expr(s, KInt, d-1))
		case 3:
			return Bin(OpMul, t, g.Expr(s, KInt, d-1), g.Expr(s, KInt, d-1))
		case 4:
			return Bin(OpDiv, t, g.Expr(s, KInt, d-1), Lit(Int([]int64{1, 2, 3, 7, 10}[g.R.Intn(5)])))
		case 5:
			return Un(OpNeg, t, g.Expr(s, KInt, d-1))
		case 6:
			return Un(OpAbs, t, g.Expr(s, KInt, d-1))
		case 7:
			return Un(OpLen, t, g.Expr(s, KString, d-1))
		case 8:
			if len(s.ofKind(KFloat)) > 0 {
				return Un(OpToInt, t, g.Expr(s, KFloat, d-1))
			}
			return Un(OpToInt, t, g.Expr(s, KInt, d-1))
		case 9:
			return Un(OpToInt, t, g.Expr(s, KBool, d-1))
		case 10:
			return g.coalesce(s, k, d)
		}
		return leaf()
	case KFloat:
		switch g.R.Intn(10) {
		case 0, 1:
			return Bin(OpAdd, t, g.Expr(s, KFloat, d-1), g.Expr(s, KFloat, d-1))
		case 2:
			return Bin(OpSub, t, g.Expr(s, KFloat, d-1), g.Expr(s, KFloat, d-1))
		case 3:
			return Bin(OpMul, t, g.Expr(s, KFloat, d-1), g.Expr(s, KFloat, d-1))
		case 4:
			return Bin(OpDiv, t, g.Expr(s, KFloat, d-1), Lit(Float([]float64{2, 0.5, 4, -2, 10}[g.R.Intn(5)])))
		case 5:
			return Un(OpNeg, t, g.Expr(s, KFloat, d-1))
		case 6:
			return Un(OpAbs, t, g.Expr(s, KFloat, d-1))
		case 7:
			return Un(OpToFloat, t, g.Expr(s, KInt, d-1))
		case 8:
			return g.coalesce(s, k, d)
		}
		return leaf()
	case KString:
		switch g.R.Intn(6) {
		case 0, 1:
			return Bin(OpConcat, t, g.Expr(s, KString, d-1), g.Expr(s, KString, d-1))
		case 2:
			return Un(OpUpper, t, g.Expr(s, KString, d-1))
		case 3:
			return Un(OpLower, t, g.Expr(s, KString, d-1))
		case 4:
			return g.coalesce(s, k, d)
		}
		return leaf()
	case KBool:
		switch g.R.Intn(14) {
		case 0, 1, 2, 3:
			ak := g.preferredKind(s)
			op := []string{OpEq, OpNe, OpLt, OpLe, OpGt, OpGe}[g.R.Intn(6)]
			return Bin(op, t, g.Expr(s, ak, d-1), g.Expr(s, ak, d-1))
		case 4, 5:
			return Bin(OpAnd, t, g.Expr(s, KBool, d-1), g.Expr(s, KBool, d-1))
		case 6, 7:
			return Bin(OpOr, t, g.Expr(s, KBool, d-1), g.Expr(s, KBool, d-1))
		case 8:
			return Un(OpNot, t, g.Expr(s, KBool, d-1))
		case 9:
			op := OpIsNull
			if g.chance(0.5) {
				op = OpIsNotNull
			}
			return Un(op, t, g.Expr(s, g.preferredKind(s), d-1))
		case 10:
			ak := g.preferredKind(s)
			if ak == KBool {
				ak = KInt
			}
			e := Un(OpIn, t, g.Expr(s, ak, d-1))
			if g.chance(0.35) {
				e.Op = OpNotIn
			}
			n := 2 + g.R.Intn(3)
			for i := 0; i < n; i++ {
				if g.chance(0.5) {
					e.Tuple = append(e.Tuple, g.poolValue(ak))
				} else {
					e.Tuple = append(e.Tuple, g.litValue(ak))
				}
			}
			for i, v := range e.Tuple {
				// literals the dialect cannot spell
				if v.K == KInt && v.I == math.MinInt64 {
					e.Tuple[i] = Int(math.MinInt64 + 1)
				}
			}
			return e
		case 11:
			e := Un(OpLike, t, g.Expr(s, KString, d-1))
			if g.chance(0.3) {
				e.Op = OpNotLike
			}
			e.Pattern = likePatterns[g.R.Intn(len(likePatterns))]
			return e
		case 12:
			return g.coalesce(s, k, d)
		}
		return leaf()
	}
	return leaf()
}

func (g *Gen) coalesce(s Scope, k Kind, d int) *Expr {
	n := 2 + g.R.Intn(2)
	e := &Expr{Op: OpCoalesce, T: Type{K: k}}
	for i := 0; i < n; i++ {
		e.Args = append(e.Args, g.Expr(s, k, d-1))
	}
	return e
}

// ---------------------------------------------------------------------------------------------
// Queries

func scopeOf(cols []Column, qual string) Scope {
	s := make(Scope, len(cols))
	for i, c := range cols {
		s[i] = ScopeCol{Idx: i, Name: c.Name, Qual: qual, T: c.T}
	}
	return s
}

// source builders -------------------------------------------------------------------------------

func (g *Gen) tableSource(t *Table) (Source, Scope) {
	src := Source{Kind: SrcTable, Table: t}
	qual := t.Name
	if g.chance(0.4) {
		src.Alias = []string{"t", "u", "x"}[g.R.Intn(3)]
		qual = src.Alias
	}
	return src, scopeOf(t.Cols, qual)
}

func (g *Gen) subSource(q *Query) (Source, Scope) {
	alias := []string{"q", "r", "w"}[g.R.Intn(3)]
	return Source{Kind: SrcSub, Sub: q, Alias: alias}, scopeOf(q.OutCols(nil), alias)
}

// FlatOpts tunes one SELECT level.
type FlatOpts struct {
	Nested   bool    // the level feeds another query
	PWhere   float64 // probability of a WHERE
	PDist    float64
	POrder   float64
	PLimit   float64
	MaxItems int
}

var TopOpts = FlatOpts{PWhere: 0.55, PDist: 0.2, POrder: 0.45, PLimit: 0.3, MaxItems: 4}
var NestedOpts = FlatOpts{Nested: true, PWhere: 0.4, PDist: 0.2, POrder: 0.35, PLimit: 0.35, MaxItems: 3}

// Flat generates one non-grouping SELECT level over the given source.
func (g *Gen) Flat(src Source, s Scope, o FlatOpts, rowsHint int) *Query {
	q := &Query{From: src, Limit: -1}
	nullOnly := s.nullOnly()
	hasList := false
	for _, c := range s {
		if c.T.K == KList {
			hasList = true
		}
	}
	switch {
	case g.chance(0.06) && !hasList && src.Kind != SrcCTE:
		q.Star = true
	case nullOnly:
		n := 1 + g.R.Intn(len(s))
		for i := 0; i < n; i++ {
			q.Items = append(q.Items, SelItem{Expr: g.colRef(s[g.R.Intn(len(s))]), Alias: g.alias()})
		}
	default:
		n := 1 + g.R.Intn(o.MaxItems)
		for i := 0; i < n; i++ {
			var e *Expr
			if hasList && g.chance(0.3) {
				ls := s.ofKind(KList)
				e = g.colRef(ls[g.R.Intn(len(ls))])
			} else {
				e = g.Expr(s, g.preferredKind(s), g.R.Intn(g.O.MaxDepth+1))
			}
			q.Items = append(q.Items, SelItem{Expr: e, Alias: g.alias()})
		}
	}
	if g.chance(o.PWhere) {
		if nullOnly {
			op := OpIsNull
			if g.chance(0.5) {
				op = OpIsNotNull
			}
			q.Where = Un(op, TBool, g.colRef(s[g.R.Intn(len(s))]))
		} else {
			q.Where = g.Expr(s, KBool, 1+g.R.Intn(g.O.MaxDepth))
		}
	}
	if g.chance(o.PDist) {
		q.Distinct = true
	}
	g.orderLimit(q, o, rowsHint)
	return q
}

// orderLimit adds ORDER BY / LIMIT to q.
func (g *Gen) orderLimit(q *Query, o FlatOpts, rowsHint int) {
	out := q.OutCols(nil)
	var sortable []int
	for i, c := range out {
		if c.T.K != KList {
			sortable = append(sortable, i)
		}
	}
	limit := g.chance(o.PLimit)
	order := g.chance(o.POrder) && len(sortable) > 0
	total := false
	if limit && len(sortable) == len(out) && len(out) > 0 && (o.Nested && g.chance(0.8) || !o.Nested && g.chance(0.4)) {
		order, total = true, true
	}
	if order {
		perm := g.R.Perm(len(sortable))
		n := 1 + g.R.Intn(minInt(3, len(sortable)))
		if total {
			n = len(sortable)
		}
		for _, p := range perm[:n] {
			q.OrderBy = append(q.OrderBy, OrderKey{Col: sortable[p], Desc: g.chance(0.4)})
		}
	}
	if limit {
		switch x := g.R.Intn(10); {
		case x == 0:
			q.Limit = 0
		case x < 6:
			q.Limit = 1 + g.R.Intn(5)
		case x < 9:
			q.Limit = g.R.Intn(rowsHint + 2)
		default:
			q.Limit = rowsHint + 1 + g.R.Intn(50)
		}
	}
}

func minInt(a, b int) int {
	if a < b {
		return a
	}
	return b
}

// SelectQuery generates a C01 query over the tables: flat, subquery in FROM, WITH, or a
// combination (nesting depth <= 3).
func (g *Gen) SelectQuery(tables []*Table) *Query {
	t := tables[g.R.Intn(len(tables))]
	hint := len(t.Rows)
	switch x := g.R.Intn(100); {
	case x < 38:
		src, s := g.tableSource(t)
		return g.Flat(src, s, TopOpts, hint)
	case x < 68:
		inner := g.nestedLevel(t, 1+g.R.Intn(2))
		src, s := g.subSource(inner)
		return g.Flat(src, s, TopOpts, hint)
	case x < 92:
		return g.withQuery(tables, t, nil)
	default:
		// WITH whose CTE body has a subquery
		inner := g.nestedLevel(t, 1)
		return g.withQuery(tables, t, inner)
	}
}

// nestedLevel builds depth levels of nested SELECTs over t.
func (g *Gen) nestedLevel(t *Table, depth int) *Query {
	src, s := g.tableSource(t)
	q := g.Flat(src, s, NestedOpts, len(t.Rows))
	for i := 1; i < depth; i++ {
		src, s := g.subSource(q)
		q = g.Flat(src, s, NestedOpts, len(t.Rows))
	}
	return q
}

func (g *Gen) cteName() string {
	g.cteN++
	return "cte" + strconv.Itoa(g.cteN)
}

// withQuery builds WITH c1 AS (...)[, c2 AS (... FROM c1)] SELECT ... FROM c_last. CTE columns
// can only be referenced unqualified in this dialect.
func (g *Gen) withQuery(tables []*Table, t *Table, firstBody *Query) *Query {
	var ctes []CTE
	body := firstBody
	if body == nil {
		src, s := g.tableSource(t)
		body = g.Flat(src, s, NestedOpts, len(t.Rows))
	} else {
		src, s := g.subSource(body)
		body = g.Flat(src, s, NestedOpts, len(t.Rows))
	}
	ctes = append(ctes, CTE{Name: g.cteName(), Q: body})
	if g.chance(0.35) {
		prev := ctes[0]
		src := Source{Kind: SrcCTE, CTE: prev.Name}
		q2 := g.Flat(src, scopeOf(prev.Q.OutCols(nil), ""), NestedOpts, len(t.Rows))
		ctes = append(ctes, CTE{Name: g.cteName(), Q: q2})
	}
	last := ctes[len(ctes)-1]
	src := Source{Kind: SrcCTE, CTE: last.Name}
	main := g.Flat(src, scopeOf(last.Q.OutCols(nil), ""), TopOpts, len(t.Rows))
	main.With = ctes
	return main
}

// ---------------------------------------------------------------------------------------------
// GROUP BY queries (C03)

// aggregate generates one aggregate over the scope.
func (g *Gen) aggregate(s Scope, allowList bool) *Agg {
	numeric := func() *Expr {
		k := KInt
		hasI, hasF := len(s.ofKind(KInt)) > 0, len(s.ofKind(KFloat)) > 0
		switch {
		case hasI && hasF:
			if g.chance(0.5) {
				k = KFloat
			}
		case hasF:
			k = KFloat
			if g.chance(0.15) {
				k = KInt
			}
		default:
			if g.chance(0.15) {
				k = KFloat
			}
		}
		return g.Expr(s, k, g.R.Intn(3))
	}
	anyArg := func() *Expr { return g.Expr(s, g.preferredKind(s), g.R.Intn(3)) }
	for {
		switch g.R.Intn(13) {
		case 0:
			return &Agg{Fn: "count", Star: true}
		case 1:
			return &Agg{Fn: "count", Arg: anyArg()}
		case 2:
			return &Agg{Fn: "count", Distinct: true, Arg: anyArg()}
		case 3:
			return &Agg{Fn: "sum", Arg: numeric()}
		case 4:
			return &Agg{Fn: "sum", Distinct: true, Arg: numeric()}
		case 5:
			return &Agg{Fn: "avg", Arg: numeric()}
		case 6:
			return &Agg{Fn: "avg", Distinct: true, Arg: numeric()}
		case 7, 8:
			return &Agg{Fn: "min", Arg: numeric()}
		case 9, 10:
			return &Agg{Fn: "max", Arg: numeric()}
		case 11:
			if allowList {
				return &Agg{Fn: "array_agg", Arg: anyArg()}
			}
		case 12:
			if allowList {
				return &Agg{Fn: "array_agg", Distinct: true, Arg: anyArg()}
			}
		}
	}
}

// GroupOpts tunes GroupQuery.
type GroupOpts struct {
	AllowList    bool    // array_agg may be used
	PTrigger     float64 // probability of TRIGGER COUNTING n
	PEndOfStream float64 // probability of TRIGGER ON END OF STREAM
}

// GroupLevel generates SELECT keys..., aggregates... FROM src [WHERE] GROUP BY 0-3 keys [TRIGGER].
func (g *Gen) GroupLevel(src Source, s Scope, o GroupOpts) *Query {
	q := &Query{From: src, Limit: -1, Grouping: true}
	if g.chance(0.3) {
		q.Where = g.Expr(s, KBool, 1+g.R.Intn(2))
	}
	nk := []int{0, 1, 1, 1, 2, 2, 3}[g.R.Intn(7)]
	for i := 0; i < nk; i++ {
		k := g.preferredKind(s)
		var e *Expr
		if cols := s.ofKind(k); len(cols) > 0 && g.chance(0.7) {
			e = g.colRef(cols[g.R.Intn(len(cols))])
		} else {
			e = g.Expr(s, k, 1+g.R.Intn(2))
			if e.Op == OpLit {
				e = g.Expr(s, k, 1)
			}
		}
		// the parser matches select items to keys structurally; two identical keys are pointless
		dup := false
		for _, prev := range q.GroupBy {
			if prev.SQL() == e.SQL() {
				dup = true
			}
		}
		if !dup {
			q.GroupBy = append(q.GroupBy, e)
		}
	}
	var items []SelItem
	for _, k := range q.GroupBy {
		if g.chance(0.75) {
			items = append(items, SelItem{Expr: k, Alias: g.alias()})
		}
	}
	na := 1 + g.R.Intn(4)
	for i := 0; i < na; i++ {
		items = append(items, SelItem{Agg: g.aggregate(s, o.AllowList), Alias: g.alias()})
	}
	g.R.Shuffle(len(items), func(i, j int) { items[i], items[j] = items[j], items[i] })
	q.Items = items
	switch x := g.R.Float64(); {
	case x < o.PTrigger:
		q.Trigger = "COUNTING " + strconv.Itoa(1+g.R.Intn(4))
	case x < o.PTrigger+o.PEndOfStream:
		q.Trigger = "ON END OF STREAM"
	}
	return q
}

// GroupQuery generates a C03 query: a grouping level over a table (or over a flat subquery),
// either printed directly (optionally ORDER BY / LIMIT) or wrapped in an outer SELECT with a
// HAVING-like WHERE over the aggregate columns.
func (g *Gen) GroupQuery(tables []*Table, o GroupOpts) *Query {
	t := tables[g.R.Intn(len(tables))]
	var src Source
	var s Scope
	if g.chance(0.2) {
		inner := g.nestedLevel(t, 1)
		if inner.Star || len(inner.Items) == 0 {
			src, s = g.tableSource(t)
		} else {
			src, s = g.subSource(inner)
		}
	} else {
		src, s = g.tableSource(t)
	}
	if s.nullOnly() {
		// an empty (NULL-typed) table: only count(*) / count(col) typecheck
		q := &Query{From: src, Limit: -1, Grouping: true}
		if g.chance(0.5) {
			k := g.colRef(s[g.R.Intn(len(s))])
			q.GroupBy = []*Expr{k}
			q.Items = append(q.Items, SelItem{Expr: k, Alias: g.alias()})
		}
		q.Items = append(q.Items, SelItem{Agg: &Agg{Fn: "count", Star: true}, Alias: g.alias()})
		return q
	}
	q := g.GroupLevel(src, s, o)
	if g.chance(0.4) {
		osrc, os := g.subSource(q)
		outer := g.Flat(osrc, os, FlatOpts{PWhere: 0.8, PDist: 0.1, POrder: 0.3, PLimit: 0.15, MaxItems: 3}, len(t.Rows))
		return outer
	}
	fo := FlatOpts{POrder: 0.3, PLimit: 0.15}
	g.orderLimit(q, fo, len(t.Rows))
	// ORDER BY + LIMIT cutting inside a float sum/avg column would compare tolerant values
	// exactly; keep LIMIT only when no order key is a float aggregate
	if q.Limit >= 0 {
		for _, k := range q.OrderBy {
			it := q.Items[k.Col]
			if it.Agg != nil && it.Agg.ResultType().K == KFloat && (it.Agg.Fn == "sum" || it.Agg.Fn == "avg") {
				q.Limit = -1
			}
		}
	}
	return q
}

// Describe is a short normalised description of a query's shape (for coverage counters).
func (q *Query) Describe() string {
	var parts []string
	q.Visit(func(x *Query, depth int) {
		p := fmt.Sprintf("L%d", depth)
		if len(x.With) > 0 {
			p += "+with"
		}
		switch x.From.Kind {
		case SrcSub:
			p += "+sub"
		case SrcCTE:
			p += "+cte"
		}
		if x.Where != nil {
			p += "+where"
		}
		if x.Grouping {
			p += fmt.Sprintf("+group%d", len(x.GroupBy))
		}
		if x.Trigger != "" {
			p += "+trigger"
		}
		if x.Distinct {
			p += "+distinct"
		}
		if len(x.OrderBy) > 0 {
			p += "+order"
		}
		if x.Limit >= 0 {
			p += "+limit"
		}
		parts = append(parts, p)
	}, 0)
	return strings.Join(parts, " ")
}

// ---------------------------------------------------------------------------------------------
// Directed family: a nested DISTINCT whose columns are only partly used above it. An optimizer
// that prunes an unused column from under the DISTINCT merges rows that differ only in that
// column and changes the row count above.

// DupHeavyTable builds a table of 2..4 columns in which a strict, non-empty subset of the
// columns (kept) takes only 1..3 distinct value tuples, while the remaining columns take 2..4
// distinct tuples per kept tuple, every combination repeated 1..3 times: many rows agree on the
// kept columns and differ only in the others.
func (g *Gen) DupHeavyTable(kind string) (*Table, []int) {
	var t *Table
	for try := 0; try < 50; try++ {
		t = g.Table(kind)
		if len(t.Cols) >= 2 && len(t.Rows) > 0 {
			break
		}
	}
	if len(t.Cols) < 2 || len(t.Rows) == 0 {
		g.tableN++
		t = &Table{Name: "t" + strconv.Itoa(g.tableN), Cols: []Column{{Name: "i0", T: TInt}, {Name: "i1", T: TInt}}}
		t.File = t.Name + ".csv"
	}
	n := len(t.Cols)
	perm := g.R.Perm(n)
	k := 1 + g.R.Intn(n-1)
	isKept := make([]bool, n)
	for _, c := range perm[:k] {
		isKept[c] = true
	}
	var kept []int
	for c := 0; c < n; c++ {
		if isKept[c] {
			kept = append(kept, c)
		}
	}
	val := func(c int, nullOK bool) Value {
		if nullOK && g.chance(0.2) {
			return Null()
		}
		return g.poolValue(t.Cols[c].T.K)
	}
	t.Rows = nil
	nP := 1 + g.R.Intn(3)
	for p := 0; p < nP; p++ {
		base := make(Row, n)
		for c := 0; c < n; c++ {
			base[c] = val(c, p > 0)
		}
		nD := 2 + g.R.Intn(3)
		for d := 0; d < nD; d++ {
			row := append(Row{}, base...)
			for c := 0; c < n; c++ {
				if !isKept[c] {
					row[c] = val(c, d > 0)
				}
			}
			for r := 1 + g.R.Intn(3); r > 0; r-- {
				t.Rows = append(t.Rows, row)
			}
		}
	}
	g.R.Shuffle(len(t.Rows), func(i, j int) { t.Rows[i], t.Rows[j] = t.Rows[j], t.Rows[i] })
	return t, kept
}

// NestedDistinctPlacements and NestedDistinctOuters enumerate the directed family.
var NestedDistinctPlacements = []string{"from-subquery", "with", "two-levels-pass-through", "two-levels-middle-drops", "with-over-subquery"}
var NestedDistinctOuters = []string{"plain", "where", "order-by", "distinct", "aggregate"}

// NestedDistinctQuery builds: inner = SELECT DISTINCT <all columns, or *> FROM t, placed in a
// FROM subquery, a WITH, or one level deeper; above it only the kept columns are referenced
// (plain projection, WHERE, ORDER BY, DISTINCT or GROUP BY/aggregates over them).
func (g *Gen) NestedDistinctQuery(t *Table, kept []int, placement, outer string, star bool) *Query {
	inner := &Query{From: Source{Kind: SrcTable, Table: t}, Distinct: true, Limit: -1}
	if g.chance(0.3) {
		inner.From.Alias = "t"
	}
	if star {
		inner.Star = true
	} else {
		for i, c := range t.Cols {
			inner.Items = append(inner.Items, SelItem{Expr: Col(i, c.Name, c.T), Alias: g.alias()})
		}
	}
	// passThrough selects the given columns (by position) of src
	passThrough := func(src Source, s Scope, cols []int) *Query {
		q := &Query{From: src, Limit: -1}
		for _, c := range cols {
			q.Items = append(q.Items, SelItem{Expr: g.colRef(s[c]), Alias: g.alias()})
		}
		return q
	}
	all := make([]int, len(t.Cols))
	for i := range all {
		all[i] = i
	}
	var src Source
	var s Scope
	var with []CTE
	keptHere := kept // positions of the kept columns in the scope the outer query sees
	switch placement {
	case "from-subquery":
		src, s = g.subSource(inner)
	case "with":
		name := g.cteName()
		with = []CTE{{Name: name, Q: inner}}
		src, s = Source{Kind: SrcCTE, CTE: name}, scopeOf(inner.OutCols(nil), "")
	case "two-levels-pass-through":
		isrc, is := g.subSource(inner)
		mid := passThrough(isrc, is, all)
		src, s = g.subSource(mid)
	case "two-levels-middle-drops":
		isrc, is := g.subSource(inner)
		mid := passThrough(isrc, is, kept)
		src, s = g.subSource(mid)
		keptHere = make([]int, len(kept))
		for i := range kept {
			keptHere[i] = i
		}
	default: // with-over-subquery: WITH c AS (SELECT all FROM (inner) s) ...
		isrc, is := g.subSource(inner)
		mid := passThrough(isrc, is, all)
		name := g.cteName()
		with = []CTE{{Name: name, Q: mid}}
		src, s = Source{Kind: SrcCTE, CTE: name}, scopeOf(mid.OutCols(nil), "")
	}
	var ks Scope
	for _, c := range keptHere {
		ks = append(ks, s[c])
	}
	q := &Query{With: with, From: src, Limit: -1}
	if outer == "aggregate" {
		key := g.colRef(ks[0])
		q.Grouping = true
		q.GroupBy = []*Expr{key}
		q.Items = []SelItem{{Expr: key, Alias: g.alias()}, {Agg: &Agg{Fn: "count", Star: true}, Alias: g.alias()},
			{Agg: &Agg{Fn: "count", Arg: g.colRef(ks[len(ks)-1])}, Alias: g.alias()}}
		if g.chance(0.5) {
			q.GroupBy = nil
			q.Items = q.Items[1:]
		}
		return q
	}
	for _, c := range ks {
		q.Items = append(q.Items, SelItem{Expr: g.colRef(c), Alias: g.alias()})
	}
	switch outer {
	case "where":
		if ks.nullOnly() {
			q.Where = Un(OpIsNull, TBool, g.colRef(ks[0]))
		} else {
			// a predicate over the kept columns that is not constantly false: OR with IS [NOT] NULL
			q.Where = Bin(OpOr, TBool, g.Expr(ks, KBool, 1+g.R.Intn(2)), Un(OpIsNotNull, TBool, g.colRef(ks[0])))
		}
	case "order-by":
		for i := range q.Items {
			q.OrderBy = append(q.OrderBy, OrderKey{Col: i, Desc: g.chance(0.4)})
		}
	case "distinct":
		q.Distinct = true
	}
	return q
}

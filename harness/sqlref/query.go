package sqlref

import (
	"fmt"
	"math"
	"sort"
	"strconv"
	"strings"
)

// Column of a table or of a query's output.
type Column struct {
	Name string
	T    Type
}

// Table is a generated input table, stored as a CSV file (Int columns) or a JSON-lines file
// (Float/String/Boolean columns).
type Table struct {
	Name string // base name, e.g. "t0"; the default alias octosql derives from the file name
	File string // "t0.csv" | "t0.json"
	Cols []Column
	Rows []Row
	// FromSQL, when non-empty, is rendered in FROM instead of File: the table is then VIRTUAL, i.e.
	// Rows is the driver-computed content of a FROM expression over other files (for example an
	// inner join of two files on a unique key), whose columns are referenced by qualified names.
	FromSQL string
}

const (
	SrcTable = iota
	SrcSub
	SrcCTE
)

// Source is the single FROM item of a query.
type Source struct {
	Kind  int
	Table *Table
	Sub   *Query
	CTE   string
	Alias string // rendered after the source when non-empty (mandatory for subqueries)
}

// Agg is an aggregate call.
type Agg struct {
	Fn       string // count | sum | avg | min | max | array_agg
	Distinct bool
	Star     bool  // count(*)
	Arg      *Expr // nil for Star
}

// ResultType is the aggregate's static result type.
func (a *Agg) ResultType() Type {
	switch a.Fn {
	case "count":
		return TInt
	case "array_agg":
		return TList(a.Arg.T.K)
	}
	return a.Arg.T
}

func (a *Agg) SQL() string {
	if a.Star {
		return a.Fn + "(*)"
	}
	if a.Distinct {
		return a.Fn + "(DISTINCT " + a.Arg.SQL() + ")"
	}
	return a.Fn + "(" + a.Arg.SQL() + ")"
}

// SelItem is one select-list entry; every entry has a unique alias.
type SelItem struct {
	Expr  *Expr // scalar expression; in a grouping query it is (a copy of) group key KeyIdx
	Agg   *Agg  // aggregate (grouping queries only)
	Alias string
}

func (s SelItem) Type() Type {
	if s.Agg != nil {
		return s.Agg.ResultType()
	}
	return s.Expr.T
}

// OrderKey refers to an output column (by position; rendered by alias).
type OrderKey struct {
	Col  int
	Desc bool
}

type CTE struct {
	Name string
	Q    *Query
}

// Query is a single-source SELECT.
type Query struct {
	With     []CTE
	From     Source
	Where    *Expr
	Star     bool // SELECT * (Items empty)
	Items    []SelItem
	Grouping bool
	GroupBy  []*Expr
	Trigger  string // "" | "COUNTING n" | "ON END OF STREAM"
	Distinct bool
	OrderBy  []OrderKey
	Limit    int // -1: none
}

// SourceCols are the columns the FROM item exposes (bare names).
func (q *Query) SourceCols(ctes map[string][]Column) []Column {
	switch q.From.Kind {
	case SrcTable:
		return q.From.Table.Cols
	case SrcSub:
		return q.From.Sub.OutCols(ctes)
	default:
		return ctes[q.From.CTE]
	}
}

// OutCols are the query's output columns.
func (q *Query) OutCols(ctes map[string][]Column) []Column {
	if len(q.With) > 0 {
		m := map[string][]Column{}
		for k, v := range ctes {
			m[k] = v
		}
		for _, c := range q.With {
			m[c.Name] = c.Q.OutCols(m)
		}
		ctes = m
	}
	if q.Star {
		return q.SourceCols(ctes)
	}
	out := make([]Column, len(q.Items))
	for i, it := range q.Items {
		out[i] = Column{Name: it.Alias, T: it.Type()}
	}
	return out
}

// EmitsRetractions reports whether the record stream this level's SELECT produces (before the
// level's own ORDER BY / LIMIT) can contain retractions: a TRIGGER COUNTING group-by at this
// level, or a retracting source that is passed through by WHERE / projection / DISTINCT. A nested
// level with ORDER BY or LIMIT buffers its input and emits the final rows only, and a group-by
// without a counting trigger emits once at the end of the stream.
func (q *Query) EmitsRetractions() bool { return q.emitsRetractions(map[string]*Query{}) }

func (q *Query) emitsRetractions(ctes map[string]*Query) bool {
	if len(q.With) > 0 {
		m := map[string]*Query{}
		for k, v := range ctes {
			m[k] = v
		}
		for _, c := range q.With {
			m[c.Name] = c.Q
		}
		ctes = m
	}
	if q.Grouping {
		return strings.HasPrefix(q.Trigger, "COUNTING")
	}
	var src *Query
	switch q.From.Kind {
	case SrcSub:
		src = q.From.Sub
	case SrcCTE:
		src = ctes[q.From.CTE]
	}
	if src == nil {
		return false
	}
	if len(src.OrderBy) > 0 || src.Limit >= 0 {
		return false
	}
	return src.emitsRetractions(ctes)
}

// HasCountingTrigger reports whether any level uses TRIGGER COUNTING.
func (q *Query) HasCountingTrigger() bool {
	found := false
	q.Visit(func(x *Query, _ int) {
		if strings.HasPrefix(x.Trigger, "COUNTING") {
			found = true
		}
	}, 0)
	return found
}

// Visit calls fn for q and every nested query.
func (q *Query) Visit(fn func(*Query, int), depth int) {
	fn(q, depth)
	for _, c := range q.With {
		c.Q.Visit(fn, depth+1)
	}
	if q.From.Kind == SrcSub {
		q.From.Sub.Visit(fn, depth+1)
	}
}

// Exprs calls fn for every scalar expression of q (not nested queries).
func (q *Query) Exprs(fn func(*Expr)) {
	if q.Where != nil {
		fn(q.Where)
	}
	for _, g := range q.GroupBy {
		fn(g)
	}
	for _, it := range q.Items {
		if it.Expr != nil && !q.Grouping {
			fn(it.Expr)
		}
		if it.Agg != nil && it.Agg.Arg != nil {
			fn(it.Agg.Arg)
		}
	}
}

// Tables lists the distinct tables the query reads.
func (q *Query) Tables() []*Table {
	var out []*Table
	seen := map[*Table]bool{}
	q.Visit(func(x *Query, _ int) {
		if x.From.Kind == SrcTable && !seen[x.From.Table] {
			seen[x.From.Table] = true
			out = append(out, x.From.Table)
		}
	}, 0)
	return out
}

// ---------------------------------------------------------------------------------------------
// Rendering

func (q *Query) SQL() string {
	var sb strings.Builder
	if len(q.With) > 0 {
		sb.WriteString("WITH ")
		for i, c := range q.With {
			if i > 0 {
				sb.WriteString(", ")
			}
			sb.WriteString(c.Name + " AS (" + c.Q.SQL() + ")")
		}
		sb.WriteString(" ")
	}
	sb.WriteString("SELECT ")
	if q.Distinct {
		sb.WriteString("DISTINCT ")
	}
	if q.Star {
		sb.WriteString("*")
	} else {
		for i, it := range q.Items {
			if i > 0 {
				sb.WriteString(", ")
			}
			if it.Agg != nil {
				sb.WriteString(it.Agg.SQL())
			} else {
				sb.WriteString(it.Expr.SQL())
			}
			sb.WriteString(" AS " + it.Alias)
		}
	}
	sb.WriteString(" FROM ")
	switch q.From.Kind {
	case SrcTable:
		if q.From.Table.FromSQL != "" {
			sb.WriteString(q.From.Table.FromSQL)
		} else {
			sb.WriteString(q.From.Table.File)
		}
	case SrcSub:
		sb.WriteString("(" + q.From.Sub.SQL() + ")")
	case SrcCTE:
		sb.WriteString(q.From.CTE)
	}
	if q.From.Alias != "" {
		sb.WriteString(" " + q.From.Alias)
	}
	if q.Where != nil {
		sb.WriteString(" WHERE " + q.Where.SQL())
	}
	if len(q.GroupBy) > 0 {
		sb.WriteString(" GROUP BY ")
		for i, g := range q.GroupBy {
			if i > 0 {
				sb.WriteString(", ")
			}
			sb.WriteString(g.SQL())
		}
	}
	if q.Trigger != "" {
		sb.WriteString(" TRIGGER " + q.Trigger)
	}
	if len(q.OrderBy) > 0 {
		cols := q.OutCols(nil)
		sb.WriteString(" ORDER BY ")
		for i, k := range q.OrderBy {
			if i > 0 {
				sb.WriteString(", ")
			}
			name := "?"
			if !q.Star && k.Col < len(q.Items) {
				name = q.Items[k.Col].Alias
			} else if k.Col < len(cols) {
				name = cols[k.Col].Name
			}
			sb.WriteString(name)
			if k.Desc {
				sb.WriteString(" DESC")
			} else if i%2 == 1 {
				sb.WriteString(" ASC")
			}
		}
	}
	if q.Limit >= 0 {
		sb.WriteString(" LIMIT " + strconv.Itoa(q.Limit))
	}
	return sb.String()
}

// ---------------------------------------------------------------------------------------------
// Reference evaluation

// Result of evaluating one query level.
type Result struct {
	Cols []Column
	// Full holds the rows before this level's LIMIT, sorted by this level's ORDER BY (stable
	// with respect to arrival order) when there is one.
	Full    []Row
	OrderBy []OrderKey
	Limit   int // -1: none
	// Rows is the reference's own choice of rows after LIMIT (the first min(n, len) of Full).
	Rows []Row
	// Ambiguous: some NESTED level's LIMIT cut through rows that SQL does not order (a tie group of
	// non-identical rows, or no ORDER BY at all), or a nested global aggregate ran over an empty
	// input: the result depends on a choice the conventions leave open and must not be judged.
	Ambiguous bool
	// GlobalAggEmpty: this level is a GROUP BY-less aggregate over an empty input; zero rows
	// (what Full says) and one row of empty-set results are both acceptable (§3.4).
	GlobalAggEmpty bool
	// AltRow is that alternative single row.
	AltRow Row
	// QuirkLimit0 / QuirkDup count the levels at which the emulation of the two known LIMIT
	// defects (EvalOpts.Quirks) changed the rows.
	QuirkLimit0, QuirkDup int
}

// Eval evaluates the query.
func (q *Query) Eval(o EvalOpts) (*Result, error) {
	return q.eval(o, map[string]*Result{}, map[string]*Query{}, true)
}

// CompareKeys compares two rows on the order keys.
func CompareKeys(a, b Row, keys []OrderKey) int {
	for _, k := range keys {
		c := Compare(a[k.Col], b[k.Col])
		if c != 0 {
			if k.Desc {
				return -c
			}
			return c
		}
	}
	return 0
}

// cutAmbiguous reports whether taking the first n rows of full (sorted by keys, or unordered if
// there are no keys) depends on an unspecified choice.
func cutAmbiguous(full []Row, keys []OrderKey, n int) bool {
	if n < 0 || n >= len(full) || n == 0 {
		return false
	}
	if len(keys) == 0 {
		for _, r := range full[1:] {
			if CompareRows(r, full[0]) != 0 {
				return true
			}
		}
		return false
	}
	if CompareKeys(full[n-1], full[n], keys) != 0 {
		return false
	}
	// boundary tie group must consist of identical rows
	b := full[n-1]
	for _, r := range full {
		if CompareKeys(r, b, keys) == 0 && CompareRows(r, b) != 0 {
			return true
		}
	}
	return false
}

func (q *Query) eval(o EvalOpts, ctes map[string]*Result, cteQ map[string]*Query, top bool) (*Result, error) {
	if len(q.With) > 0 {
		m := map[string]*Result{}
		mq := map[string]*Query{}
		for k, v := range ctes {
			m[k] = v
			mq[k] = cteQ[k]
		}
		for _, c := range q.With {
			r, err := c.Q.eval(o, m, mq, false)
			if err != nil {
				return nil, err
			}
			m[c.Name] = r
			mq[c.Name] = c.Q
		}
		ctes = m
		cteQ = mq
	}
	res := &Result{Limit: q.Limit, OrderBy: q.OrderBy}
	// FROM
	var in []Row
	var inCols []Column
	nested := func(r *Result) {
		in = r.Rows
		inCols = r.Cols
		if r.Ambiguous || cutAmbiguous(r.Full, r.OrderBy, r.Limit) || r.GlobalAggEmpty {
			res.Ambiguous = true
		}
		res.QuirkLimit0 += r.QuirkLimit0
		res.QuirkDup += r.QuirkDup
	}
	switch q.From.Kind {
	case SrcTable:
		in = q.From.Table.Rows
		inCols = q.From.Table.Cols
	case SrcSub:
		r, err := q.From.Sub.eval(o, ctes, cteQ, false)
		if err != nil {
			return nil, err
		}
		nested(r)
	case SrcCTE:
		r, ok := ctes[q.From.CTE]
		if !ok {
			return nil, fmt.Errorf("unknown CTE %s", q.From.CTE)
		}
		nested(r)
	}
	// WHERE: keeps TRUE only
	if q.Where != nil {
		var kept []Row
		for _, r := range in {
			v, err := q.Where.Eval(r, o)
			if err != nil {
				return nil, err
			}
			if v.K == KBool && v.B {
				kept = append(kept, r)
			}
		}
		in = kept
	}
	// SELECT
	var out []Row
	switch {
	case q.Star:
		res.Cols = inCols
		out = in
	case q.Grouping:
		res.Cols = make([]Column, len(q.Items))
		for i, it := range q.Items {
			res.Cols[i] = Column{Name: it.Alias, T: it.Type()}
		}
		rows, err := q.group(in, o)
		if err != nil {
			return nil, err
		}
		out = rows
		if len(q.GroupBy) == 0 && len(in) == 0 {
			res.GlobalAggEmpty = true
			res.AltRow = make(Row, len(q.Items))
			for i := range res.AltRow {
				res.AltRow[i] = Null()
			}
		}
	default:
		res.Cols = make([]Column, len(q.Items))
		for i, it := range q.Items {
			res.Cols[i] = Column{Name: it.Alias, T: it.Type()}
		}
		out = make([]Row, 0, len(in))
		for _, r := range in {
			nr := make(Row, len(q.Items))
			for i, it := range q.Items {
				v, err := it.Expr.Eval(r, o)
				if err != nil {
					return nil, err
				}
				nr[i] = v
			}
			out = append(out, nr)
		}
	}
	// DISTINCT
	if q.Distinct {
		seen := map[string]bool{}
		var d []Row
		for _, r := range out {
			k := r.Key()
			if !seen[k] {
				seen[k] = true
				d = append(d, r)
			}
		}
		out = d
	}
	// ORDER BY
	if len(q.OrderBy) > 0 {
		// Ties are ordered by the whole row: any order of ties is legitimate, and this is the one
		// octosql's btree produces, so an order-sensitive consumer above (a float sum) sees the
		// rows in the same order in the reference as in the engine.
		out = SortRows(out, q.OrderBy)
	}
	res.Full = out
	res.Rows = out
	if q.Limit >= 0 && q.Limit < len(out) {
		res.Rows = out[:q.Limit]
	}
	if o.Quirks && q.Limit >= 0 && !(top && o.TableMode) {
		// Emulation of the two known LIMIT defects, used only to attribute an observed
		// discrepancy to them: (1) a level without ORDER BY over a non-retracting source is a Limit
		// node, which compares after producing, so LIMIT 0 passes everything; (2) any other
		// limited level is an OrderSensitiveTransform, which counts distinct (key, row) items
		// instead of rows.
		ost := len(q.OrderBy) > 0 || q.emitsRetractions(cteQ)
		n := q.Limit
		if ost {
			if n > 0 && n < len(out) {
				alt := FirstDistinctItems(out, q.OrderBy, n)
				if len(alt) != n {
					res.Rows = alt
					res.QuirkDup++
				}
			}
		} else if n == 0 && len(out) > 0 {
			res.Rows = out
			res.QuirkLimit0++
		}
	}
	return res, nil
}

type groupState struct {
	key  Row
	rows []Row
}

func (q *Query) group(in []Row, o EvalOpts) ([]Row, error) {
	var order []string
	groups := map[string]*groupState{}
	for _, r := range in {
		key := make(Row, len(q.GroupBy))
		for i, g := range q.GroupBy {
			v, err := g.Eval(r, o)
			if err != nil {
				return nil, err
			}
			key[i] = v
		}
		k := key.Key()
		g, ok := groups[k]
		if !ok {
			g = &groupState{key: key}
			groups[k] = g
			order = append(order, k)
		}
		g.rows = append(g.rows, r)
	}
	var out []Row
	for _, k := range order {
		g := groups[k]
		nr := make(Row, len(q.Items))
		for i, it := range q.Items {
			if it.Agg == nil {
				// the item is one of the key expressions: evaluate it on any row of the group
				v, err := it.Expr.Eval(g.rows[0], o)
				if err != nil {
					return nil, err
				}
				nr[i] = v
				continue
			}
			v, err := EvalAgg(it.Agg, g.rows, o)
			if err != nil {
				return nil, err
			}
			nr[i] = v
		}
		out = append(out, nr)
	}
	return out, nil
}

// EvalAgg computes one aggregate over the rows of a group: NULL inputs are ignored, an empty
// input set yields NULL (count included, as C03's statement says).
func EvalAgg(a *Agg, rows []Row, o EvalOpts) (Value, error) {
	var vals []Value
	if a.Star {
		for range rows {
			vals = append(vals, Bool(true))
		}
	} else {
		for _, r := range rows {
			v, err := a.Arg.Eval(r, o)
			if err != nil {
				return Value{}, err
			}
			if !v.IsNull() {
				vals = append(vals, v)
			}
		}
	}
	if a.Distinct {
		seen := map[string]bool{}
		var d []Value
		for _, v := range vals {
			k := v.Key()
			if !seen[k] {
				seen[k] = true
				d = append(d, v)
			}
		}
		vals = d
	}
	if len(vals) == 0 {
		return Null(), nil
	}
	switch a.Fn {
	case "count":
		return Int(int64(len(vals))), nil
	case "sum", "avg":
		if vals[0].K == KInt {
			var s int64
			for _, v := range vals {
				s += v.I // wraps
			}
			if a.Fn == "avg" {
				return Int(s / int64(len(vals))), nil // truncates toward zero
			}
			return Int(s), nil
		}
		var s, abs float64
		for _, v := range vals {
			s += v.F
			abs += math.Abs(v.F)
		}
		tol := float64(len(vals)) * 2.220446049250313e-16 * abs
		if a.Fn == "avg" {
			s = s / float64(len(vals))
			tol = tol / float64(len(vals))
		}
		r, err := o.checkFloat(s)
		if err != nil {
			// a sum that is exactly -0.0 cannot arise from inputs without -0.0; NaN/Inf can
			return Value{}, err
		}
		r.Tol = tol
		return r, nil
	case "min", "max":
		best := vals[0]
		for _, v := range vals[1:] {
			c := Compare(v, best)
			if (a.Fn == "min" && c < 0) || (a.Fn == "max" && c > 0) {
				best = v
			}
		}
		return best, nil
	case "array_agg":
		l := make([]Value, len(vals))
		copy(l, vals)
		sort.SliceStable(l, func(i, j int) bool { return Compare(l[i], l[j]) < 0 })
		return List(l), nil
	}
	return Value{}, undefined("unknown aggregate " + a.Fn)
}

// CutAmbiguous reports whether this level's LIMIT cuts through rows the ORDER BY does not order
// (a tie group of non-identical rows, or no ORDER BY at all): the choice of rows is then open.
func (r *Result) CutAmbiguous() bool { return cutAmbiguous(r.Full, r.OrderBy, r.Limit) }

package sqlref

import (
	"fmt"
	"sort"
	"strings"
)

func rowTolEqual(a, b Row) bool {
	if len(a) != len(b) {
		return false
	}
	for i := range a {
		if !TolEqual(a[i], b[i]) {
			return false
		}
	}
	return true
}

func hasTol(rows []Row) bool {
	for _, r := range rows {
		for _, v := range r {
			if v.K == KFloat && v.Tol > 0 {
				return true
			}
		}
	}
	return false
}

// DiffMultiset matches got against exp as multisets (floats that carry a tolerance are matched
// within it) and returns the rows of exp that have no partner and the rows of got that have none.
func DiffMultiset(exp, got []Row) (missing, surplus []Row) {
	if !hasTol(exp) {
		cnt := map[string]int{}
		for _, r := range exp {
			cnt[r.Key()]++
		}
		for _, r := range got {
			k := r.Key()
			if cnt[k] > 0 {
				cnt[k]--
			} else {
				surplus = append(surplus, r)
			}
		}
		for _, r := range exp {
			k := r.Key()
			if cnt[k] > 0 {
				cnt[k]--
				missing = append(missing, r)
			}
		}
		return
	}
	// Tolerant matching: bucket by the exact columns. Which columns are tolerant is decided by
	// exp (got rows carry no tolerance), so got rows are keyed with exp's column pattern.
	tolCol := map[int]bool{}
	for _, r := range exp {
		for i, v := range r {
			if v.K == KFloat && v.Tol > 0 {
				tolCol[i] = true
			}
		}
	}
	key := func(r Row) string {
		var sb strings.Builder
		for i, v := range r {
			if i > 0 {
				sb.WriteByte('|')
			}
			if tolCol[i] && v.K == KFloat {
				sb.WriteString("F~")
				continue
			}
			v.appendKey(&sb)
		}
		return sb.String()
	}
	buckets := map[string][]int{}
	for i, r := range got {
		buckets[key(r)] = append(buckets[key(r)], i)
	}
	used := make([]bool, len(got))
	for _, e := range exp {
		found := false
		for _, gi := range buckets[key(e)] {
			if !used[gi] && rowTolEqual(e, got[gi]) {
				used[gi] = true
				found = true
				break
			}
		}
		if !found {
			missing = append(missing, e)
		}
	}
	for i, r := range got {
		if !used[i] {
			surplus = append(surplus, r)
		}
	}
	return
}

// SubMultiset reports whether every row of sub occurs in super at least as often.
func SubMultiset(sub, super []Row) (bool, Row) {
	_, surplus := DiffMultiset(super, sub)
	if len(surplus) > 0 {
		return false, surplus[0]
	}
	return true, nil
}

// SortedBy checks that rows are non-decreasing in the order keys; it returns the index of the
// first row that is before its predecessor, or -1.
func SortedBy(rows []Row, keys []OrderKey) int {
	for i := 1; i < len(rows); i++ {
		if CompareKeys(rows[i-1], rows[i], keys) > 0 {
			return i
		}
	}
	return -1
}

// Verdict of a comparison.
type Verdict struct {
	OK   bool
	Kind string // count | header | multiset | order | prefix | membership
	What string
}

func ok() Verdict { return Verdict{OK: true} }

// Judge applies the oracle of DESIGN §3.2 to the rows got printed for a query level whose
// reference evaluation is res:
//   - no LIMIT: got must equal res.Full as a multiset, and if ordered is true and there is an
//     ORDER BY, got must be sorted by the keys (tie-tolerant);
//   - LIMIT n: len(got) == min(n, len(Full)); without ORDER BY got must be a sub-multiset of Full;
//     with ORDER BY every row strictly before the boundary key must be present, the remainder must
//     come from the boundary tie group, and (if ordered) got must be sorted.
//
// ordered=false is for placements where the limited level feeds another operator (the printed
// order is then unspecified).
func Judge(res *Result, got []Row, ordered bool) Verdict {
	full := res.Full
	if res.GlobalAggEmpty && len(got) == 1 && res.Limit != 0 {
		// §3.4: one row of empty-set results is acceptable too (count may print NULL or 0)
		for i, v := range got[0] {
			if v.IsNull() || (v.K == KInt && v.I == 0 && res.Cols[i].T.K == KInt) {
				continue
			}
			return Verdict{Kind: "multiset", What: fmt.Sprintf("global aggregate over an empty input printed %s", got[0])}
		}
		return ok()
	}
	n := res.Limit
	want := len(full)
	if n >= 0 && n < want {
		want = n
	}
	if len(got) != want {
		return Verdict{Kind: "count", What: fmt.Sprintf("printed %d rows, expected %d (rows before LIMIT: %d, LIMIT: %d); got %s", len(got), want, len(full), n, RowsString(got, 12))}
	}
	if ordered && len(res.OrderBy) > 0 {
		if i := SortedBy(got, res.OrderBy); i >= 0 {
			return Verdict{Kind: "order", What: fmt.Sprintf("row %d %s is printed after %s but sorts before it", i, got[i], got[i-1])}
		}
	}
	if n < 0 || n >= len(full) {
		missing, surplus := DiffMultiset(full, got)
		if len(missing) > 0 || len(surplus) > 0 {
			return Verdict{Kind: "multiset", What: fmt.Sprintf("missing %s; surplus %s", RowsString(missing, 6), RowsString(surplus, 6))}
		}
		return ok()
	}
	if n == 0 {
		return ok()
	}
	if len(res.OrderBy) == 0 {
		if sub, r := SubMultiset(got, full); !sub {
			return Verdict{Kind: "membership", What: fmt.Sprintf("printed row %s is not a row of the un-limited result (or is printed more often than it occurs)", r)}
		}
		return ok()
	}
	// prefix rule
	boundary := full[n-1]
	var before, group []Row
	for _, r := range full {
		c := CompareKeys(r, boundary, res.OrderBy)
		if c < 0 {
			before = append(before, r)
		} else if c == 0 {
			group = append(group, r)
		}
	}
	missing, rest := DiffMultiset(before, got)
	if len(missing) > 0 {
		return Verdict{Kind: "prefix", What: fmt.Sprintf("rows that sort strictly before the boundary are missing: %s", RowsString(missing, 6))}
	}
	if sub, r := SubMultiset(rest, group); !sub {
		return Verdict{Kind: "prefix", What: fmt.Sprintf("printed row %s is neither before the boundary nor in the boundary tie group", r)}
	}
	return ok()
}

// SortRows sorts rows by the keys and then by all columns (used to predict btree iteration).
func SortRows(rows []Row, keys []OrderKey) []Row {
	out := make([]Row, len(rows))
	copy(out, rows)
	sort.SliceStable(out, func(i, j int) bool {
		if c := CompareKeys(out[i], out[j], keys); c != 0 {
			return c < 0
		}
		return CompareRows(out[i], out[j]) < 0
	})
	return out
}

// FirstDistinctItems returns the rows of the first n DISTINCT rows in (keys, values) order, each
// with its full multiplicity: what an implementation that counts distinct items instead of rows
// would print for ORDER BY ... LIMIT n.
func FirstDistinctItems(full []Row, keys []OrderKey, n int) []Row {
	sorted := SortRows(full, keys)
	var out []Row
	items := 0
	for i, r := range sorted {
		if i == 0 || CompareRows(sorted[i-1], r) != 0 {
			items++
			if items > n {
				break
			}
		}
		out = append(out, r)
	}
	return out
}

// HasDuplicateRows reports whether some row occurs at least twice.
func HasDuplicateRows(rows []Row) bool {
	seen := map[string]bool{}
	for _, r := range rows {
		k := r.Key()
		if seen[k] {
			return true
		}
		seen[k] = true
	}
	return false
}

// SameMultiset is exact multiset equality.
func SameMultiset(a, b []Row) bool {
	if len(a) != len(b) {
		return false
	}
	m, s := DiffMultiset(a, b)
	return len(m) == 0 && len(s) == 0
}

// Package sqlref is the independent SQL oracle shared by the C01, C03 and C05 drivers: a small
// typed SQL AST, a seeded generator of well-typed queries and tables, a renderer to octosql's SQL
// dialect, a reference evaluator and comparison helpers.
//
// It imports ONLY the Go standard library (nothing from github.com/cube2222/octosql, not even the
// harness's own packages), so the oracle cannot share a bug with the code under test.
//
// Conventions (DESIGN §3.2/§3.4): values are ordered by kind (NULL < Int < Float < Boolean <
// String < List) and then by value, so NULL sorts first; strings compare bytewise; Int arithmetic
// wraps mod 2^64; Kleene three-valued logic; strict functions propagate NULL; WHERE keeps TRUE
// only; aggregates ignore NULL inputs and yield NULL on an empty set; AVG(Int) truncates toward
// zero; array_agg is ascending. Anything whose result is not defined by these conventions (a
// float result that is NaN/Inf/-0.0, int() of an out-of-range float, ...) makes the evaluation
// return ErrUndefined, and the case is then not judged.
package sqlref

import (
	"fmt"
	"math"
	"strconv"
	"strings"
)

// Kind is the run-time kind of a value; the numeric order is the sort order between kinds.
type Kind int

const (
	KNull Kind = iota
	KInt
	KFloat
	KBool
	KString
	KList
)

func (k Kind) String() string {
	switch k {
	case KNull:
		return "Null"
	case KInt:
		return "Int"
	case KFloat:
		return "Float"
	case KBool:
		return "Boolean"
	case KString:
		return "String"
	case KList:
		return "List"
	}
	return "?"
}

// Type is a static type: a kind plus, for lists, the element kind. Nullability is not tracked
// (every generated expression may be NULL).
type Type struct {
	K    Kind
	Elem Kind // for KList
}

var (
	TNull   = Type{K: KNull}
	TInt    = Type{K: KInt}
	TFloat  = Type{K: KFloat}
	TBool   = Type{K: KBool}
	TString = Type{K: KString}
)

func TList(elem Kind) Type { return Type{K: KList, Elem: elem} }

func (t Type) String() string {
	if t.K == KList {
		return "List<" + t.Elem.String() + ">"
	}
	return t.K.String()
}

// Value is one SQL value. Tol is an absolute tolerance attached by the evaluator to float sums
// and averages (n*eps*sum|x|); it takes part in tolerant equality only.
type Value struct {
	K   Kind
	I   int64
	F   float64
	B   bool
	S   string
	L   []Value
	Tol float64
}

func Null() Value            { return Value{K: KNull} }
func Int(i int64) Value      { return Value{K: KInt, I: i} }
func Float(f float64) Value  { return Value{K: KFloat, F: f} }
func Bool(b bool) Value      { return Value{K: KBool, B: b} }
func Str(s string) Value     { return Value{K: KString, S: s} }
func List(vs []Value) Value  { return Value{K: KList, L: vs} }
func (v Value) IsNull() bool { return v.K == KNull }

// Compare is the documented total order: kind first (NULL first), then value; strings bytewise;
// floats numerically (the evaluator keeps NaN and -0.0 out).
func Compare(a, b Value) int {
	if a.K != b.K {
		if a.K < b.K {
			return -1
		}
		return 1
	}
	switch a.K {
	case KNull:
		return 0
	case KInt:
		switch {
		case a.I < b.I:
			return -1
		case a.I > b.I:
			return 1
		}
		return 0
	case KFloat:
		switch {
		case a.F < b.F:
			return -1
		case a.F > b.F:
			return 1
		}
		return 0
	case KBool:
		switch {
		case a.B == b.B:
			return 0
		case !a.B:
			return -1
		}
		return 1
	case KString:
		return strings.Compare(a.S, b.S) // bytewise
	case KList:
		for i := 0; i < len(a.L) && i < len(b.L); i++ {
			if c := Compare(a.L[i], b.L[i]); c != 0 {
				return c
			}
		}
		switch {
		case len(a.L) < len(b.L):
			return -1
		case len(a.L) > len(b.L):
			return 1
		}
		return 0
	}
	return 0
}

// Equal is exact equality under Compare.
func Equal(a, b Value) bool { return Compare(a, b) == 0 }

// TolEqual is equality where floats carrying a tolerance may differ by that tolerance.
func TolEqual(a, b Value) bool {
	if a.K != b.K {
		return false
	}
	if a.K == KFloat {
		tol := math.Max(a.Tol, b.Tol)
		if tol > 0 {
			return math.Abs(a.F-b.F) <= tol
		}
		return a.F == b.F
	}
	if a.K == KList {
		if len(a.L) != len(b.L) {
			return false
		}
		for i := range a.L {
			if !TolEqual(a.L[i], b.L[i]) {
				return false
			}
		}
		return true
	}
	return Compare(a, b) == 0
}

// Key is a canonical, injective text encoding of a value (used for multisets and DISTINCT).
func (v Value) Key() string {
	var sb strings.Builder
	v.appendKey(&sb)
	return sb.String()
}

func (v Value) appendKey(sb *strings.Builder) {
	switch v.K {
	case KNull:
		sb.WriteString("N")
	case KInt:
		sb.WriteString("I")
		sb.WriteString(strconv.FormatInt(v.I, 10))
	case KFloat:
		f := v.F
		if f == 0 {
			f = 0 // fold -0.0
		}
		sb.WriteString("F")
		sb.WriteString(strconv.FormatFloat(f, 'g', -1, 64))
	case KBool:
		if v.B {
			sb.WriteString("Bt")
		} else {
			sb.WriteString("Bf")
		}
	case KString:
		sb.WriteString("S")
		sb.WriteString(strconv.Quote(v.S))
	case KList:
		sb.WriteString("L[")
		for i, e := range v.L {
			if i > 0 {
				sb.WriteString(",")
			}
			e.appendKey(sb)
		}
		sb.WriteString("]")
	}
}

// String is a human-readable rendering for reports.
func (v Value) String() string {
	switch v.K {
	case KNull:
		return "NULL"
	case KInt:
		return strconv.FormatInt(v.I, 10)
	case KFloat:
		s := strconv.FormatFloat(v.F, 'g', -1, 64)
		if !strings.ContainsAny(s, ".eIN") {
			s += ".0"
		}
		return s
	case KBool:
		if v.B {
			return "true"
		}
		return "false"
	case KString:
		return strconv.Quote(v.S)
	case KList:
		parts := make([]string, len(v.L))
		for i, e := range v.L {
			parts[i] = e.String()
		}
		return "[" + strings.Join(parts, ", ") + "]"
	}
	return "?"
}

// Row is one tuple.
type Row []Value

func (r Row) Key() string {
	var sb strings.Builder
	for i, v := range r {
		if i > 0 {
			sb.WriteByte('|')
		}
		v.appendKey(&sb)
	}
	return sb.String()
}

func (r Row) String() string {
	parts := make([]string, len(r))
	for i, v := range r {
		parts[i] = v.String()
	}
	return "(" + strings.Join(parts, ", ") + ")"
}

// CompareRows compares two rows column by column.
func CompareRows(a, b Row) int {
	for i := 0; i < len(a) && i < len(b); i++ {
		if c := Compare(a[i], b[i]); c != 0 {
			return c
		}
	}
	return len(a) - len(b)
}

// RowsString renders up to max rows.
func RowsString(rows []Row, max int) string {
	var sb strings.Builder
	for i, r := range rows {
		if i >= max {
			fmt.Fprintf(&sb, " ...(+%d)", len(rows)-max)
			break
		}
		if i > 0 {
			sb.WriteByte(' ')
		}
		sb.WriteString(r.String())
	}
	return sb.String()
}

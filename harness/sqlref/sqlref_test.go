package sqlref

import (
	"go/parser"
	"go/token"
	"math/rand"
	"os"
	"path/filepath"
	"strings"
	"testing"
)

// The oracle must not share code with the system under test: only standard-library imports.
func TestOnlyStandardLibraryImports(t *testing.T) {
	files, _ := filepath.Glob("*.go")
	fset := token.NewFileSet()
	for _, f := range files {
		src, err := os.ReadFile(f)
		if err != nil {
			t.Fatal(err)
		}
		pf, err := parser.ParseFile(fset, f, src, parser.ImportsOnly)
		if err != nil {
			t.Fatal(err)
		}
		for _, imp := range pf.Imports {
			path := strings.Trim(imp.Path.Value, `"`)
			if strings.Contains(strings.SplitN(path, "/", 2)[0], ".") {
				t.Errorf("%s imports %s: sqlref must import the standard library only", f, path)
			}
		}
	}
}

func TestLikeMatch(t *testing.T) {
	cases := []struct {
		s, p string
		want bool
	}{
		{"abc", "a%", true}, {"abc", "%c", true}, {"abc", "a_c", true}, {"abc", "a_", false}, {"", "%", true}, {"", "_", false},
		{"abc", "%b%", true}, {"abc", "abc", true}, {"abc", "ab", false}, {"a\nb", "%", true}, {"a\nb", "a_b", true},
		{"日本", "__", true}, {"日本", "_", false}, {"aXbXc", "a%b%c", true}, {"ab", "%a%b%", true}, {"ab", "b%", false},
	}
	for _, c := range cases {
		if got := LikeMatch(c.s, c.p); got != c.want {
			t.Errorf("LikeMatch(%q, %q) = %v, want %v", c.s, c.p, got, c.want)
		}
	}
}

func TestKleene(t *testing.T) {
	tv := []Value{Bool(true), Bool(false), Null()}
	and := [3][3]string{{"t", "f", "n"}, {"f", "f", "f"}, {"n", "f", "n"}}
	or := [3][3]string{{"t", "t", "t"}, {"t", "f", "n"}, {"t", "n", "n"}}
	name := func(v Value) string {
		if v.IsNull() {
			return "n"
		}
		if v.B {
			return "t"
		}
		return "f"
	}
	for i, a := range tv {
		for j, b := range tv {
			x, _ := Bin(OpAnd, TBool, Lit(a), Lit(b)).Eval(nil, EvalOpts{})
			y, _ := Bin(OpOr, TBool, Lit(a), Lit(b)).Eval(nil, EvalOpts{})
			if name(x) != and[i][j] || name(y) != or[i][j] {
				t.Errorf("%s,%s: and=%s or=%s", name(a), name(b), name(x), name(y))
			}
		}
	}
}

func rows(vals ...int64) []Row {
	var out []Row
	for _, v := range vals {
		out = append(out, Row{Int(v)})
	}
	return out
}

func TestJudgePrefixRule(t *testing.T) {
	full := []Row{{Int(1), Int(9)}, {Int(1), Int(8)}, {Int(2), Int(7)}, {Int(2), Int(6)}, {Int(3), Int(5)}}
	res := &Result{Full: full, OrderBy: []OrderKey{{Col: 0}}, Limit: 3, Cols: []Column{{Name: "x", T: TInt}, {Name: "y", T: TInt}}}
	okCases := [][]Row{
		{{Int(1), Int(9)}, {Int(1), Int(8)}, {Int(2), Int(7)}},
		{{Int(1), Int(8)}, {Int(1), Int(9)}, {Int(2), Int(6)}}, // other tie choice, other tie order
	}
	for _, got := range okCases {
		if v := Judge(res, got, true); !v.OK {
			t.Errorf("expected OK for %v: %s", got, v.What)
		}
	}
	bad := [][]Row{
		{{Int(1), Int(9)}, {Int(2), Int(7)}, {Int(2), Int(6)}},                   // a row before the boundary is missing
		{{Int(1), Int(9)}, {Int(1), Int(8)}, {Int(3), Int(5)}},                   // beyond the boundary group
		{{Int(2), Int(7)}, {Int(1), Int(9)}, {Int(1), Int(8)}},                   // not sorted
		{{Int(1), Int(9)}, {Int(1), Int(8)}},                                     // too few
		{{Int(1), Int(9)}, {Int(1), Int(8)}, {Int(2), Int(7)}, {Int(2), Int(6)}}, // too many
		{{Int(1), Int(9)}, {Int(1), Int(8)}, {Int(2), Int(8)}},                   // not a row of the input
	}
	for _, got := range bad {
		if v := Judge(res, got, true); v.OK {
			t.Errorf("expected a violation for %v", got)
		}
	}
	// without ORDER BY: count and membership
	res2 := &Result{Full: rows(1, 1, 2), Limit: 2, Cols: []Column{{Name: "x", T: TInt}}}
	if v := Judge(res2, rows(1, 2), true); !v.OK {
		t.Error(v.What)
	}
	if v := Judge(res2, rows(2, 2), true); v.OK {
		t.Error("2 occurs once only")
	}
	// LIMIT 0 and LIMIT beyond
	res3 := &Result{Full: rows(1, 1, 2), Limit: 0, Cols: []Column{{Name: "x", T: TInt}}}
	if v := Judge(res3, rows(1, 1, 2), true); v.OK {
		t.Error("LIMIT 0 printing everything must be a violation")
	}
	res4 := &Result{Full: rows(1, 1, 2), Limit: 10, Cols: []Column{{Name: "x", T: TInt}}}
	if v := Judge(res4, rows(2, 1, 1), true); !v.OK {
		t.Error(v.What)
	}
}

func TestFirstDistinctItems(t *testing.T) {
	got := FirstDistinctItems(rows(3, 1, 1, 2, 1, 2), []OrderKey{{Col: 0}}, 2)
	if !SameMultiset(got, rows(1, 1, 1, 2, 2)) {
		t.Errorf("got %v", got)
	}
}

func TestAggregates(t *testing.T) {
	col := Col(0, "a", TInt)
	in := []Row{{Int(5)}, {Null()}, {Int(-8)}, {Int(5)}}
	check := func(a *Agg, want Value) {
		t.Helper()
		got, err := EvalAgg(a, in, EvalOpts{})
		if err != nil || !Equal(got, want) {
			t.Errorf("%s = %v (%v), want %v", a.SQL(), got, err, want)
		}
	}
	check(&Agg{Fn: "count", Arg: col}, Int(3))
	check(&Agg{Fn: "count", Star: true}, Int(4))
	check(&Agg{Fn: "count", Distinct: true, Arg: col}, Int(2))
	check(&Agg{Fn: "sum", Arg: col}, Int(2))
	check(&Agg{Fn: "sum", Distinct: true, Arg: col}, Int(-3))
	check(&Agg{Fn: "avg", Arg: col}, Int(0))                  // 2/3 truncates toward zero
	check(&Agg{Fn: "avg", Distinct: true, Arg: col}, Int(-1)) // -3/2 truncates toward zero
	check(&Agg{Fn: "min", Arg: col}, Int(-8))
	check(&Agg{Fn: "max", Arg: col}, Int(5))
	check(&Agg{Fn: "array_agg", Arg: col}, List([]Value{Int(-8), Int(5), Int(5)}))
	check(&Agg{Fn: "array_agg", Distinct: true, Arg: col}, List([]Value{Int(-8), Int(5)}))
	in = []Row{{Null()}}
	for _, fn := range []string{"count", "sum", "avg", "min", "max", "array_agg"} {
		check(&Agg{Fn: fn, Arg: col}, Null())
	}
}

func TestConsolidateNative(t *testing.T) {
	recs, err := ParseNative([]byte("{+0001-01-01T00:00:00Z| 1, [1, 2], 'a' |}\n{-0001-01-01T00:00:00Z| 1, [1, 2], 'a' |}\n{+0001-01-01T00:00:00Z| 2, <null>, 'b' |}\n"))
	if err != nil {
		t.Fatal(err)
	}
	cells, retr, err := ConsolidateNative(recs)
	if err != nil || retr != 1 || len(cells) != 1 || cells[0][0] != "2" {
		t.Errorf("cells=%v retr=%d err=%v", cells, retr, err)
	}
	if _, _, err := ConsolidateNative([]NativeLine{{Retraction: true, Cells: []string{"1"}}}); err == nil {
		t.Error("a retraction of an absent row must be an error")
	}
}

// Every generated query renders, evaluates (or is undefined) deterministically, and two
// generators with the same seed agree.
func TestGeneratorDeterministic(t *testing.T) {
	for seed := int64(0); seed < 300; seed++ {
		var sqls [2]string
		for k := 0; k < 2; k++ {
			g := NewGen(rand.New(rand.NewSource(seed)), GenOpts{Rich: seed%2 == 0})
			kind := "json"
			if seed%3 == 0 {
				kind = "csv"
			}
			tb := g.Table(kind)
			var q *Query
			if seed%2 == 0 {
				q = g.SelectQuery([]*Table{tb})
			} else {
				q = g.GroupQuery([]*Table{tb}, GroupOpts{AllowList: true, PTrigger: 0.3, PEndOfStream: 0.1})
			}
			sqls[k] = q.SQL() + string(tb.FileBytes())
			if _, err := q.Eval(EvalOpts{}); err != nil && !strings.Contains(err.Error(), "undefined") {
				t.Fatalf("seed %d: %v\n%s", seed, err, q.SQL())
			}
			q.Visit(func(x *Query, _ int) {
				x.Exprs(func(e *Expr) {
					if e.Depth() > 3 {
						t.Errorf("seed %d: expression depth %d", seed, e.Depth())
					}
				})
			}, 0)
		}
		if sqls[0] != sqls[1] {
			t.Fatalf("seed %d: generator is not deterministic", seed)
		}
	}
}

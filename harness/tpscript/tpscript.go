// Package tpscript is the on-disk format of "script tables" served by cmd/testplugin: a schema and
// a sequence of records / metadata messages, each stored as the protobuf wire bytes of the plugin
// protocol's own messages (base64 inside one JSON document). The harness writes a script, the
// test plugin replays it, and the harness compares what arrives over the real gRPC connection
// with what it wrote.
package tpscript

import (
	"encoding/json"
	"fmt"
	"os"

	"google.golang.org/protobuf/proto"

	"github.com/cube2222/octosql/execution"
	"github.com/cube2222/octosql/physical"
	"github.com/cube2222/octosql/plugins/internal/plugins"
)

type Event struct {
	IsMeta bool
	Record execution.Record
	Meta   execution.MetadataMessage
}

type Script struct {
	Schema physical.Schema
	Events []Event
}

// fileWire keeps "is this a record or a metadata message" explicit (an empty protobuf message
// encodes to zero bytes).
type fileWire struct {
	Schema []byte      `json:"schema"`
	Events []wireEvent `json:"events"`
}

type wireEvent struct {
	Kind string `json:"kind"` // "r" | "m"
	Data []byte `json:"data"`
}

func Write(path string, s Script) error {
	var f fileWire
	var err error
	if f.Schema, err = proto.Marshal(plugins.NativeSchemaToProto(s.Schema)); err != nil {
		return err
	}
	for _, e := range s.Events {
		var we wireEvent
		if e.IsMeta {
			we.Kind = "m"
			we.Data, err = proto.Marshal(plugins.NativeMetadataMessageToProto(e.Meta))
		} else {
			we.Kind = "r"
			we.Data, err = proto.Marshal(plugins.NativeRecordToProto(e.Record))
		}
		if err != nil {
			return err
		}
		f.Events = append(f.Events, we)
	}
	data, err := json.Marshal(&f)
	if err != nil {
		return err
	}
	return os.WriteFile(path, data, 0o644)
}

func Read(path string) (Script, error) {
	data, err := os.ReadFile(path)
	if err != nil {
		return Script{}, err
	}
	var f fileWire
	if err := json.Unmarshal(data, &f); err != nil {
		return Script{}, fmt.Errorf("script %s: %w", path, err)
	}
	var out Script
	var ps plugins.Schema
	if err := proto.Unmarshal(f.Schema, &ps); err != nil {
		return Script{}, fmt.Errorf("script %s: schema: %w", path, err)
	}
	out.Schema = ps.ToNativeSchema()
	for i, e := range f.Events {
		switch e.Kind {
		case "m":
			var m plugins.MetadataMessage
			if err := proto.Unmarshal(e.Data, &m); err != nil {
				return Script{}, fmt.Errorf("script %s: event %d: %w", path, i, err)
			}
			out.Events = append(out.Events, Event{IsMeta: true, Meta: m.ToNativeMetadataMessage()})
		case "r":
			var r plugins.Record
			if err := proto.Unmarshal(e.Data, &r); err != nil {
				return Script{}, fmt.Errorf("script %s: event %d: %w", path, i, err)
			}
			out.Events = append(out.Events, Event{Record: r.ToNativeRecord()})
		default:
			return Script{}, fmt.Errorf("script %s: event %d: bad kind %q", path, i, e.Kind)
		}
	}
	return out, nil
}

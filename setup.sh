#!/bin/bash
# Run once after a fresh restore, offline: builds the framework from files on disk only.
set -euo pipefail
cd "$(dirname "$0")"
. lib/env.sh
mkdir -p .cache/logs .cache/home evidence replays
lib/build.sh octosql vharness
# the oracle must not borrow semantics from the code under test
if [ -d harness/oracle ] && ls harness/oracle/*.go >/dev/null 2>&1; then
  if (cd harness && go list -deps ./oracle/... 2>/dev/null | grep -q '^github.com/cube2222/octosql/\(octosql\|execution\|functions\|physical\|logical\|parser\|aggregates\)'); then
    echo "oracle package imports octosql packages: independence violated" >&2; exit 1
  fi
fi
python3 - <<'PY'
import json,sys
m=json.load(open('MANIFEST.json')); f=json.load(open('known_findings.json'))
assert m['version']==1 and isinstance(f['findings'],list)
try:
    import jsonschema
    jsonschema.validate(m, json.load(open('/root/.vp/MANIFEST.schema.json')))
except ImportError:
    pass
print("setup ok: %d checks" % len(m['checks']))
PY

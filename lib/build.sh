#!/bin/bash
# usage: lib/build.sh [octosql] [octosql-race] [vharness] [vharness-race] [testplugin]
# Rebuilds the requested binaries from /repo's CURRENT working tree (go's build cache makes an
# unchanged tree a ~1 s no-op). Serialised with flock so parallel checks do not fight.
set -euo pipefail
. "$(dirname "$0")/env.sh"
REPO=$VERIF_REPO
MF=$VERIF_MODFILE
SUM="${MF%.mod}.sum"
H=$VERIF_ROOT/harness
exec 9>$VERIF_ROOT/.cache/build.lock
flock 9
gen_gomod() {
  # harness go.mod = /repo/go.mod's require/replace blocks verbatim + replace of octosql itself
  {
    echo "module github.com/cube2222/octosql/plugins/verifharness"
    echo
    echo "go 1.18"
    echo
    echo "require github.com/cube2222/octosql v0.0.0"
    echo
    awk '/^require \(/{p=1} p{print} /^\)/{if(p){p=0;print ""}}' $REPO/go.mod
    grep '^replace ' $REPO/go.mod || true
    echo "replace github.com/cube2222/octosql => $REPO"
  } > $MF.new
  if ! cmp -s $MF.new $MF 2>/dev/null; then mv $MF.new $MF; else rm $MF.new; fi
  cmp -s $REPO/go.sum $SUM 2>/dev/null || cp $REPO/go.sum $SUM
}
gen_gomod
for t in "$@"; do
  case "$t" in
    octosql)       (cd $REPO && go build -tags verif -o $VERIF_BIN/octosql .) ;;
    octosql-race)  (cd $REPO && go build -race -tags verif -o $VERIF_BIN/octosql-race .) ;;
    vharness)      (cd $H && go build -modfile=$MF -tags verif -o $VERIF_BIN/vharness ./cmd/vharness) ;;
    vharness-race) (cd $H && go build -modfile=$MF -race -tags verif -o $VERIF_BIN/vharness-race ./cmd/vharness) ;;
    vharness-dev:*) p="${t#vharness-dev:}"; (cd $H && go build -modfile=$MF -tags "verif verif_only verif_only_$p" -o $VERIF_BIN/vharness-$p ./cmd/vharness) ;;
    vharness-race-dev:*) p="${t#vharness-race-dev:}"; (cd $H && go build -modfile=$MF -race -tags "verif verif_only verif_only_$p" -o $VERIF_BIN/vharness-race-$p ./cmd/vharness) ;;
    testplugin)    (cd $H && go build -modfile=$MF -tags verif -o $VERIF_BIN/testplugin ./cmd/testplugin) ;;
    *) echo "unknown target $t" >&2; exit 3 ;;
  esac
done

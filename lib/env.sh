# sourced by every script: offline Go environment; never touches HOME (module cache lives under it)
export GOFLAGS=-mod=mod GOPROXY=off GOSUMDB=off GOTOOLCHAIN=local
export VERIF_ROOT="$(cd "$(dirname "${BASH_SOURCE[0]}")/.." && pwd)"
export GOCACHE=/verif/.cache/gocache
export VERIF_BIN=$VERIF_ROOT/.cache/bin
mkdir -p "$GOCACHE" "$VERIF_BIN"

# sourced by every script: offline Go environment; never touches HOME (module cache lives under it)
export GOFLAGS=-mod=mod GOPROXY=off GOSUMDB=off GOTOOLCHAIN=local
export VERIF_ROOT="$(cd "$(dirname "${BASH_SOURCE[0]}")/.." && pwd)"
export GOCACHE=/verif/.cache/gocache
# VERIF_REPO (default /repo) exists only so that the same checks can be pointed at a mutated scratch
# copy of the repository (seeded-change experiments) without touching /repo; registered checks
# never set it.
export VERIF_REPO="${VERIF_REPO:-/repo}"
if [ "$VERIF_REPO" = /repo ]; then
  export VERIF_BIN=$VERIF_ROOT/.cache/bin
  export VERIF_MODFILE=$VERIF_ROOT/harness/go.mod
else
  _h=$(echo "$VERIF_REPO" | md5sum | cut -c1-8)
  export VERIF_BIN=$VERIF_ROOT/.cache/bin-$_h
  export VERIF_MODFILE=$VERIF_ROOT/.cache/alt-$_h.mod
fi
mkdir -p "$GOCACHE" "$VERIF_BIN"
